//! known_findings.json (committed, read-only at run time) and replay artefacts.

use crate::ctx::{fnv_str, verif_root};
use serde_json::{json, Value};
use std::path::PathBuf;

#[derive(Debug, Clone)]
pub struct Known {
	pub property: String,
	pub signature: String,
	pub what: String,
}

pub fn load_known(id: &str) -> Vec<Known> {
	let path = verif_root().join("known_findings.json");
	let Ok(text) = std::fs::read_to_string(&path) else { return vec![] };
	let v: Value = match serde_json::from_str(&text) {
		Ok(v) => v,
		Err(e) => {
			eprintln!("MACHINERY: known_findings.json does not parse: {e}");
			std::process::exit(2);
		}
	};
	let mut out = vec![];
	if let Some(arr) = v.get("findings").and_then(|f| f.as_array()) {
		for f in arr {
			let p = f.get("property").and_then(|x| x.as_str()).unwrap_or("");
			if p == id {
				out.push(Known {
					property: p.to_string(),
					signature: f.get("signature").and_then(|x| x.as_str()).unwrap_or("").to_string(),
					what: f.get("what").and_then(|x| x.as_str()).unwrap_or("").to_string(),
				});
			}
		}
	}
	out
}

/// Exact match only: a known finding never hides a violation with a different signature.
pub fn sig_matches(known: &str, sig: &str) -> bool {
	known == sig
}

pub fn write_replay(id: &str, tier: &str, sig: &str, description: &str, case: &Value) -> PathBuf {
	let dir = verif_root().join("replays").join(id);
	let _ = std::fs::create_dir_all(&dir);
	let path = dir.join(format!("{:016x}.json", fnv_str(sig)));
	let doc = json!({"property": id, "tier": tier, "signature": sig, "description": description, "case": case});
	let _ = std::fs::write(&path, serde_json::to_string_pretty(&doc).unwrap());
	path
}

/// tier recorded in a replay file ("quick" if absent)
pub fn read_replay_tier(path: &str) -> String {
	std::fs::read_to_string(path).ok().and_then(|t| serde_json::from_str::<Value>(&t).ok()).and_then(|v| v.get("tier").and_then(|t| t.as_str()).map(|s| s.to_string())).unwrap_or_else(|| "quick".into())
}

pub fn read_replay(path: &str) -> Value {
	let text = std::fs::read_to_string(path).unwrap_or_else(|e| {
		eprintln!("MACHINERY: cannot read replay {path}: {e}");
		std::process::exit(2)
	});
	let v: Value = serde_json::from_str(&text).unwrap_or_else(|e| {
		eprintln!("MACHINERY: replay {path} does not parse: {e}");
		std::process::exit(2)
	});
	v.get("case").cloned().unwrap_or(v)
}
