//! Pipeline harness: a PipelineFactory whose `from_container filename="mem:<n>"` resolves to a
//! registered MemSource (real file names resolve through the repository's get_reader), plus a
//! uniform view (`AnySrc`) on readers and operations for the shared oracles.

use crate::memsource::{Key, MemSource};
use futures::future::BoxFuture;
use std::path::Path;
use std::sync::Arc;
use versatiles_core::types::*;
use versatiles_pipeline::{OperationTrait, PipelineFactory};

pub fn factory(sources: Vec<MemSource>, dir: &Path) -> PipelineFactory {
	let sources = Arc::new(sources);
	let cb = Box::new(move |filename: String| -> BoxFuture<'static, anyhow::Result<Box<dyn TilesReaderTrait>>> {
		let sources = sources.clone();
		Box::pin(async move {
			let last = filename.rsplit('/').next().unwrap_or("").to_string();
			if let Some(i) = last.strip_prefix("mem:") {
				let i: usize = i.parse()?;
				let s = sources.get(i).ok_or_else(|| anyhow::anyhow!("no mem source {i}"))?;
				// a source that answers late also opens late (like a remote container)
				for _ in 0..s.yields {
					tokio::task::yield_now().await;
				}
				if s.plain {
					Ok(Box::new(crate::memsource::PlainSource(s.clone())) as Box<dyn TilesReaderTrait>)
				} else {
					Ok(Box::new(s.clone()) as Box<dyn TilesReaderTrait>)
				}
			} else {
				versatiles_container::get_reader(&filename).await
			}
		})
	});
	PipelineFactory::default(dir, cb)
}

pub enum AnySrc {
	Reader(Box<dyn TilesReaderTrait>),
	Op(Box<dyn OperationTrait>),
}

impl AnySrc {
	pub fn parameters(&self) -> &TilesReaderParameters {
		match self {
			AnySrc::Reader(r) => r.get_parameters(),
			AnySrc::Op(o) => o.get_parameters(),
		}
	}
	pub async fn lookup(&self, k: Key) -> anyhow::Result<Option<Vec<u8>>> {
		let c = TileCoord3 { x: k.1, y: k.2, z: k.0 };
		Ok(match self {
			AnySrc::Reader(r) => r.get_tile_data(&c).await?,
			AnySrc::Op(o) => o.get_tile_data(&c).await?,
		}
		.map(|b| b.into_vec()))
	}
	pub async fn stream(&self, bbox: TileBBox) -> Vec<(Key, Vec<u8>)> {
		let s = match self {
			AnySrc::Reader(r) => r.get_bbox_tile_stream(bbox).await,
			AnySrc::Op(o) => o.get_tile_stream(bbox).await,
		};
		s.collect().await.into_iter().map(|(c, b)| ((c.z, c.x, c.y), b.into_vec())).collect()
	}
}

pub fn build_op(rt: &tokio::runtime::Runtime, f: &PipelineFactory, vpl: &str) -> Result<Box<dyn OperationTrait>, String> {
	match crate::par::catch(|| rt.block_on(f.operation_from_vpl(vpl))) {
		Ok(Ok(o)) => Ok(o),
		Ok(Err(e)) => Err(format!("{e:#}")),
		Err(p) => Err(format!("PANIC {p}")),
	}
}
