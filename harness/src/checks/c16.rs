//! C16 — readers accept every container that is valid by the published format layouts.
//!
//! Containers are produced by the harness's independent encoders with every layout freedom the
//! specifications leave to the encoder as an enumerated choice, then opened by the repository's
//! readers: lookups, advertised coverage and streams must equal the encoded map.

use crate::codec::{self, MbLayout, PmLayout, TarLayout, VtLayout};
use crate::containers::{self as ct, Cont, Written};
use crate::ctx::{fnv_str, Ctx, Tier};
use crate::memsource::{self, Key, TileMap};
use crate::par::{catch, panic_site, par_for};
use crate::pipeline::AnySrc;
use crate::tilesets;
use serde_json::{json, Value};
use std::collections::BTreeMap;
use std::sync::Arc;


const META: &[u8] = br#"{"name":"independent","tilejson":"3.0.0"}"#;

fn check_opened(ctx: &Ctx, rt: &tokio::runtime::Runtime, cont: Cont, label: &str, w: &Written, tiles: &TileMap, exact: bool, case: Value) {
	let cn = cont.name();
	let expected: TileMap = tiles.iter().filter(|(_, v)| !v.is_empty()).map(|(k, v)| (*k, v.clone())).collect();
	ctx.eval();
	let reader = match ct::open(rt, cont, w) {
		Ok(r) => r,
		Err(e) => {
			if let Some(p) = e.strip_prefix("PANIC ") {
				ctx.violation(&format!("{cn}: reader panics while opening a spec-valid container at {}", panic_site(p)), &format!("{label}: {p}"), case);
			} else {
				ctx.violation(&format!("{cn}: reader rejects a spec-valid container: {}", super::c01::norm_msg(&e)), &format!("{label}: {e}"), case);
			}
			return;
		}
	};
	ctx.trace(1);
	let probes = tilesets::probe_coords(tiles);
	match catch(|| memsource::lookups(rt, reader.as_ref(), &probes)) {
		Err(p) => ctx.violation(&format!("{cn}: lookup panics at {}", panic_site(&p)), &format!("{label}: {p}"), case.clone()),
		Ok(Err(e)) => ctx.violation(&format!("{cn}: lookup fails: {}", super::c01::norm_msg(&e)), &format!("{label}: {e}"), case.clone()),
		Ok(Ok(got)) => {
			if got != expected {
				let missing: Vec<&Key> = expected.keys().filter(|k| !got.contains_key(*k)).take(4).collect();
				let extra: Vec<&Key> = got.keys().filter(|k| !expected.contains_key(*k)).take(4).collect();
				let changed: Vec<&Key> = expected.iter().filter(|(k, v)| got.get(*k).is_some_and(|g| g != *v)).map(|(k, _)| k).take(4).collect();
				ctx.violation(&format!("{cn}: lookups differ from the encoded tiles"), &format!("{label}: missing {missing:?} extra {extra:?} changed {changed:?}"), case.clone());
			}
		}
	}
	let src = AnySrc::Reader(reader);
	super::c03::check_pyramid(ctx, rt, &format!("{cn} reader"), label, &src, &probes, exact, case.clone());
	let AnySrc::Reader(reader) = src else { unreachable!() };
	let mut streamed = TileMap::new();
	let mut failed = false;
	let mut dup = false;
	for bbox in reader.get_parameters().bbox_pyramid.clone().iter_levels() {
		if bbox.count_tiles() > 1 << 20 && !matches!(cont, Cont::Versatiles | Cont::Mbtiles) {
			continue;
		}
		match catch(|| memsource::stream(rt, reader.as_ref(), bbox.clone())) {
			Ok(v) => {
				for (k, d) in v {
					dup |= streamed.insert(k, d).is_some();
				}
			}
			Err(p) => {
				failed = true;
				ctx.violation(&format!("{cn}: stream over the advertised coverage panics at {}", panic_site(&p)), &format!("{label}: level box {bbox:?}: {p}"), case.clone());
			}
		}
	}
	if !failed {
		let big_skipped = reader.get_parameters().bbox_pyramid.iter_levels().any(|b| b.count_tiles() > 1 << 20) && !matches!(cont, Cont::Versatiles | Cont::Mbtiles);
		if dup || (!big_skipped && streamed != expected) {
			ctx.violation(&format!("{cn}: streams over the advertised coverage differ from the encoded tiles"), &format!("{label}: streamed {} tiles, encoded {}{}", streamed.len(), expected.len(), if dup { ", duplicates" } else { "" }), case);
		}
	}
}

/// Tile sets that exercise what only PMTiles archives of other writers contain: every run of equal
/// consecutive tile ids (start x length) at z=1..3 including runs that cross a level border, and every
/// placement of two equal tiles plus one other tile at z=2 (shared byte ranges in any position).
pub fn pm_special_sets(tier: Tier) -> Vec<(String, TileMap)> {
	let mut v = vec![];
	let max_len = tier.pick(20u64, 64u64);
	for start in 1u64..85 {
		for len in 1..=max_len {
			if start + len > 85 {
				break;
			}
			let mut t = TileMap::new();
			for id in start..start + len {
				t.insert(codec::pm_id_to_zxy(id).unwrap(), b"run payload".to_vec());
			}
			// one unrelated tile so that the directory has a second entry (unless the run covers it)
			t.entry((3, 7, 0)).or_insert_with(|| b"other".to_vec());
			v.push((format!("run of {len} equal tiles from tile id {start}"), t));
		}
	}
	let z2: Vec<Key> = (5u64..21).map(|id| codec::pm_id_to_zxy(id).unwrap()).collect();
	for a in 0..16 {
		for b in a + 1..16 {
			for c in 0..16 {
				if c == a || c == b {
					continue;
				}
				let mut t = TileMap::new();
				t.insert(z2[a], b"twin".to_vec());
				t.insert(z2[b], b"twin".to_vec());
				t.insert(z2[c], b"single".to_vec());
				v.push((format!("equal tiles at z2 ids {}+{} and another at {}", a + 5, b + 5, c + 5), t));
			}
		}
	}
	v
}

pub fn pm_special_layouts() -> Vec<PmLayout> {
	PmLayout::all().into_iter().filter(|l| (l.run_lengths || l.share_offsets) && l.leaf_size == 2 && l.leaf_levels <= 1 && !l.data_reversed).collect()
}

/// 1: interleaved (sorted by column, row, then level - the levels alternate), 2: pseudo-random (hash of the name)
pub fn tar_member_order(mut members: Vec<(String, Vec<u8>)>, order: u8) -> Vec<(String, Vec<u8>)> {
	match order {
		1 => members.sort_by_key(|(n, _)| {
			let p: Vec<u64> = n.trim_start_matches("./").trim_end_matches(".png").split('/').filter_map(|t| t.parse().ok()).collect();
			if p.len() == 3 { (p[1] % 3, p[2] % 2, p[0], p[1], p[2]) } else { (0, 0, 0, 0, 0) }
		}),
		2 => members.sort_by_key(|(n, _)| crate::ctx::fnv_str(n)),
		_ => {}
	}
	members
}

fn pair_cover<T: Copy>(all: &[T], n: usize) -> Vec<T> {
	// deterministic spread over the layout list (first, last and evenly spaced)
	if all.len() <= n {
		return all.to_vec();
	}
	(0..n).map(|i| all[i * (all.len() - 1) / (n - 1)]).collect()
}

pub fn run(ctx: Arc<Ctx>) {
	ctx.rule(
		"independent encoders x layout freedoms: versatiles (coverage tight/full/margin, block order, tile order, shared ranges, padding, metadata absent) 96 layouts; PMTiles (internal compression none/gzip, run lengths, shared offsets, 0..3 leaf levels with leaf size 1..3, clustered / reversed data) 160 layouts; \
		 MBTiles (table / view over map+images, extra metadata, index, insert order) 16 layouts; tar (./ prefix, directory entries, ustar/GNU, member order natural / reversed / levels interleaved / hash order, metadata position) 32 layouts; directory (extra files, mixed spellings, symbolic links); every tile type and compression code of each layout must be reported as what it stands for; directories opened by name whatever the name ends in. tile sets: BFS depth <= 1 x all layouts, PMTiles: every run (start x length <= 20 quick / 64 thorough) of equal consecutive tile ids 1..84 and every placement of two equal tiles + one other at z=2 x the layouts with run lengths / shared ranges, depth 2 x spread of layouts (quick) / all (thorough, in-memory formats), named families. \
		 non-trivial = distinct (format, layout, tile set) using a feature the repository's writers never emit",
	);
	let work = ct::WorkDir::new("c16");
	let depth = 2usize;
	let bfs = tilesets::bfs_sets(depth, false);
	ctx.state(bfs.states.len() as u64);
	ctx.transition(bfs.transitions);
	let mut fams: Vec<(String, TileMap)> = vec![];
	fams.push(("dense 12x12 across four blocks at z9".into(), tilesets::family_dense(9, 250, 250, 12, 12, 10)));
	fams.push(("full pyramid z0..3".into(), tilesets::family_full_pyramid(3)));
	let mut runs = TileMap::new();
	// consecutive Hilbert ids with identical content -> run lengths; z=2 ids 5.. in Hilbert order
	for id in 5u64..14 {
		let k = codec::pm_id_to_zxy(id).unwrap();
		runs.insert(k, if id < 9 { b"same".to_vec() } else { format!("t{id}").into_bytes() });
	}
	runs.insert((5, 3, 3), b"same".to_vec());
	fams.push(("run of equal tiles in Hilbert order + one far duplicate".into(), runs));
	// A,B,A,B,... in consecutive Hilbert ids, equal lengths: with shared offsets a back-referencing entry is
	// directly followed by one that is contiguous to it (offset column ..,1,0,1,0)
	let mut alt = TileMap::new();
	for id in 21u64..29 {
		let k = codec::pm_id_to_zxy(id).unwrap();
		alt.insert(k, [b"AAAAA".to_vec(), b"BBBBB".to_vec(), b"AAAAA".to_vec(), b"BBBBB".to_vec(), b"CCCCC".to_vec(), b"AAAAA".to_vec(), b"BBBBB".to_vec(), b"DDDDD".to_vec()][(id - 21) as usize].clone());
	}
	fams.push(("alternating duplicate payloads in consecutive Hilbert ids".into(), alt));
	// irregular level: five columns, the extreme rows lie in the second and fourth column only
	let mut irr = TileMap::new();
	for (x, y) in [(3u32, 10u32), (4, 5), (5, 10), (5, 11), (6, 20), (7, 10)] {
		irr.insert((5, x, y), format!("irr {x} {y}").into_bytes());
	}
	irr.insert((2, 1, 3), b"z2".to_vec());
	fams.push(("irregular level with extreme rows outside the first/middle/last column, zoom gap".into(), irr));
	// columns whose rows cross a digit boundary (8, 9, 10, 11): name order differs from numeric order
	let mut digits = TileMap::new();
	for x in 3..=6u32 {
		for y in 8..=11u32 {
			if !(x == 3 && y == 11) && !(x == 6 && y == 8) {
				digits.insert((4, x, y), format!("d {x} {y}").into_bytes());
			}
		}
	}
	for (x, y) in [(9u32, 99u32), (9, 100), (9, 101), (10, 100), (11, 100), (100, 7), (99, 7)] {
		digits.insert((7, x, y), format!("e {x} {y}").into_bytes());
	}
	fams.push(("rows and columns crossing a digit boundary (8..11, 99..101)".into(), digits));
	let mut gap = TileMap::new();
	gap.insert((0, 0, 0), b"root".to_vec());
	gap.insert((5, 17, 11), b"five".to_vec());
	gap.insert((12, 4000, 95), b"twelve".to_vec());
	fams.push(("zoom gaps 0, 5, 12".into(), gap));
	let tier = ctx.tier;
	let ctxr: &Ctx = &ctx;
	let wpath = work.0.clone();
	let states = &bfs.states;
	let famr = &fams;
	let total = states.len() + fams.len();
	let vt_all = VtLayout::all();
	let pm_all = PmLayout::all();
	let tar_all = TarLayout::all();
	let mb_all = MbLayout::all();
	let (vt_all, pm_all, tar_all, mb_all) = (&vt_all, &pm_all, &tar_all, &mb_all);
	par_for(total, |i| {
		let (name, tiles, is_fam): (String, TileMap, bool) = if i < states.len() { (format!("bfs {:?}", states[i]), tilesets::materialize(&states[i]), false) } else { (famr[i - states.len()].0.clone(), famr[i - states.len()].1.clone(), true) };
		let small = tiles.len() <= 1 || is_fam;
		let rt = tokio::runtime::Builder::new_current_thread().build().unwrap();
		// versatiles
		let vts: Vec<VtLayout> = if small || tier == Tier::Thorough { vt_all.clone() } else { pair_cover(vt_all, 10) };
		for l in vts {
			let bytes = codec::vt_encode(&tiles, 0x10, 1, META, l);
			check_opened(ctxr, &rt, Cont::Versatiles, &format!("versatiles {l:?} over {name}"), &Written::Bytes(bytes), &tiles, false, json!({"cont": "versatiles", "layout": l, "set": name}));
			if l != VtLayout::plain() {
				ctxr.nontrivial(fnv_str(&format!("vt{l:?}{name}")));
			}
		}
		// pmtiles
		let pms: Vec<PmLayout> = if small || tier == Tier::Thorough { pm_all.clone() } else { pair_cover(pm_all, 12) };
		for l in pms {
			let bytes = codec::pm_encode(&tiles, 2, 1, META, l);
			check_opened(ctxr, &rt, Cont::Pmtiles, &format!("pmtiles {l:?} over {name}"), &Written::Bytes(bytes), &tiles, true, json!({"cont": "pmtiles", "layout": l, "set": name}));
			if l != PmLayout::plain() {
				ctxr.nontrivial(fnv_str(&format!("pm{l:?}{name}")));
			}
		}
		// tar
		let tars: Vec<TarLayout> = if small { tar_all.clone() } else if i % 7 == 0 { pair_cover(tar_all, 4) } else { vec![] };
		for l in tars {
			let mut members: Vec<(String, Vec<u8>)> = tiles.iter().map(|(k, v)| (format!("{}{}/{}/{}.png", if l.dot_prefix { "./" } else { "" }, k.0, k.1, k.2), v.clone())).collect();
			if l.reversed {
				members.reverse();
			}
			// member order is free in a tar archive: for the layouts with directory entries the members of one zoom
			// level are scattered (archives that were appended to), for the GNU ones they are in hash order
			if l.dir_entries {
				members = tar_member_order(members, 1);
			} else if l.gnu {
				members = tar_member_order(members, 2);
			}
			let meta = (format!("{}tiles.json", if l.dot_prefix { "./" } else { "" }), META.to_vec());
			if l.meta_last {
				members.push(meta);
			} else {
				members.insert(0, meta);
			}
			// archives that were updated by appending: an outdated copy of the first tile stands before the current
			// one (on extraction the later member replaces the earlier)
			if l.meta_last && is_fam {
				if let Some((n, d)) = members.iter().find(|(n, _)| n.ends_with(".png")).cloned() {
					let mut old = d.clone();
					old.extend_from_slice(b" (outdated)");
					members.insert(0, (n, old));
				}
			}
			let path = wpath.join(format!("t{i}.tar"));
			std::fs::write(&path, codec::tar_write(&members, l)).unwrap();
			let w = Written::Path(path);
			check_opened(ctxr, &rt, Cont::Tar, &format!("tar {l:?} over {name}"), &w, &tiles, true, json!({"cont": "tar", "layout": l, "set": name}));
			ct::cleanup(&w);
			ctxr.nontrivial(fnv_str(&format!("tar{l:?}{name}")));
			// archives of a tile directory whose equal tiles are hard links of one inode: tar stores the further
			// names as link members
			let payloads: std::collections::BTreeSet<&Vec<u8>> = tiles.values().collect();
			if !l.meta_last && payloads.len() < tiles.len() {
				let path = wpath.join(format!("t{i}h.tar"));
				std::fs::write(&path, codec::tar_write_hard_links(&members, l)).unwrap();
				let w = Written::Path(path);
				check_opened(ctxr, &rt, Cont::Tar, &format!("tar {l:?} with hard-link members over {name}"), &w, &tiles, true, json!({"cont": "tar", "layout": l, "set": name, "hard_links": true}));
				ct::cleanup(&w);
				ctxr.nontrivial(fnv_str(&format!("tarh{l:?}{name}")));
			}
		}
		// mbtiles (pool threads linger: representative sets only)
		if is_fam || tiles.len() == 1 && i % 5 == 0 || (i % 97 == 0) {
			for l in mb_all.iter() {
				let path = wpath.join(format!("m{i}.mbtiles"));
				if let Err(e) = codec::mb_encode(&path, &tiles, "png", *l) {
					eprintln!("MACHINERY: independent MBTiles encoder failed: {e}");
					std::process::exit(2);
				}
				let w = Written::Path(path);
				check_opened(ctxr, &rt, Cont::Mbtiles, &format!("mbtiles {l:?} over {name}"), &w, &tiles, true, json!({"cont": "mbtiles", "layout": l, "set": name}));
				ct::cleanup(&w);
				ctxr.nontrivial(fnv_str(&format!("mb{l:?}{name}")));
			}
		}
		// directory with extra files next to the tiles
		if small || i % 7 == 0 {
			for (extra, mixed) in [(false, false), (true, false), (false, true)] {
				let root = wpath.join(format!("d{i}.dir"));
				let _ = std::fs::remove_dir_all(&root);
				// mixed: both spellings of the JPEG extension in one tree (tiles collected from two exports)
				let mut files: Vec<(String, Vec<u8>)> = tiles.iter().enumerate().map(|(n, (k, v))| (format!("{}/{}/{}.{}", k.0, k.1, k.2, if !mixed { "png" } else if n % 2 == 0 { "jpg" } else { "jpeg" }), v.clone())).collect();
				files.push(("tiles.json".into(), META.to_vec()));
				if extra {
					files.push((".DS_Store".into(), vec![0, 1]));
					files.push(("README.txt".into(), b"hello".to_vec()));
					files.push(("fonts/a/b.pbf".into(), b"font".to_vec()));
					if let Some(k) = tiles.keys().next() {
						files.push((format!("{}/{}/notes.txt", k.0, k.1), b"n".to_vec()));
						files.push((format!("{}/thumbs.db", k.0), b"t".to_vec()));
					}
				}
				codec::dir_write(&root, &files).unwrap();
				let w = Written::Path(root);
				check_opened(ctxr, &rt, Cont::Directory, &format!("directory extra_files={extra} mixed_jpg_jpeg={mixed} over {name}"), &w, &tiles, true, json!({"cont": "directory", "extra": extra, "mixed": mixed, "set": name}));
				ct::cleanup(&w);
			}
			// the same tree with path components that are symbolic links (a tile tree is addressed by path): tiles with a
			// payload that occurred before are links to the first file holding it, and the highest zoom level lives in
			// a directory next to the root and is linked into it
			{
				let root = wpath.join(format!("l{i}.dir"));
				let store = wpath.join(format!("l{i}.store"));
				let _ = std::fs::remove_dir_all(&root);
				let _ = std::fs::remove_dir_all(&store);
				let top = tiles.keys().map(|k| k.0).max().unwrap_or(0);
				let two_levels = tiles.keys().any(|k| k.0 != top);
				let mut first_with: BTreeMap<&[u8], std::path::PathBuf> = BTreeMap::new();
				let mut ok = true;
				for (k, v) in tiles.iter() {
					let base = if two_levels && k.0 == top { store.join(k.0.to_string()) } else { root.join(k.0.to_string()) };
					let dir = base.join(k.1.to_string());
					ok &= std::fs::create_dir_all(&dir).is_ok();
					let file = dir.join(format!("{}.png", k.2));
					match first_with.get(v.as_slice()) {
						Some(target) if !v.is_empty() => ok &= std::os::unix::fs::symlink(target, &file).is_ok(),
						_ => {
							ok &= std::fs::write(&file, v).is_ok();
							first_with.insert(v.as_slice(), file.clone());
						}
					}
				}
				ok &= std::fs::create_dir_all(&root).is_ok() && std::fs::write(root.join("tiles.json"), META).is_ok();
				if two_levels {
					ok &= std::os::unix::fs::symlink(store.join(top.to_string()), root.join(top.to_string())).is_ok();
				}
				if ok {
					let w = Written::Path(root);
					check_opened(ctxr, &rt, Cont::Directory, &format!("directory with symbolic links over {name}"), &w, &tiles, true, json!({"cont": "directory", "links": true, "set": name}));
					ct::cleanup(&w);
				}
				let _ = std::fs::remove_dir_all(&store);
			}
		}
	});
	// PMTiles only: every run / every placement of shared byte ranges x the layouts that use them
	let special = pm_special_sets(tier);
	let sl = pm_special_layouts();
	let (specr, slr) = (&special, &sl);
	par_for(special.len(), |i| {
		let (name, tiles) = &specr[i];
		let rt = tokio::runtime::Builder::new_current_thread().build().unwrap();
		for l in slr.iter() {
			let bytes = codec::pm_encode(tiles, 2, 1, META, *l);
			// the three tile counters of the header may be left at 0 ("unknown"): every third set is also opened that way
			if i % 3 == 0 {
				let mut anon = bytes.clone();
				for b in &mut anon[72..96] {
					*b = 0;
				}
				check_opened(ctxr, &rt, Cont::Pmtiles, &format!("pmtiles {l:?}, header counters left at 0, over {name}"), &Written::Bytes(anon), tiles, true, json!({"cont": "pmtiles", "layout": l, "set": name, "counters": "unknown"}));
			}
			check_opened(ctxr, &rt, Cont::Pmtiles, &format!("pmtiles {l:?} over {name}"), &Written::Bytes(bytes), tiles, true, json!({"cont": "pmtiles", "layout": l, "set": name}));
			ctxr.nontrivial(fnv_str(&format!("pmS{l:?}{name}")));
		}
	});
	ctx.extra("pmtiles_run_and_shared_range_sets", json!({"sets": special.len(), "layouts": sl.len()}));
	ctx.sample(json!({"versatiles_layout": VtLayout::all()[37], "pmtiles_layout": PmLayout::all()[55], "tar_layout": TarLayout::all()[9], "mbtiles_layout": MbLayout::all()[5], "tile_set": format!("{:?}", bfs.states[900])}));
	ctx.extra("layouts", json!({"versatiles": VtLayout::all().len(), "pmtiles": PmLayout::all().len(), "tar": TarLayout::all().len(), "mbtiles": MbLayout::all().len(), "directory": 2}));
	// cross-validation of the independent codecs against the repository's writers is C01's decoder leg;
	// here the encoders are additionally decoded by the independent decoders (self-consistency)
	for l in [VtLayout::plain(), VtLayout::all()[95]] {
		let t = &fams[0].1;
		let d = codec::vt_decode(&codec::vt_encode(t, 0x10, 1, META, l)).expect("vt self decode");
		assert_eq!(&d.tiles, t);
	}
	for l in PmLayout::all() {
		let t = &fams[2].1;
		let d = codec::pm_decode(&codec::pm_encode(t, 2, 1, META, l)).expect("pm self decode");
		assert_eq!(&d.tiles, t, "{l:?}");
	}
	// versatiles: blocks of one level whose own extents differ on both sides (a narrow block and a wide one in the same
	// block column and row), under every layout; opened several times each, because the reader keeps the block records
	// in a hash map whose order differs from one opening to the next
	{
		let rt = tokio::runtime::Builder::new_current_thread().build().unwrap();
		let mut fam = TileMap::new();
		for (x, y) in [(100u32, 10u32), (110, 10), (120, 12), (50, 300), (200, 300), (120, 256), (300, 40), (310, 200), (260, 100), (500, 100), (300, 300), (400, 500), (290, 290), (480, 310)] {
			fam.insert((9, x, y), format!("b {x} {y}").into_bytes());
		}
		fam.insert((3, 1, 1), b"low".to_vec());
		let mut n = 0u64;
		for (li, l) in VtLayout::all().into_iter().enumerate() {
			let bytes = codec::vt_encode(&fam, 0x10, 0, META, l);
			for rep in 0..if li % 4 == 0 { 6 } else { 2 } {
				check_opened(&ctx, &rt, Cont::Versatiles, &format!("versatiles {l:?} over blocks of differing extents (opening {rep})"), &Written::Bytes(bytes.clone()), &fam, false, json!({"cont": "versatiles", "layout": l, "set": "blocks of differing extents"}));
				n += 1;
			}
		}
		ctx.outcome_n("versatiles containers with blocks of differing extents x layouts x openings", n);
	}
	// what a foreign container declares about its tiles: every tile type and compression code of the published layouts
	// (versatiles v02 header bytes 14 / 15, PMTiles v3 header bytes 98 / 99, the MBTiles 'format' row, the file name
	// extensions of tar members and directory entries) must be reported as the format / compression it stands for
	{
		use versatiles_core::types::{TileCompression as TC, TileFormat as TF};
		let rt = tokio::runtime::Builder::new_current_thread().build().unwrap();
		let mut small = TileMap::new();
		small.insert((3, 1, 2), b"declared".to_vec());
		small.insert((3, 2, 2), b"declared too".to_vec());
		let judge = |label: String, r: Result<Box<dyn versatiles_core::types::TilesReaderTrait>, String>, want: (TF, TC)| {
			ctx.eval();
			let case = json!({"kind": "declared format", "container": label});
			match r {
				Err(e) => ctx.violation(&format!("reader rejects a spec-valid container: {}", super::c01::norm_msg(&e)), &format!("{label}: {e}"), case),
				Ok(r) => {
					let p = r.get_parameters();
					if (p.tile_format, p.tile_compression) != want {
						ctx.violation("reader reports another tile format or compression than the container declares", &format!("{label}: reported {:?} / {:?}, the layout says {:?} / {:?}", p.tile_format, p.tile_compression, want.0, want.1), case);
					}
				}
			}
		};
		let comps = [(0u8, TC::Uncompressed), (1, TC::Gzip), (2, TC::Brotli)];
		// versatiles v02: 0x00 bin, 0x10 png, 0x11 jpg, 0x12 webp, 0x13 avif, 0x14 svg, 0x20 pbf, 0x21 geojson, 0x22 topojson, 0x23 json
		for (code, f) in [(0x00u8, TF::BIN), (0x10, TF::PNG), (0x11, TF::JPG), (0x12, TF::WEBP), (0x13, TF::AVIF), (0x14, TF::SVG), (0x20, TF::PBF), (0x21, TF::GEOJSON), (0x22, TF::TOPOJSON), (0x23, TF::JSON)] {
			for (cc, c) in comps {
				let tiles: TileMap = small.iter().map(|(k, v)| (*k, codec::encode_with(cc, v))).collect();
				let bytes = codec::vt_encode(&tiles, code, cc, META, VtLayout::all()[0]);
				judge(format!("versatiles, tile type byte {code:#04x}, compression byte {cc}"), ct::open(&rt, Cont::Versatiles, &Written::Bytes(bytes)), (f, c));
			}
		}
		// PMTiles v3: tile type 1 mvt, 2 png, 3 jpeg, 4 webp, 5 avif; compression 1 none, 2 gzip, 3 brotli
		for (code, f) in [(1u8, TF::PBF), (2, TF::PNG), (3, TF::JPG), (4, TF::WEBP), (5, TF::AVIF)] {
			for (cc, c) in [(1u8, TC::Uncompressed), (2, TC::Gzip), (3, TC::Brotli)] {
				let tiles: TileMap = small.iter().map(|(k, v)| (*k, codec::encode_with(cc - 1, v))).collect();
				let bytes = codec::pm_encode(&tiles, code, cc, META, PmLayout::all()[0]);
				judge(format!("pmtiles, tile type {code}, tile compression {cc}"), ct::open(&rt, Cont::Pmtiles, &Written::Bytes(bytes)), (f, c));
			}
		}
		// tar members and directory entries: the extension names the format, an optional .gz / .br the compression
		for (ext, f) in [("bin", TF::BIN), ("png", TF::PNG), ("jpg", TF::JPG), ("jpeg", TF::JPG), ("webp", TF::WEBP), ("avif", TF::AVIF), ("svg", TF::SVG), ("pbf", TF::PBF), ("geojson", TF::GEOJSON), ("topojson", TF::TOPOJSON), ("json", TF::JSON)] {
			for (suffix, cc, c) in [("", 0u8, TC::Uncompressed), (".gz", 1, TC::Gzip), (".br", 2, TC::Brotli)] {
				let files: Vec<(String, Vec<u8>)> = small.iter().map(|(k, v)| (format!("{}/{}/{}.{ext}{suffix}", k.0, k.1, k.2), codec::encode_with(cc, v))).collect();
				let tpath = work.0.join(format!("decl_{ext}{cc}.tar"));
				std::fs::write(&tpath, codec::tar_write(&files, TarLayout::all()[0])).unwrap();
				judge(format!("tar, members *.{ext}{suffix}"), ct::open(&rt, Cont::Tar, &Written::Path(tpath.clone())), (f, c));
				let _ = std::fs::remove_file(&tpath);
				let dpath = work.0.join(format!("decl_{ext}{cc}.dir"));
				let _ = std::fs::remove_dir_all(&dpath);
				codec::dir_write(&dpath, &files).unwrap();
				judge(format!("directory, files *.{ext}{suffix}"), ct::open(&rt, Cont::Directory, &Written::Path(dpath.clone())), (f, c));
				let _ = std::fs::remove_dir_all(&dpath);
			}
		}
		// the same containers found by name (what convert / serve / from_container do): a file is opened by its
		// extension, a directory as a directory - whatever its name ends in
		let files: Vec<(String, Vec<u8>)> = small.iter().map(|(k, v)| (format!("{}/{}/{}.png", k.0, k.1, k.2), v.clone())).collect();
		for name in ["plain", "tiles.d", "osm.tar", "osm.pmtiles", "osm.versatiles", "osm.vpl", "osm.png", "v1.2"] {
			let dpath = work.0.join(format!("named/{name}"));
			let _ = std::fs::remove_dir_all(&dpath);
			codec::dir_write(&dpath, &files).unwrap();
			ctx.eval();
			let label = format!("directory named '{name}' opened by name");
			let case = json!({"kind": "opened by name", "name": name});
			match catch(|| rt.block_on(versatiles_container::get_reader(dpath.to_str().unwrap()))) {
				Err(p) => ctx.violation(&format!("directory: reader panics while opening a spec-valid container at {}", panic_site(&p)), &format!("{label}: {p}"), case),
				Ok(Err(e)) => ctx.violation(&format!("directory: reader rejects a spec-valid container: {}", super::c01::norm_msg(&format!("{e:#}"))), &format!("{label}: {e:#}"), case),
				Ok(Ok(r)) => match catch(|| memsource::lookups(&rt, r.as_ref(), &[(3, 1, 2), (3, 2, 2), (3, 0, 0)])) {
					Ok(Ok(got)) if got == small => {}
					other => ctx.violation("directory: lookups differ from the encoded tiles", &format!("{label}: {:?}", other.map(|r| r.map(|m| m.len()))), case),
				},
			}
		}
		let _ = std::fs::remove_dir_all(work.0.join("named"));
		ctx.outcome_n("declared tile type / compression codes of foreign containers, directories opened by name", 30 + 15 + 66 + 8);
	}
	ctx.exhaustive(true);
	drop(work);
}

pub fn replay(_ctx: Arc<Ctx>, case: &Value) {
	println!("  case: {case}");
	println!("  re-run ./check C16 quick (deterministic) to reproduce");
}
