//! C08 — the overlay returns the tile of the first listed source that has one.

use crate::codec;
use crate::containers::{self as ct, Cont};
use crate::ctx::{fnv_str, Ctx, Tier};
use crate::memsource::{Key, MemSource, TileMap};
use crate::par::{catch, panic_site, par_for};
use crate::pipeline::{self, AnySrc};
use serde_json::{json, Value};
use std::collections::BTreeMap;
use std::sync::Arc;
use versatiles_core::types::*;

fn payload(j: usize, k: Key) -> Vec<u8> {
	format!("src{j}:{}/{}/{}", k.0, k.1, k.2).into_bytes()
}

/// compression assignments: all equal x3, six mixed pairs (for the first two sources), one mixed triple
fn comp_assignments(k: usize) -> Vec<Vec<u8>> {
	let mut v = vec![vec![0u8; k], vec![1u8; k], vec![2u8; k]];
	for a in 0..3u8 {
		for b in 0..3u8 {
			if a != b {
				let mut c = vec![a; k];
				c[1] = b;
				v.push(c);
			}
		}
	}
	if k >= 3 {
		let mut c = vec![0u8; k];
		c[1] = 1;
		c[2] = 2;
		v.push(c);
	}
	v
}

struct Family {
	name: &'static str,
	coords: Vec<Key>,
}

fn families(tier: Tier) -> Vec<Family> {
	let mut border = vec![(6u8, 31u32, 31u32), (6, 32, 31), (9, 255, 256), (9, 256, 256)];
	if tier == Tier::Thorough {
		border.push((6, 31, 32));
		border.push((3, 1, 1));
	}
	vec![
		Family { name: "both sides of the 32-sub-box and 256-block borders, two zoom levels", coords: border },
		// a sparse source whose level box spans whole 32x32 sub-boxes, with holes another source fills
		Family { name: "sparse wide: corners of level 6 plus two inner tiles", coords: vec![(6, 0, 0), (6, 63, 63), (6, 10, 10), (6, 40, 40)] },
	]
}

fn check_overlay(ctx: &Ctx, rt: &tokio::runtime::Runtime, label: &str, vpl: &str, op: AnySrc, k: usize, coords: &[Key], assign: &[u32], comps: &[u8], zoom_keep: Option<(u8, u8)>, case: &Value, source_pyramids: &[TileBBoxPyramid]) {
	let p = op.parameters().clone();
	// advertised coverage = union (per level: bounding box) of what each source advertises on its own
	if !source_pyramids.is_empty() {
		for z in 0..=12u8 {
			let mut u: Option<(u32, u32, u32, u32)> = None;
			for sp in source_pyramids {
				let b = sp.get_level_bbox(z);
				if !b.is_empty() {
					u = Some(match u {
						None => (b.x_min, b.y_min, b.x_max, b.y_max),
						Some(o) => (o.0.min(b.x_min), o.1.min(b.y_min), o.2.max(b.x_max), o.3.max(b.y_max)),
					});
				}
			}
			if zoom_keep.is_some_and(|(a, b)| z < a || z > b) {
				u = None;
			}
			let g = p.bbox_pyramid.get_level_bbox(z);
			let got = if g.is_empty() { None } else { Some((g.x_min, g.y_min, g.x_max, g.y_max)) };
			if got != u {
				ctx.violation("overlay coverage is not the union of the sources' coverages", &format!("{label}: level {z} advertised {got:?}, union of the sources' own level boxes {u:?}"), case.clone());
			}
		}
	}
	// declared compression: common one, else uncompressed
	let want_comp = if comps.iter().all(|c| *c == comps[0]) { comps[0] } else { 0 };
	if ct::comp_id(p.tile_compression) != want_comp {
		ctx.violation("overlay declares another compression than the common one / uncompressed", &format!("{label}: sources {comps:?}, declared {:?}", p.tile_compression), case.clone());
	}
	let declared = ct::comp_id(p.tile_compression);
	let keep = |key: &Key| zoom_keep.map(|(a, b)| key.0 >= a && key.0 <= b).unwrap_or(true);
	// expected winner per coordinate
	let mut expected: BTreeMap<Key, Vec<u8>> = BTreeMap::new();
	for (ci, c) in coords.iter().enumerate() {
		if !keep(c) {
			continue;
		}
		if let Some(j) = (0..k).find(|j| assign[ci] >> j & 1 == 1) {
			expected.insert(*c, payload(j, *c));
		}
	}
	// coverage = union of the sources' coverages (containment of every returnable tile is what a user relies on)
	for c in expected.keys() {
		if !p.bbox_pyramid.contains_coord(&TileCoord3 { x: c.1, y: c.2, z: c.0 }) {
			ctx.violation("overlay coverage does not contain a tile it returns", &format!("{label}: {c:?} not in {:?}", p.bbox_pyramid.get_level_bbox(c.0)), case.clone());
		}
	}
	let mut probes: Vec<Key> = coords.to_vec();
	for c in coords {
		for (dx, dy) in [(1i64, 0i64), (0, 1), (-1, 0), (0, -1)] {
			let (x, y) = (c.1 as i64 + dx, c.2 as i64 + dy);
			if x >= 0 && y >= 0 && x < (1 << c.0) && y < (1 << c.0) {
				probes.push((c.0, x as u32, y as u32));
			}
		}
	}
	probes.sort();
	probes.dedup();
	let decode = |b: &[u8]| codec::decode_with(declared, b);
	for pr in &probes {
		ctx.eval();
		match catch(|| rt.block_on(op.lookup(*pr))) {
			Err(pn) => ctx.violation(&format!("overlay lookup panics at {}", panic_site(&pn)), &format!("{label} {pr:?}: {pn}"), case.clone()),
			Ok(Err(e)) => ctx.violation(&format!("overlay lookup fails: {}", super::c01::norm_msg(&format!("{e:#}"))), &format!("{label} {pr:?}: {e:#}"), case.clone()),
			Ok(Ok(got)) => match (got, expected.get(pr)) {
				(None, None) => {}
				(Some(b), Some(w)) => match decode(&b) {
					Ok(d) if &d == w => {}
					Ok(d) => ctx.violation("overlay lookup returns another source's tile than the first listed one that has it", &format!("{label} {pr:?}: got {:?}, expected {:?}", String::from_utf8_lossy(&d), String::from_utf8_lossy(w)), case.clone()),
					Err(e) => ctx.violation("overlay lookup result is not in the declared compression", &format!("{label} {pr:?}: {e}"), case.clone()),
				},
				(None, Some(w)) => ctx.violation("overlay lookup returns nothing although a source has the tile", &format!("{label} {pr:?}: expected {:?}", String::from_utf8_lossy(w)), case.clone()),
				(Some(b), None) => ctx.violation("overlay lookup returns a tile no source has", &format!("{label} {pr:?}: {:?}", decode(&b).map(|d| String::from_utf8_lossy(&d).to_string())), case.clone()),
			},
		}
	}
	// streams: whole levels of the coverage plus boxes around the coordinates
	let mut boxes: Vec<TileBBox> = vec![];
	for z in [3u8, 6, 9] {
		let lv = p.bbox_pyramid.get_level_bbox(z);
		if !lv.is_empty() {
			boxes.push(lv.clone());
		}
		boxes.push(TileBBox::new_full(z).unwrap());
	}
	for c in coords {
		let mut b = TileBBox::new(c.0, c.1, c.2, c.1, c.2).unwrap();
		boxes.push(b.clone());
		b.add_border(1, 1, 1, 1);
		boxes.push(b.clone());
		b.add_border(40, 40, 40, 40);
		boxes.push(b);
	}
	for b in boxes {
		ctx.eval();
		let inside: BTreeMap<Key, Vec<u8>> = expected.iter().filter(|(k, _)| k.0 == b.level && k.1 >= b.x_min && k.1 <= b.x_max && k.2 >= b.y_min && k.2 <= b.y_max).map(|(k, v)| (*k, v.clone())).collect();
		match catch(|| rt.block_on(op.stream(b.clone()))) {
			Err(pn) => ctx.violation(&format!("overlay stream panics at {}", panic_site(&pn)), &format!("{label} box {b:?}: {pn}"), case.clone()),
			Ok(items) => {
				let mut got: BTreeMap<Key, Vec<u8>> = BTreeMap::new();
				let mut dup = false;
				let mut undecodable = false;
				for (key, bytes) in items {
					match decode(&bytes) {
						Ok(d) => dup |= got.insert(key, d).is_some(),
						Err(_) => undecodable = true,
					}
				}
				if undecodable {
					ctx.violation("overlay stream result is not in the declared compression", &format!("{label} box {b:?}"), case.clone());
				} else if dup {
					ctx.violation("overlay stream delivers a coordinate twice", &format!("{label} box {b:?}"), case.clone());
				} else if got != inside {
					let missing: Vec<&Key> = inside.keys().filter(|k| !got.contains_key(*k)).collect();
					let extra: Vec<&Key> = got.keys().filter(|k| !inside.contains_key(*k)).collect();
					let wrong: Vec<(&Key, String)> = inside.iter().filter(|(k, v)| got.get(*k).is_some_and(|g| g != *v)).map(|(k, _)| (k, String::from_utf8_lossy(&got[k]).to_string())).collect();
					let clause = if !wrong.is_empty() {
						"overlay stream returns another source's tile than the first listed one that has it"
					} else if !missing.is_empty() {
						"overlay stream misses a tile that a source has"
					} else {
						"overlay stream delivers a tile no source has (or outside the box)"
					};
					ctx.violation(clause, &format!("{label} box {b:?}: missing {missing:?} extra {extra:?} wrong {wrong:?}"), case.clone());
				}
			}
		}
	}
	let _ = vpl;
}

pub fn run(ctx: Arc<Ctx>) {
	ctx.rule(
		"k in {2,3,4} sources; for every coordinate of a family the subset of sources that hold it - all (2^k)^n assignments (k=4: n=3 in quick); two coordinate families (32-sub-box / 256-block borders at two zooms; sparse-wide level with holes); every ordered triple of 16 rectangular coverages of a dense level 3 (4096 overlays); \
		 compression assignments (3 equal, 6 mixed pairs, 1 mixed triple) rotated over the assignments; sources answer and open with different delays (first slowest); nesting inside filter_zoom; first source behind filter_zoom / filter_bbox stages that empty whole levels of it; the same data as real versatiles/pmtiles/tar/mbtiles files; dense 12x10 patches (three hold patterns) in pairs of real files of all five formats (quick: every 5th pair + versatiles/versatiles, thorough: all 25). \
		 oracle: first source in list order wins, bytes decode (declared compression) to that source's payload, declared = common compression or uncompressed, coverage contains every returned tile and equals the per-level union of what each source advertises on its own, lookups = streams, absent iff no source has it. non-trivial = assignments where >= 2 sources hold one coordinate",
	);
	let work = ct::WorkDir::new("c08");
	let fams = families(ctx.tier);
	let mut jobs: Vec<(usize, usize, Vec<u32>)> = vec![]; // (family, k, assignment per coord)
	for (fi, f) in fams.iter().enumerate() {
		for k in 2..=4usize {
			let n = if k == 4 && ctx.tier == Tier::Quick { 3 } else { f.coords.len().min(if k == 4 { 4 } else { 6 }) };
			let per = 1u64 << k;
			let total = per.pow(n as u32);
			for code in 0..total {
				let mut a = vec![0u32; f.coords.len()];
				let mut c = code;
				for slot in a.iter_mut().take(n) {
					*slot = (c % per) as u32;
					c /= per;
				}
				jobs.push((fi, k, a));
			}
		}
	}
	ctx.state(jobs.len() as u64);
	let (ctxr, jr, fr, wpath): (&Ctx, _, _, _) = (&ctx, &jobs, &fams, work.0.clone());
	let tier = ctx.tier;
	par_for(jobs.len(), |ji| {
		let (fi, k, assign) = &jr[ji];
		let (k, f) = (*k, &fr[*fi]);
		let cas = comp_assignments(k);
		let comps = &cas[ji % cas.len()];
		let rt = tokio::runtime::Builder::new_current_thread().build().unwrap();
		let mut sources = vec![];
		let mut empty_source = false;
		for j in 0..k {
			let mut tiles = TileMap::new();
			for (ci, c) in f.coords.iter().enumerate() {
				if assign[ci] >> j & 1 == 1 {
					tiles.insert(*c, codec::encode_with(comps[j], &payload(j, *c)));
				}
			}
			empty_source |= tiles.is_empty();
			sources.push(MemSource::new(&format!("s{j}"), tiles, TileFormat::BIN, ct::comp_from_id(comps[j])).with_yields((k - 1 - j) as u8));
		}
		let nested = ji % 5 == 3;
		// the first source behind a filter that empties whole levels of it (zoom filter / a box that misses its tiles)
		let first_filter: Option<&str> = match ji % 5 {
			1 => Some(" | filter_zoom min=9"),
			2 => Some(" | filter_bbox bbox=[0,-85,180,0]"),
			_ => None,
		};
		let exprs: Vec<String> = (0..k).map(|j| format!("from_container filename=\"mem:{j}\"{}", if j == 0 { first_filter.unwrap_or("") } else { "" })).collect();
		let list = exprs.join(", ");
		let vpl = if nested { format!("from_overlayed [ {list} ] | filter_zoom min=6 max=9") } else { format!("from_overlayed [ {list} ]") };
		let case = json!({"family": f.name, "k": k, "assignment": assign, "compressions": comps, "vpl": vpl});
		// what the filtered first source still holds
		let eff: Vec<u32> = assign
			.iter()
			.zip(f.coords.iter())
			.map(|(a, c)| {
				let half = 1u32 << (c.0.max(1) - 1);
				let keep0 = match ji % 5 {
					1 => c.0 >= 9,
					2 => c.0 >= 1 && c.1 >= half && c.2 >= half,
					_ => true,
				};
				if keep0 { *a } else { *a & !1 }
			})
			.collect();
		let fac = pipeline::factory(sources, &wpath);
		ctxr.transition(1);
		let pyramids: Vec<TileBBoxPyramid> = exprs.iter().filter_map(|e| pipeline::build_op(&rt, &fac, e).ok()).map(|o| o.get_parameters().bbox_pyramid.clone()).collect();
		match pipeline::build_op(&rt, &fac, &vpl) {
			Err(e) => ctxr.violation(&format!("overlay cannot be built: {}", super::c01::norm_msg(&e)), &format!("{vpl}: {e}{}", if empty_source { " (a source without tiles)" } else { "" }), case),
			Ok(op) => {
				let py: &[TileBBoxPyramid] = if pyramids.len() == k { &pyramids } else { &[] };
				check_overlay(ctxr, &rt, &format!("{} k={k} assignment {assign:?} comps {comps:?}{}{}", f.name, if nested { " nested in filter_zoom" } else { "" }, first_filter.map(|f| format!(", first source{f}")).unwrap_or_default()), &vpl, AnySrc::Op(op), k, &f.coords, &eff, comps, if nested { Some((6, 9)) } else { None }, &case, py);
				ctxr.trace(1);
			}
		}
		if assign.iter().any(|a| a.count_ones() >= 2) {
			ctxr.nontrivial(fnv_str(&format!("{fi}{k}{assign:?}")));
		}
		let _ = tier;
	});
	ctx.outcome_n("overlay assignments", jobs.len() as u64);
	// dense sources with rectangular coverages (what real overlays look like: a base map, regional extracts): every
	// ordered triple of 16 rectangles of level 3 (intervals [0,3], [0,7], [4,7], [2,5] per axis) - holes of every shape
	// between the members, a whole level of 64 tiles in one sub-box of the overlay
	{
		let ivs = [(0u32, 3u32), (0, 7), (4, 7), (2, 5)];
		let rects: Vec<(u32, u32, u32, u32)> = ivs.iter().flat_map(|x| ivs.iter().map(move |y| (x.0, y.0, x.1, y.1))).collect();
		let all: Vec<Key> = (0..8u32).flat_map(|x| (0..8u32).map(move |y| (3u8, x, y))).collect();
		let n = rects.len();
		let (rr, ar) = (&rects, &all);
		par_for(n * n * n, |ti| {
			let tri = [ti % n, ti / n % n, ti / n / n];
			let rt = tokio::runtime::Builder::new_current_thread().build().unwrap();
			let comps: Vec<u8> = vec![(ti % 3) as u8, (ti / 3 % 3) as u8, (ti / 9 % 3) as u8];
			let inside = |j: usize, c: &Key| -> bool {
				let r = rr[tri[j]];
				c.1 >= r.0 && c.1 <= r.2 && c.2 >= r.1 && c.2 <= r.3
			};
			let sources: Vec<MemSource> = (0..3).map(|j| MemSource::new(&format!("s{j}"), ar.iter().filter(|c| inside(j, c)).map(|c| (*c, codec::encode_with(comps[j], &payload(j, *c)))).collect(), TileFormat::BIN, ct::comp_from_id(comps[j])).with_yields((2 - j) as u8)).collect();
			let assign: Vec<u32> = ar.iter().map(|c| (0..3).map(|j| (inside(j, c) as u32) << j).sum()).collect();
			let exprs: Vec<String> = (0..3).map(|j| format!("from_container filename=\"mem:{j}\"")).collect();
			let vpl = format!("from_overlayed [ {} ]", exprs.join(", "));
			let case = json!({"family": "rectangular coverages at level 3", "rectangles": tri.iter().map(|i| rr[*i]).collect::<Vec<_>>(), "compressions": comps, "vpl": vpl});
			let fac = pipeline::factory(sources, &wpath);
			ctxr.transition(1);
			let pyramids: Vec<TileBBoxPyramid> = exprs.iter().filter_map(|e| pipeline::build_op(&rt, &fac, e).ok()).map(|o| o.get_parameters().bbox_pyramid.clone()).collect();
			match pipeline::build_op(&rt, &fac, &vpl) {
				Err(e) => ctxr.violation(&format!("overlay cannot be built: {}", super::c01::norm_msg(&e)), &format!("{vpl}: {e}"), case),
				Ok(op) => {
					check_overlay(ctxr, &rt, &format!("rectangular coverages {:?} comps {comps:?}", tri.iter().map(|i| rr[*i]).collect::<Vec<_>>()), &vpl, AnySrc::Op(op), 3, ar, &assign, &comps, None, &case, if pyramids.len() == 3 { &pyramids } else { &[] });
					ctxr.trace(1);
				}
			}
			ctxr.nontrivial(fnv_str(&format!("rect{ti}")));
		});
		ctx.outcome_n("overlays of three rectangular coverages", (n * n * n) as u64);
	}
	// real container files as sources (thorough; quick: one configuration)
	let rt = crate::memsource::runtime(2);
	let f = &fams[0];
	let conts = [Cont::Versatiles, Cont::Pmtiles, Cont::Tar, Cont::Mbtiles];
	let codes: Vec<u32> = if ctx.tier == Tier::Thorough { (0..256).collect() } else { vec![0b1001_0110, 0b0111_1110, 0b1100_0011] };
	for code in codes {
		let assign: Vec<u32> = (0..f.coords.len()).map(|i| if i < 4 { (code >> (2 * i)) & 3 } else { 1 }).collect();
		for (a, b) in [(0usize, 1usize), (1, 2), (2, 3), (3, 0)] {
			let mut names = vec![];
			let mut ok = true;
			for (j, cont) in [conts[a], conts[b]].iter().enumerate() {
				let mut tiles = TileMap::new();
				for (ci, c) in f.coords.iter().enumerate() {
					if assign[ci] >> j & 1 == 1 {
						tiles.insert(*c, payload(j, *c));
					}
				}
				if tiles.is_empty() {
					ok = false;
					break;
				}
				let mut src = MemSource::new("m", tiles, TileFormat::PNG, TileCompression::Uncompressed);
				let name = format!("o{code}_{a}{b}_{j}.{}", ct::ext(*cont));
				match ct::write(&rt, *cont, &mut src, &work.0, &format!("o{code}_{a}{b}_{j}")) {
					Ok(ct::Written::Bytes(bytes)) => std::fs::write(work.0.join(&name), bytes).unwrap(),
					Ok(ct::Written::Path(_)) => {}
					Err(_) => ok = false,
				}
				names.push(name);
			}
			if !ok {
				continue;
			}
			let vpl = format!("from_overlayed [ from_container filename=\"{}\", from_container filename=\"{}\" ]", names[0], names[1]);
			let case = json!({"family": f.name, "files": names, "assignment": assign, "vpl": vpl});
			let fac = pipeline::factory(vec![], &work.0);
			let pyramids: Vec<TileBBoxPyramid> = names.iter().filter_map(|n| pipeline::build_op(&rt, &fac, &format!("from_container filename=\"{n}\"")).ok()).map(|o| o.get_parameters().bbox_pyramid.clone()).collect();
			match pipeline::build_op(&rt, &fac, &vpl) {
				Err(e) => ctx.violation(&format!("overlay over container files cannot be built: {}", super::c01::norm_msg(&e)), &format!("{vpl}: {e}"), case),
				Ok(op) => {
					check_overlay(&ctx, &rt, &format!("files {names:?} assignment {assign:?}"), &vpl, AnySrc::Op(op), 2, &f.coords, &assign, &[0, 0], None, &case, if pyramids.len() == 2 { &pyramids } else { &[] });
					ctx.trace(1);
				}
			}
			// the same pipeline when the directory it resolves file names against is given relative to the working
			// directory (a .vpl opened as `maps/overlay.vpl`)
			if let Some(rel) = std::env::current_dir().ok().and_then(|cwd| work.0.strip_prefix(&cwd).ok().map(|p| p.to_path_buf())) {
				let rfac = pipeline::factory(vec![], &rel);
				let rcase = json!({"family": f.name, "files": names, "assignment": assign, "vpl": vpl, "pipeline_directory": rel});
				match pipeline::build_op(&rt, &rfac, &vpl) {
					Err(e) => ctx.violation("overlay over container files cannot be built when the pipeline directory is a relative path", &format!("{vpl} in {rel:?}: {e}"), rcase),
					Ok(op) => {
						check_overlay(&ctx, &rt, &format!("files {names:?} assignment {assign:?} (relative pipeline directory)"), &vpl, AnySrc::Op(op), 2, &f.coords, &assign, &[0, 0], None, &rcase, if pyramids.len() == 2 { &pyramids } else { &[] });
						ctx.trace(1);
					}
				}
			} else {
				ctx.outcome("work directory is not below the current directory: relative pipeline directory not exercised");
			}
			// the same pipeline as a pipeline file opened like any other container (what `convert` and `serve` do); the
			// reader is first asked for coordinates beyond the grid of their level (a server passes such requests
			// through), then for everything else: earlier answers must not change later ones
			{
				let vpl_path = work.0.join(format!("o{code}_{a}{b}.vpl"));
				std::fs::write(&vpl_path, &vpl).unwrap();
				let fcase = json!({"family": f.name, "files": names, "assignment": assign, "vpl": vpl, "opened_as": "pipeline file"});
				match catch(|| rt.block_on(versatiles_container::get_reader(vpl_path.to_str().unwrap()))) {
					Ok(Ok(reader)) => {
						for c in f.coords.iter() {
							let w = 1u32 << c.0;
							for (x, y) in [(c.1 + w, c.2), (c.1 + w, c.2.wrapping_sub(1)), (c.1, c.2 + w), (c.1.wrapping_sub(1), c.2 + w), (w, c.2), (c.1, w)] {
								let _ = catch(|| rt.block_on(reader.get_tile_data(&TileCoord3 { x, y, z: c.0 })));
							}
						}
						check_overlay(&ctx, &rt, &format!("files {names:?} assignment {assign:?} (pipeline file, after lookups beyond the grid)"), &vpl, AnySrc::Reader(reader), 2, &f.coords, &assign, &[0, 0], None, &fcase, if pyramids.len() == 2 { &pyramids } else { &[] });
						ctx.trace(1);
					}
					Ok(Err(e)) => ctx.violation(&format!("overlay over container files cannot be opened as a pipeline file: {}", super::c01::norm_msg(&format!("{e:#}"))), &format!("{vpl}: {e:#}"), fcase),
					Err(p) => ctx.violation(&format!("opening a pipeline file panics at {}", panic_site(&p)), &format!("{vpl}: {p}"), fcase),
				}
				let _ = std::fs::remove_file(&vpl_path);
			}
			for n in names {
				let _ = std::fs::remove_file(work.0.join(n));
			}
		}
	}
	// dense patches in real container files of every format (small streamed boxes inside one stored block)
	{
		let mut coords: Vec<Key> = vec![];
		for x in 26..38u32 {
			for y in 27..37u32 {
				coords.push((6, x, y));
			}
		}
		coords.push((9, 255, 256));
		coords.push((9, 256, 256));
		let patterns: Vec<(&str, Box<dyn Fn(&Key) -> u32>)> = vec![
			("first = checkerboard, second = all", Box::new(|c: &Key| if (c.1 + c.2) % 2 == 0 { 3 } else { 2 })),
			("first = left columns, second = right columns, one shared column", Box::new(|c: &Key| if c.0 == 9 { 3 } else if c.1 < 32 { 1 } else if c.1 == 32 { 3 } else { 2 })),
			("first = a ring, second = the inside", Box::new(|c: &Key| if c.0 == 9 { 1 } else if c.1 == 26 || c.1 == 37 || c.2 == 27 || c.2 == 36 { 1 } else { 2 })),
		];
		let all_conts = [Cont::Versatiles, Cont::Pmtiles, Cont::Tar, Cont::Mbtiles, Cont::Directory];
		let mut n = 0u64;
		for (pi, (pname, pat)) in patterns.iter().enumerate() {
			let assign: Vec<u32> = coords.iter().map(|c| pat(c)).collect();
			for (ai, a) in all_conts.iter().enumerate() {
				for (bi, b) in all_conts.iter().enumerate() {
					if ctx.tier == Tier::Quick && (ai + 2 * bi + pi) % 5 != 0 && !(*a == Cont::Versatiles && *b == Cont::Versatiles) {
						continue;
					}
					let mut names = vec![];
					for (j, cont) in [*a, *b].iter().enumerate() {
						let tiles: TileMap = coords.iter().zip(assign.iter()).filter(|(_, m)| *m >> j & 1 == 1).map(|(c, _)| (*c, payload(j, *c))).collect();
						let mut src = MemSource::new("m", tiles, TileFormat::PNG, TileCompression::Uncompressed);
						let stem = format!("d{pi}_{ai}{bi}_{j}");
						let name = format!("{stem}.{}", ct::ext(*cont));
						match ct::write(&rt, *cont, &mut src, &work.0, &stem) {
							Ok(ct::Written::Bytes(bytes)) => std::fs::write(work.0.join(&name), bytes).unwrap(),
							Ok(ct::Written::Path(p)) => {
								if p != work.0.join(&name) {
									let _ = std::fs::rename(&p, work.0.join(&name));
								}
							}
							Err(e) => {
								eprintln!("MACHINERY: cannot write {name}: {e}");
								std::process::exit(2);
							}
						}
						names.push(name);
					}
					let vpl = format!("from_overlayed [ from_container filename=\"{}\", from_container filename=\"{}\" ]", names[0], names[1]);
					let case = json!({"family": "dense patches", "pattern": pname, "files": names, "vpl": vpl});
					let fac = pipeline::factory(vec![], &work.0);
					let pyramids: Vec<TileBBoxPyramid> = names.iter().filter_map(|n| pipeline::build_op(&rt, &fac, &format!("from_container filename=\"{n}\"")).ok()).map(|o| o.get_parameters().bbox_pyramid.clone()).collect();
					match pipeline::build_op(&rt, &fac, &vpl) {
						Err(e) => ctx.violation(&format!("overlay over container files cannot be built: {}", super::c01::norm_msg(&e)), &format!("{vpl}: {e}"), case),
						Ok(op) => {
							check_overlay(&ctx, &rt, &format!("dense patches ({pname}) in files {names:?}"), &vpl, AnySrc::Op(op), 2, &coords, &assign, &[0, 0], None, &case, if pyramids.len() == 2 { &pyramids } else { &[] });
							ctx.trace(1);
							ctx.nontrivial(fnv_str(&format!("dense{pi}{ai}{bi}")));
							n += 1;
						}
					}
					for nme in names {
						let p = work.0.join(nme);
						let _ = std::fs::remove_file(&p);
						let _ = std::fs::remove_dir_all(&p);
					}
				}
			}
		}
		ctx.outcome_n("dense-patch overlays over pairs of real container files", n);
	}
	// a zero-length tile in an earlier source is a tile: it wins on lookups and in streams alike (sources read through
	// the trait's default box stream, real directory and tar files)
	{
		let mk = |tag: &str, keys: &[(Key, bool)]| -> TileMap { keys.iter().map(|(k, empty)| (*k, if *empty { vec![] } else { format!("{tag}:{}/{}/{}", k.0, k.1, k.2).into_bytes() })).collect() };
		let a = mk("a", &[((5, 1, 1), true), ((5, 2, 1), false), ((5, 3, 1), true)]);
		let b = mk("b", &[((5, 1, 1), false), ((5, 3, 1), false), ((5, 4, 1), false), ((5, 2, 1), false)]);
		let want: BTreeMap<Key, Vec<u8>> = [((5u8, 1u32, 1u32), vec![]), ((5, 2, 1), b"a:5/2/1".to_vec()), ((5, 3, 1), vec![]), ((5, 4, 1), b"b:5/4/1".to_vec())].into_iter().collect();
		let mut variants: Vec<(String, pipeline::AnySrc)> = vec![];
		let fac = pipeline::factory(vec![MemSource::new("a", a.clone(), TileFormat::BIN, TileCompression::Uncompressed).as_plain(), MemSource::new("b", b.clone(), TileFormat::BIN, TileCompression::Uncompressed).as_plain()], &work.0);
		if let Ok(op) = pipeline::build_op(&rt, &fac, "from_overlayed [ from_container filename=\"mem:0\", from_container filename=\"mem:1\" ]") {
			variants.push(("readers with the trait's default box stream".into(), AnySrc::Op(op)));
		}
		for (cont, ext) in [(Cont::Directory, "dir"), (Cont::Tar, "tar")] {
			let files = |t: &TileMap| -> Vec<(String, Vec<u8>)> { t.iter().map(|(k, v)| (format!("{}/{}/{}.bin", k.0, k.1, k.2), v.clone())).collect() };
			for (name, t) in [("ea", &a), ("eb", &b)] {
				let path = work.0.join(format!("{name}.{ext}"));
				if cont == Cont::Directory {
					let _ = std::fs::remove_dir_all(&path);
					codec::dir_write(&path, &files(t)).unwrap();
				} else {
					std::fs::write(&path, codec::tar_write(&files(t), codec::TarLayout { dot_prefix: false, dir_entries: false, gnu: false, reversed: false, meta_last: false })).unwrap();
				}
			}
			let fac = pipeline::factory(vec![], &work.0);
			let vpl = format!("from_overlayed [ from_container filename=\"ea.{ext}\", from_container filename=\"eb.{ext}\" ]");
			match pipeline::build_op(&rt, &fac, &vpl) {
				Ok(op) => variants.push((format!("real {} sources", cont.name()), AnySrc::Op(op))),
				Err(e) => ctx.violation(&format!("overlay over container files cannot be built: {}", super::c01::norm_msg(&e)), &format!("{vpl}: {e}"), json!({"vpl": vpl})),
			}
		}
		for (name, op) in variants {
			ctx.eval();
			let case = json!({"family": "zero-length tile in the first source", "sources": name});
			let mut looked: BTreeMap<Key, Vec<u8>> = BTreeMap::new();
			for k in want.keys().chain([(5u8, 9u32, 9u32)].iter()) {
				if let Ok(Ok(Some(b))) = catch(|| rt.block_on(op.lookup(*k))) {
					looked.insert(*k, b);
				}
			}
			if looked != want {
				ctx.violation("overlay lookup returns another source's tile than the first listed one that has it", &format!("{name}, zero-length tiles in the first source: lookups give {:?}", looked.iter().map(|(k, v)| (k, String::from_utf8_lossy(v).to_string())).collect::<Vec<_>>()), case.clone());
			}
			match catch(|| rt.block_on(op.stream(TileBBox::new(5, 0, 0, 31, 31).unwrap()))) {
				Ok(items) => {
					let got: BTreeMap<Key, Vec<u8>> = items.into_iter().collect();
					if got != want {
						ctx.violation("overlay stream returns another source's tile than the first listed one that has it", &format!("{name}, zero-length tiles in the first source: the stream gives {:?}", got.iter().map(|(k, v)| (k, String::from_utf8_lossy(v).to_string())).collect::<Vec<_>>()), case.clone());
					}
				}
				Err(p) => ctx.violation(&format!("overlay stream panics at {}", panic_site(&p)), &p, case.clone()),
			}
			ctx.nontrivial(fnv_str(&format!("empty-first {name}")));
		}
	}
	ctx.sample(json!({"family": fams[1].name, "coordinates": fams[1].coords, "k": 3, "assignment_example": [5, 2, 7, 0], "meaning": "bit j of entry i = source j holds coordinate i"}));
	ctx.exhaustive(true);
	drop(work);
}

pub fn replay(_ctx: Arc<Ctx>, case: &Value) {
	println!("  case: {case}");
	println!("  re-run ./check C08 quick (deterministic) to reproduce");
}
