//! C04 — recompression changes only the encoding, never the payload.

use crate::codec;
use crate::containers::{self as ct, Cont};
use crate::ctx::{fnv_str, Ctx};
use crate::memsource::{MemSource, TileMap};
use crate::par::{catch, panic_site, par_for};
use crate::tilesets;
use enumset::EnumSet;
use serde_json::{json, Value};
use std::sync::Arc;
use versatiles_container::{TilesConvertReader, TilesConverterParameters};
use versatiles_core::tilejson::TileJSON;
use versatiles_core::types::*;
use versatiles_core::utils::{compress, decompress, optimize_compression, recompress, CompressionGoal, TargetCompression};

/// descriptive TileJSON strings that all five target formats can carry (MBTiles: rows of the metadata table)
const META_STRINGS: [(&str, &str); 5] = [
	("attribution", "(c) the \"contributors\" \u{00e4}"),
	("author", "somebody"),
	("license", "ODbL-1.0"),
	("type", "overlay"),
	("version", "7.1.0"),
];

fn payloads() -> Vec<(&'static str, Vec<u8>)> {
	let mut two_k = Vec::new();
	while two_k.len() < 2048 {
		two_k.extend_from_slice(b"compressible text, ");
	}
	// three payloads of one length that agree in their first and last 24 bytes
	let near = |mid: &[u8]| -> Vec<u8> {
		let mut v: Vec<u8> = b"{\"type\":\"tile\",\"head\":1,".to_vec();
		v.extend_from_slice(mid);
		v.extend_from_slice(b",\"tail\":\"same for every tile of the set\"}");
		v
	};
	vec![("near-duplicate A", near(b"\"id\":10001")), ("near-duplicate B", near(b"\"id\":10002")), ("near-duplicate C", near(b"\"id\":20001")), ("1 byte", vec![b'x']), ("2 KiB compressible", two_k), ("70 KiB incompressible", tilesets::lcg_bytes(77, 70 * 1024)), ("100 KiB of one byte", vec![0x41; 100 * 1024]), ("300 KiB repetitive", (0..300 * 1024).map(|i| b"abcdefgh"[i % 8]).collect())]
}

fn really_encoded(comp: u8, data: &[u8], payload: &[u8]) -> Result<(), String> {
	match comp {
		0 => {
			if data == payload {
				Ok(())
			} else {
				Err("bytes differ from the payload although declared uncompressed".into())
			}
		}
		1 => {
			if data.len() < 2 || data[0] != 0x1f || data[1] != 0x8b {
				return Err("no gzip magic although declared gzip".into());
			}
			match codec::gunzip(data) {
				Ok(d) if d == payload => Ok(()),
				Ok(d) => Err(format!("gunzip gives {} bytes, payload has {}", d.len(), payload.len())),
				Err(e) => Err(e),
			}
		}
		_ => match codec::brotli_dec(data) {
			Ok(d) if d == payload => Ok(()),
			Ok(d) => Err(format!("brotli decode gives {} bytes, payload has {}", d.len(), payload.len())),
			Err(e) => Err(format!("does not decode as brotli although declared brotli: {e}")),
		},
	}
}

fn part_a(ctx: &Arc<Ctx>) {
	let work = ct::WorkDir::new("c04");
	let rt = crate::memsource::runtime(4);
	let ps = payloads();
	let mut cfgs = vec![];
	for src_comp in 0..3u8 {
		for target in [None, Some(0u8), Some(1), Some(2)] {
			for force in [false, true] {
				for cont in ct::ALL_CONT {
					cfgs.push((src_comp, target, force, cont, 0u8, false));
					if cont == Cont::Mbtiles {
						cfgs.push((src_comp, target, force, cont, 1, false));
					} else {
						// raster and opaque tile formats take the same route as vector tiles: every container writer labels
						// the compression of what it stores independently of the tile format
						cfgs.push((src_comp, target, force, cont, 2, false));
						cfgs.push((src_comp, target, force, cont, 3, false));
						cfgs.push((src_comp, target, force, cont, 4, false));
					}
					// the compression of the source is corrected (override_compression) only after the converter
					// has been wrapped around it
					if matches!(cont, Cont::Versatiles | Cont::Tar) {
						cfgs.push((src_comp, target, force, cont, 0, true));
					}
				}
			}
		}
	}
	let (ctxr, rtr, wpath, psr, cfgr): (&Ctx, _, _, _, _) = (ctx, &rt, work.0.clone(), &ps, &cfgs);
	par_for(cfgs.len(), |i| {
		let (src_comp, target, force, cont, alt_format, late_override) = cfgr[i];
		let out_comp = target.unwrap_or(src_comp);
		// MBTiles accepts only uncompressed png/jpg/webp or gzipped pbf: both formats are tried with every
		// compression; a refusal by the writer is "not applicable", a conversion that reports success is judged
		let format = match (cont, alt_format) {
			(Cont::Mbtiles, 0) => TileFormat::PNG,
			(Cont::Mbtiles, _) => TileFormat::PBF,
			(_, 2) => TileFormat::PNG,
			(_, 3) => TileFormat::WEBP,
			(_, 4) => TileFormat::BIN,
			_ => TileFormat::PBF,
		};
		let mb_legal = cont != Cont::Mbtiles || matches!((format, out_comp), (TileFormat::PNG, 0) | (TileFormat::PBF, 1));
		let mut tiles = TileMap::new();
		let mut decoded = TileMap::new();
		for (j, (_, p)) in psr.iter().enumerate() {
			for (z, x, y) in [(3u8, j as u32, 1u32), (9, 255 + j as u32, 256)] {
				tiles.insert((z, x, y), codec::encode_with(src_comp, p));
				decoded.insert((z, x, y), p.clone());
			}
		}
		let mut tj = TileJSON::default();
		tj.set_string("name", "recompression \"test\" \u{00fc}").unwrap();
		tj.set_string("description", "payload must survive").unwrap();
		for (k, v) in META_STRINGS {
			tj.set_string(k, v).unwrap();
		}
		let first_label = if late_override { (src_comp + 1) % 3 } else { src_comp };
		let src = MemSource::new("mem", tiles, format, ct::comp_from_id(first_label)).with_tilejson(tj);
		let label = format!("{} {} source {:?}{} -> target {:?} force={force}", cont.name(), ct::format_name(format), ct::comp_from_id(src_comp), if late_override { " (declared by override_compression on the converter)" } else { "" }, target.map(ct::comp_from_id));
		let case = json!({"cont": cont, "format": ct::format_name(format), "src_comp": src_comp, "target": target, "force": force, "late_override": late_override});
		let mut cp = TilesConverterParameters::new_default();
		cp.tile_compression = target.map(ct::comp_from_id);
		cp.force_recompress = force;
		ctxr.eval();
		let mut conv = match TilesConvertReader::new_from_reader(Box::new(src), cp) {
			Ok(c) => c,
			Err(e) => {
				ctxr.violation("conversion cannot be set up", &format!("{label}: {e}"), case);
				return;
			}
		};
		if late_override {
			conv.override_compression(ct::comp_from_id(src_comp));
		}
		// file-based targets: the path already holds an earlier export of the same coordinates whose payloads have the
		// same lengths (every payload reversed), written by the same writer
		let written = if cont.in_memory() {
			ct::write(rtr, cont, &mut conv, &wpath, &format!("c{i}"))
		} else {
			let path = wpath.join(format!("c{i}.{}", ct::ext(cont)));
			let _ = std::fs::remove_file(&path);
			let _ = std::fs::remove_dir_all(&path);
			let earlier: TileMap = decoded.iter().map(|(k, p)| (*k, codec::encode_with(out_comp, &p.iter().rev().copied().collect::<Vec<u8>>()))).collect();
			let mut esrc = MemSource::new("earlier", earlier, format, ct::comp_from_id(out_comp));
			match ct::write_to_existing_path(rtr, cont, &mut esrc, &path) {
				Ok(_) | Err(_) => {}
			}
			ct::write_to_existing_path(rtr, cont, &mut conv, &path)
		};
		let w = match written {
			Ok(w) => w,
			Err(e) => {
				if let Some(p) = e.strip_prefix("PANIC ") {
					ctxr.violation(&format!("conversion panics at {}", panic_site(p)), &format!("{label}: {p}"), case);
				} else if !mb_legal {
					ctxr.outcome("mbtiles: writer refuses a (format, compression) pair it does not support (not applicable)");
				} else {
					ctxr.violation(&format!("conversion fails: {}", super::c01::norm_msg(&e)), &format!("{label}: {e}"), case);
				}
				return;
			}
		};
		if !mb_legal {
			ctxr.outcome("mbtiles: writer accepts a (format, compression) pair outside its documented ones (judged like any other)");
		}
		ctxr.trace(1);
		// independent view of the output
		match ct::independent_decode(cont, &w) {
			Err(e) => ctxr.violation(&format!("{}: converted file does not follow the layout: {}", cont.name(), super::c01::norm_msg(&e)), &format!("{label}: {e}"), case.clone()),
			Ok(d) => {
				if d.compression != Some(out_comp) {
					ctxr.violation("output declares another compression than requested", &format!("{label}: file declares {:?}, expected {out_comp}", d.compression), case.clone());
				}
				let declared = d.compression.unwrap_or(out_comp);
				for (k, p) in &decoded {
					match d.tiles.get(k) {
						None => ctxr.violation("converted output lacks a tile", &format!("{label}: {k:?}"), case.clone()),
						Some(data) => {
							if let Err(why) = really_encoded(declared, data, p) {
								ctxr.violation("output tile, decoded with the declared compression, differs from the source payload", &format!("{label}: tile {k:?} ({} source bytes): {why}", p.len()), case.clone());
							}
						}
					}
				}
				if let Some(meta) = &d.meta {
					match serde_json::from_slice::<Value>(meta) {
						Ok(v) => {
							if v["name"] != "recompression \"test\" \u{00fc}" || v["description"] != "payload must survive" {
								ctxr.violation("metadata changed by the conversion", &format!("{label}: {v}"), case.clone());
							}
						}
						Err(e) => ctxr.violation("metadata of the converted file is not the JSON document", &format!("{label}: {e}: {:?}", String::from_utf8_lossy(&meta[..meta.len().min(60)])), case.clone()),
					}
				}
			}
		}
		// repository reader view
		match ct::open(rtr, cont, &w) {
			Err(e) => ctxr.violation(&format!("{}: converted file cannot be opened: {}", cont.name(), super::c01::norm_msg(&e)), &format!("{label}: {e}"), case.clone()),
			Ok(r) => {
				let declared = r.get_parameters().tile_compression;
				for (k, p) in &decoded {
					let got = catch(|| rtr.block_on(r.get_tile_data(&TileCoord3 { x: k.1, y: k.2, z: k.0 })));
					match got {
						Ok(Ok(Some(b))) => {
							if let Err(why) = really_encoded(ct::comp_id(declared), b.as_slice(), p) {
								ctxr.violation("re-opened tile, decoded with the declared compression, differs from the source payload", &format!("{label}: tile {k:?}: {why}"), case.clone());
							}
						}
						other => ctxr.violation("re-opened container lacks a tile", &format!("{label}: {k:?}: {:?}", other.map(|r| r.map(|o| o.map(|b| b.len())).map_err(|e| e.to_string()))), case.clone()),
					}
				}
				if r.get_tilejson().get_str("name") != Some("recompression \"test\" \u{00fc}") {
					ctxr.violation("metadata lost by the conversion", &format!("{label}: {:?}", r.get_tilejson().as_string()), case.clone());
				}
				// the descriptive strings every target format has a place for
				for (k, v) in META_STRINGS {
					if r.get_tilejson().get_str(k) != Some(v) {
						ctxr.violation(&format!("metadata string '{k}' does not survive the conversion"), &format!("{label}: {:?}", r.get_tilejson().as_string()), case.clone());
					}
				}
			}
		}
		ct::cleanup(&w);
		if src_comp != out_comp || force {
			ctxr.nontrivial(fnv_str(&format!("{case}")));
		}
	});
	ctx.sample(json!({"conversion": {"container": "pmtiles", "source_compression": "Gzip", "target": "Brotli", "force_recompress": true, "payloads": ps.iter().map(|p| p.0).collect::<Vec<_>>()}}));
	ctx.outcome_n("conversion configurations (source compression x target x force x format)", cfgs.len() as u64);
	ctx.state(cfgs.len() as u64);
	ctx.transition(cfgs.len() as u64);
}

/// part B payloads: the named ones plus (thorough: every length 0..=1200 / quick: 0..=40) and lengths 2^k-1, 2^k, 2^k+1
/// (k = 9..=16 quick, 9..=22 thorough), each as a compressible and as an incompressible byte pattern
fn sweep_payloads(thorough: bool) -> Vec<(String, Vec<u8>)> {
	let mut v: Vec<(String, Vec<u8>)> = payloads().into_iter().map(|(n, p)| (n.to_string(), p)).collect();
	let mut lens: Vec<usize> = (0..=if thorough { 1200 } else { 40 }).collect();
	for k in 9..=if thorough { 22u32 } else { 16 } {
		lens.extend([(1usize << k) - 1, 1 << k, (1 << k) + 1]);
	}
	// sizes on both sides of 4 MiB (plausible size limit), compressible only
	for l in [(4usize << 20) - 1, (4 << 20) + 1, 5 << 20] {
		v.push((format!("{l} bytes text"), (0..l).map(|i| b"tile data, "[i % 11]).collect()));
	}
	for l in lens {
		v.push((format!("{l} bytes text"), (0..l).map(|i| b"tile data, "[i % 11]).collect()));
		v.push((format!("{l} bytes noise"), tilesets::lcg_bytes(l as u64 + 1, l)));
	}
	v
}

/// part D: the `versatiles convert` command over 4 inputs (gzip bytes labelled uncompressed + --override-input-compression, gzip, brotli, uncompressed) x --compress {absent,uncompressed,gzip,brotli} x --force-recompress x {versatiles,pmtiles,tar,directory,mbtiles}, plus the gzip input as pmtiles / tar / mbtiles / directory (the command picks reader and writer by file name), outputs decoded independently; a 21845-tile source recompressed into pmtiles. part C: chains of two conversions (the second starts from the first one's output container):
/// (source compression, target1, force1, target2, force2) through the versatiles format in memory
fn part_c(ctx: &Arc<Ctx>) {
	let work = ct::WorkDir::new("c04c");
	let rt = crate::memsource::runtime(4);
	let ps = payloads();
	let mut cfgs = vec![];
	for src_comp in 0..3u8 {
		for t1 in [None, Some(0u8), Some(1), Some(2)] {
			for f1 in [false, true] {
				for t2 in [None, Some(0u8), Some(1), Some(2)] {
					for f2 in [false, true] {
						for cont in [Cont::Versatiles, Cont::Pmtiles] {
							if ctx.tier == crate::ctx::Tier::Quick && (cfgs.len() + src_comp as usize) % 4 != 0 {
								cfgs.push(None);
								continue;
							}
							cfgs.push(Some((src_comp, t1, f1, t2, f2, cont)));
						}
					}
				}
			}
		}
	}
	let cfgs: Vec<_> = cfgs.into_iter().flatten().collect();
	let (ctxr, rtr, wpath, psr, cfgr): (&Ctx, _, _, _, _) = (ctx, &rt, work.0.clone(), &ps, &cfgs);
	par_for(cfgs.len(), |i| {
		let (src_comp, t1, f1, t2, f2, cont) = cfgr[i];
		let mid_comp = t1.unwrap_or(src_comp);
		let out_comp = t2.unwrap_or(mid_comp);
		let mut tiles = TileMap::new();
		let mut decoded = TileMap::new();
		for (j, (_, p)) in psr.iter().enumerate() {
			tiles.insert((9, 255 + j as u32, 256), codec::encode_with(src_comp, p));
			decoded.insert((9, 255 + j as u32, 256), p.clone());
		}
		let label = format!("{} chain {:?} -> {:?} force={f1} -> {:?} force={f2}", cont.name(), ct::comp_from_id(src_comp), t1.map(ct::comp_from_id), t2.map(ct::comp_from_id));
		let case = json!({"chain": true, "cont": cont, "src_comp": src_comp, "t1": t1, "f1": f1, "t2": t2, "f2": f2});
		ctxr.eval();
		let step = |reader: Box<dyn TilesReaderTrait>, t: Option<u8>, f: bool, tag: &str| -> Result<ct::Written, String> {
			let mut cp = TilesConverterParameters::new_default();
			cp.tile_compression = t.map(ct::comp_from_id);
			cp.force_recompress = f;
			let mut conv = TilesConvertReader::new_from_reader(reader, cp).map_err(|e| format!("{e:#}"))?;
			ct::write(rtr, cont, &mut conv, &wpath, &format!("k{i}{tag}"))
		};
		let src = MemSource::new("mem", tiles, TileFormat::PBF, ct::comp_from_id(src_comp));
		let w1 = match step(Box::new(src), t1, f1, "a") {
			Ok(w) => w,
			Err(e) => return ctxr.violation(&format!("conversion fails: {}", super::c01::norm_msg(&e)), &format!("{label} (first step): {e}"), case),
		};
		let r1 = match ct::open(rtr, cont, &w1) {
			Ok(r) => r,
			Err(e) => return ctxr.violation("converted file cannot be opened", &format!("{label} (first step): {e}"), case),
		};
		let w2 = match step(r1, t2, f2, "b") {
			Ok(w) => w,
			Err(e) => return ctxr.violation(&format!("conversion fails: {}", super::c01::norm_msg(&e)), &format!("{label} (second step): {e}"), case),
		};
		ctxr.trace(2);
		ctxr.transition(2);
		match ct::independent_decode(cont, &w2) {
			Err(e) => ctxr.violation(&format!("{}: converted file does not follow the layout: {}", cont.name(), super::c01::norm_msg(&e)), &format!("{label}: {e}"), case.clone()),
			Ok(d) => {
				if d.compression != Some(out_comp) {
					ctxr.violation("output declares another compression than requested", &format!("{label}: file declares {:?}, expected {out_comp}", d.compression), case.clone());
				}
				let declared = d.compression.unwrap_or(out_comp);
				for (k, p) in &decoded {
					match d.tiles.get(k) {
						None => ctxr.violation("converted output lacks a tile", &format!("{label}: {k:?}"), case.clone()),
						Some(data) => {
							if let Err(why) = really_encoded(declared, data, p) {
								ctxr.violation("output tile, decoded with the declared compression, differs from the source payload", &format!("{label}: tile {k:?} ({} source bytes): {why}", p.len()), case.clone());
							}
						}
					}
				}
			}
		}
		ct::cleanup(&w1);
		ct::cleanup(&w2);
		ctxr.nontrivial(fnv_str(&format!("{case}")));
	});
	ctx.outcome_n("two-step conversion chains", cfgs.len() as u64);
	ctx.state(cfgs.len() as u64);
}

fn part_b(ctx: &Arc<Ctx>) {
	let ps = sweep_payloads(ctx.tier == crate::ctx::Tier::Thorough);
	ctx.outcome_n("part B payloads", ps.len() as u64);
	let comps = [TileCompression::Uncompressed, TileCompression::Gzip, TileCompression::Brotli];
	let (ctx, psr): (&Ctx, _) = (ctx, &ps);
	// largest payloads first (they dominate the run time)
	let mut order: Vec<usize> = (0..ps.len()).collect();
	order.sort_by_key(|i| std::cmp::Reverse(psr[*i].1.len()));
	let order = &order;
	par_for(ps.len(), |pi| {
		let (pname, p) = &psr[order[pi]];
		for &inc in &comps {
			let input = codec::encode_with(ct::comp_id(inc), p);
			// compress / decompress / recompress
			for &outc in &comps {
				ctx.eval();
				let r = catch(|| recompress(Blob::from(input.as_slice()), &inc, &outc));
				let case = json!({"fn": "recompress", "payload": pname, "in": ct::comp_id(inc), "out": ct::comp_id(outc)});
				match r {
					Ok(Ok(b)) => {
						if let Err(why) = really_encoded(ct::comp_id(outc), b.as_slice(), p) {
							ctx.violation("recompress changes the payload", &format!("{pname} {inc:?}->{outc:?}: {why}"), case);
						}
					}
					Ok(Err(e)) => ctx.violation("recompress fails", &format!("{pname} {inc:?}->{outc:?}: {e}"), case),
					Err(pn) => ctx.violation(&format!("recompress panics at {}", panic_site(&pn)), &pn, case),
				}
			}
			// a gzip stream may consist of several members (RFC 1952 2.2): stored tiles produced by concatenating writers
			if inc == TileCompression::Gzip && p.len() >= 2 {
				let (a, b) = p.split_at(p.len() / 2);
				let mut multi = codec::gzip(a);
				multi.extend(codec::gzip(b));
				ctx.eval();
				for &outc in &comps {
					let r = catch(|| recompress(Blob::from(multi.as_slice()), &inc, &outc));
					let case = json!({"fn": "recompress", "payload": pname, "in": "gzip (two members)", "out": ct::comp_id(outc)});
					match r {
						Ok(Ok(b)) => {
							let ok = if outc == TileCompression::Gzip && b.as_slice() == multi.as_slice() { Ok(()) } else { really_encoded(ct::comp_id(outc), b.as_slice(), p) };
							if let Err(why) = ok {
								ctx.violation("recompress changes the payload of a gzip stream with two members", &format!("{pname} Gzip(2 members)->{outc:?}: {why}"), case);
							}
						}
						Ok(Err(e)) => ctx.violation("recompress fails on a gzip stream with two members", &format!("{pname} ->{outc:?}: {e}"), case),
						Err(pn) => ctx.violation(&format!("recompress panics at {}", panic_site(&pn)), &pn, case),
					}
				}
			}
			let c = catch(|| compress(Blob::from(p.as_slice()), &inc).and_then(|b| decompress(b, &inc)));
			if !matches!(&c, Ok(Ok(b)) if b.as_slice() == p.as_slice()) {
				ctx.violation("decompress(compress(x)) != x", &format!("{pname} {inc:?}"), json!({"fn": "compress", "payload": pname, "comp": ct::comp_id(inc)}));
			}
			// optimize_compression over all 8 allowed sets x 3 goals
			for mask in 0..8u8 {
				let mut set: EnumSet<TileCompression> = EnumSet::new();
				for (i, c) in comps.iter().enumerate() {
					if mask >> i & 1 == 1 {
						set.insert(*c);
					}
				}
				for goal in 0..3u8 {
					let mut t = TargetCompression::from_set(set);
					match goal {
						1 => t.set_fast_compression(),
						2 => t.set_incompressible(),
						_ => {}
					}
					ctx.eval();
					let case = json!({"fn": "optimize_compression", "payload": pname, "in": ct::comp_id(inc), "allowed_mask": mask, "goal": goal});
					let r = catch(|| optimize_compression(Blob::from(input.as_slice()), &inc, &t));
					let has_unc = set.contains(TileCompression::Uncompressed);
					match r {
						Err(pn) => ctx.violation(&format!("optimize_compression panics at {}", panic_site(&pn)), &pn, case),
						Ok(Err(e)) => {
							if has_unc {
								ctx.violation("optimize_compression fails although 'uncompressed' is allowed", &format!("{pname} in={inc:?} allowed={set:?} goal={goal}: {e}"), case);
							}
						}
						Ok(Ok((b, outc))) => {
							if !set.contains(outc) {
								ctx.violation("optimize_compression returns a compression outside the allowed set", &format!("{pname} in={inc:?} allowed={set:?} goal={goal}: {outc:?}"), case.clone());
							}
							if let Err(why) = really_encoded(ct::comp_id(outc), b.as_slice(), p) {
								ctx.violation("optimize_compression changes the payload", &format!("{pname} in={inc:?} allowed={set:?} goal={goal} -> {outc:?}: {why}"), case.clone());
							}
							if goal == 2 && outc != inc && outc != TileCompression::Uncompressed {
								ctx.violation("optimize_compression recompresses although the data is marked incompressible", &format!("{pname} in={inc:?} allowed={set:?} -> {outc:?}"), case.clone());
							}
							if mask != 0 && has_unc {
								ctx.nontrivial(fnv_str(&format!("{case}")));
							}
						}
					}
				}
			}
		}
	});
	let _ = CompressionGoal::UseBestCompression;
}

/// part D: the command line. `versatiles convert` with --compress / --force-recompress / --override-input-compression
/// over sources whose stored compression is declared (gzip, brotli) or only stated on the command line (gzip bytes in
/// a container labelled uncompressed), into versatiles / pmtiles / tar; plus a 21845-tile source into pmtiles.
fn part_d(ctx: &Arc<Ctx>) {
	let bin = super::http::versatiles_bin();
	if !bin.exists() {
		eprintln!("MACHINERY: versatiles binary not found at {bin:?} (run ./setup.sh)");
		std::process::exit(2);
	}
	let work = ct::WorkDir::new("c04d");
	let rt = crate::memsource::runtime(2);
	let ps: Vec<(&str, Vec<u8>)> = payloads().into_iter().filter(|p| p.1.len() <= 110 * 1024).collect();
	let mut decoded = TileMap::new();
	for (j, (_, p)) in ps.iter().enumerate() {
		decoded.insert((3, j as u32, 1), p.clone());
		decoded.insert((9, 255 + j as u32, 256), p.clone());
	}
	// (file, stored compression of the bytes, declared compression, extra arguments)
	let mut inputs: Vec<(String, u8, Vec<String>)> = vec![];
	for (name, stored, declared, extra) in [("lab", 1u8, 0u8, vec!["--override-input-compression".to_string(), "gzip".to_string()]), ("gz", 1, 1, vec![]), ("br", 2, 2, vec![]), ("raw", 0, 0, vec![])] {
		let tiles: TileMap = decoded.iter().map(|(k, p)| (*k, codec::encode_with(stored, p))).collect();
		let mut src = MemSource::new("m", tiles, TileFormat::PBF, ct::comp_from_id(declared));
		match ct::write(&rt, Cont::Versatiles, &mut src, &work.0, &format!("in_{name}")) {
			Ok(ct::Written::Bytes(b)) => std::fs::write(work.0.join(format!("in_{name}.versatiles")), b).unwrap(),
			_ => {
				eprintln!("MACHINERY: cannot write the CLI input container");
				std::process::exit(2);
			}
		}
		inputs.push((format!("in_{name}.versatiles"), stored, extra));
	}
	// a directory whose files hold gzip data but are named like plain tiles, read with --override-input-compression
	{
		let files: Vec<(String, Vec<u8>)> = decoded.iter().map(|(k, p)| (format!("{}/{}/{}.pbf", k.0, k.1, k.2), codec::encode_with(1, p))).collect();
		codec::dir_write(&work.0.join("in_labdir"), &files).unwrap();
		inputs.push(("in_labdir".to_string(), 1, vec!["--override-input-compression".to_string(), "gzip".to_string()]));
		let files: Vec<(String, Vec<u8>)> = decoded.iter().map(|(k, p)| (format!("{}/{}/{}.pbf.gz", k.0, k.1, k.2), p.clone())).collect();
		codec::dir_write(&work.0.join("in_labdir2"), &files).unwrap();
		inputs.push(("in_labdir2".to_string(), 0, vec!["--override-input-compression".to_string(), "uncompressed".to_string()]));
	}
	// the gzip input once more in every other container format (the command picks reader and writer by file name)
	{
		let tiles: TileMap = decoded.iter().map(|(k, p)| (*k, codec::encode_with(1, p))).collect();
		for cont in [Cont::Pmtiles, Cont::Tar, Cont::Mbtiles, Cont::Directory] {
			let mut src = MemSource::new("m", tiles.clone(), TileFormat::PBF, TileCompression::Gzip);
			let name = format!("in_gz.{}", ct::ext(cont));
			match ct::write(&rt, cont, &mut src, &work.0, "in_gz") {
				Ok(ct::Written::Bytes(b)) => std::fs::write(work.0.join(&name), b).unwrap(),
				Ok(ct::Written::Path(_)) => {}
				Err(e) => {
					eprintln!("MACHINERY: cannot write the CLI input container {name}: {e}");
					std::process::exit(2);
				}
			}
			inputs.push((name, 1, vec![]));
		}
	}
	let mut runs = vec![];
	for (ii, _) in inputs.iter().enumerate() {
		for target in [None, Some(0u8), Some(1), Some(2)] {
			for force in [false, true] {
				for ext in ["versatiles", "pmtiles", "tar", "dir", "mbtiles"] {
					runs.push((ii, target, force, ext));
				}
			}
		}
	}
	let (ctxr, rr, ir, dr, wpath): (&Ctx, _, _, _, _) = (ctx, &runs, &inputs, &decoded, work.0.clone());
	par_for(runs.len(), |ri| {
		let (ii, target, force, ext) = rr[ri];
		let (input, stored, extra) = &ir[ii];
		let out_comp = target.unwrap_or(*stored);
		let mut args: Vec<String> = extra.clone();
		if let Some(t) = target {
			args.push("--compress".into());
			args.push(["uncompressed", "gzip", "brotli"][t as usize].into());
		}
		if force {
			args.push("--force-recompress".into());
		}
		let out = format!("out{ri}.{ext}");
		let label = format!("versatiles convert {} {input} {out}", args.join(" "));
		let case = json!({"kind": "cli", "args": args, "input": input, "output": ext});
		ctxr.eval();
		ctxr.transition(1);
		if ext == "dir" {
			// the command writes a directory container into a directory that exists
			let _ = std::fs::remove_dir_all(wpath.join(&out));
			std::fs::create_dir_all(wpath.join(&out)).unwrap();
		}
		let r = std::process::Command::new(&bin).current_dir(&wpath).arg("convert").args(&args).arg(input).arg(&out).output();
		let Ok(r) = r else { return ctxr.violation("the convert command cannot be started", &label, case) };
		if !r.status.success() && ext == "mbtiles" && out_comp != 1 {
			// MBTiles holds vector tiles gzipped only: a refusal is not applicable
			let _ = std::fs::remove_file(wpath.join(&out));
			return ctxr.outcome("CLI: mbtiles target refuses vector tiles that are not gzipped (not applicable)");
		}
		if !r.status.success() {
			return ctxr.violation("the convert command fails", &format!("{label}: {}", String::from_utf8_lossy(&r.stderr).lines().last().unwrap_or("")), case);
		}
		ctxr.trace(1);
		let path = wpath.join(&out);
		let (cont, w) = match ext {
			"versatiles" => (Cont::Versatiles, ct::Written::Bytes(std::fs::read(&path).unwrap_or_default())),
			"pmtiles" => (Cont::Pmtiles, ct::Written::Bytes(std::fs::read(&path).unwrap_or_default())),
			"dir" => (Cont::Directory, ct::Written::Path(path.clone())),
			"mbtiles" => (Cont::Mbtiles, ct::Written::Path(path.clone())),
			_ => (Cont::Tar, ct::Written::Path(path.clone())),
		};
		match ct::independent_decode(cont, &w) {
			Err(e) => ctxr.violation("CLI: converted file does not follow the layout", &format!("{label}: {e}"), case.clone()),
			Ok(d) => {
				if d.compression != Some(out_comp) {
					ctxr.violation("CLI: output declares another compression than requested", &format!("{label}: file declares {:?}, expected {out_comp}", d.compression), case.clone());
				}
				let declared = d.compression.unwrap_or(out_comp);
				for (k, p) in dr.iter() {
					match d.tiles.get(k) {
						None => ctxr.violation("CLI: converted output lacks a tile", &format!("{label}: {k:?}"), case.clone()),
						Some(data) => {
							if let Err(why) = really_encoded(declared, data, p) {
								ctxr.violation("CLI: output tile, decoded with the declared compression, differs from the source payload", &format!("{label}: tile {k:?} ({} source bytes): {why}", p.len()), case.clone());
								break;
							}
						}
					}
				}
			}
		}
		let _ = std::fs::remove_file(&path);
		let _ = std::fs::remove_dir_all(&path);
		ctxr.nontrivial(fnv_str(&format!("cli{ri}")));
	});
	ctx.outcome_n("CLI conversions (input x --compress x --force-recompress x target format)", runs.len() as u64);
	// a source above the PMTiles leaf-directory threshold, recompressed into pmtiles
	{
		let mut full = TileMap::new();
		for z in 0..=7u8 {
			for x in 0..(1u32 << z) {
				for y in 0..(1u32 << z) {
					full.insert((z, x, y), format!("tile {z}/{x}/{y} {}", "pad ".repeat((x % 5) as usize)).into_bytes());
				}
			}
		}
		for (src_comp, target, force) in [(0u8, Some(1u8), false), (1, Some(2), true)] {
			ctx.eval();
			let tiles: TileMap = full.iter().map(|(k, p)| (*k, codec::encode_with(src_comp, p))).collect();
			let src = MemSource::new("full7", tiles, TileFormat::PBF, ct::comp_from_id(src_comp)).with_fast_stream();
			let mut cp = TilesConverterParameters::new_default();
			cp.tile_compression = target.map(ct::comp_from_id);
			cp.force_recompress = force;
			let case = json!({"kind": "large", "src_comp": src_comp, "target": target, "force": force});
			let label = format!("21845 tiles {:?} -> {:?} force={force} into pmtiles", ct::comp_from_id(src_comp), target.map(ct::comp_from_id));
			let Ok(mut conv) = TilesConvertReader::new_from_reader(Box::new(src), cp) else { continue };
			match ct::write(&rt, Cont::Pmtiles, &mut conv, &work.0, "large") {
				Err(e) => ctx.violation(&format!("conversion fails: {}", super::c01::norm_msg(&e)), &format!("{label}: {e}"), case),
				Ok(w) => match ct::independent_decode(Cont::Pmtiles, &w) {
					Err(e) => ctx.violation("pmtiles: converted file does not follow the layout", &format!("{label}: {e}"), case),
					Ok(d) => {
						let declared = d.compression.unwrap_or(0);
						let mut bad = 0u64;
						let mut first = None;
						for (k, p) in &full {
							let ok = d.tiles.get(k).is_some_and(|data| really_encoded(declared, data, p).is_ok());
							if !ok {
								bad += 1;
								first.get_or_insert(*k);
							}
						}
						if bad > 0 {
							ctx.violation("converted output lacks a tile", &format!("{label}: {bad} of {} tiles missing or with another payload, first {first:?}", full.len()), case);
						}
					}
				},
			}
			ctx.nontrivial(fnv_str(&format!("large{src_comp}")));
		}
	}
	drop(work);
}

pub fn run(ctx: Arc<Ctx>) {
	ctx.rule(
		"part A: every (source compression, target in {keep,none,gzip,brotli}, force flag, target container) x tile format {pbf, png, webp, bin} (MBTiles: png and pbf, only its legal pairs are judged as successes) over 8 payloads (three near-duplicates of one length that agree in head and tail, 1 B, 2 KiB compressible, 70 KiB incompressible, 100 KiB and 300 KiB highly compressible) through TilesConvertReader + the real writer on a multi-thread runtime, file-based targets into a path that already holds an earlier export with payloads of the same lengths; \
		 output tiles decoded independently with the compression the output declares. part B: compress/decompress/recompress over 3x3 pairs and optimize_compression over 3 inputs x 8 allowed sets x 3 goals x (5 named payloads + every length 0..=40 quick / 0..=1200 thorough and 2^k-1,2^k,2^k+1 for k=9..16 quick / 9..22 thorough, each as text and as noise). part D: the `versatiles convert` command over 4 inputs (gzip bytes labelled uncompressed + --override-input-compression, gzip, brotli, uncompressed) x --compress {absent,uncompressed,gzip,brotli} x --force-recompress x {versatiles,pmtiles,tar,directory,mbtiles}, plus the gzip input as pmtiles / tar / mbtiles / directory (the command picks reader and writer by file name), outputs decoded independently; a 21845-tile source recompressed into pmtiles. part C: chains of two conversions (source compression x target1 x force1 x target2 x force2 x {versatiles, pmtiles}; every 4th in quick, all 384 in thorough), the second reading the first one's output. non-trivial = configurations that actually re-encode",
	);
	ctx.assume("flate2 and brotli crates are the trusted base used to build the source tiles and to decode the outputs");
	part_a(&ctx);
	part_b(&ctx);
	part_c(&ctx);
	part_d(&ctx);
	ctx.exhaustive(true);
}

pub fn replay(_ctx: Arc<Ctx>, case: &Value) {
	println!("  case: {case}");
	println!("  re-run ./check C04 quick (deterministic, 120 + 1080 cells) to reproduce");
}
