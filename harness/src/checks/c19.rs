//! C19 — decoders report malformed input as an error and never bring the process down.
//!
//! Parent side: for every decoding entry point, worker processes (vworker) enumerate the entry's
//! bounded case space and run disjoint shards of it; a worker announces each case index before
//! running it, so an abort, stack overflow or refused allocation is attributed to that case.

use crate::c19cases::ENTRIES;
use crate::ctx::{fnv_str, Ctx, Tier};
use crate::par::par_for;
use serde_json::{json, Value};
use std::io::Read;
use std::os::unix::fs::FileExt;
use std::path::PathBuf;
use std::process::{Command, Stdio};
use std::sync::Arc;
use std::time::{Duration, Instant};

fn worker_bin() -> PathBuf {
	std::env::current_exe().unwrap().parent().unwrap().join("vworker")
}

struct ShardResult {
	enumerated: u64,
	run: u64,
	ok: u64,
	err: u64,
	panics: Vec<(u64, String, String, String, u64)>, // index, site, message, hex, len
	deaths: Vec<(u64, String)>,
	slow: Vec<u64>,
}

fn run_shard(entry: &str, shard: u64, nshards: u64, tier: Tier, work: &std::path::Path) -> ShardResult {
	let mut res = ShardResult { enumerated: 0, run: 0, ok: 0, err: 0, panics: vec![], deaths: vec![], slow: vec![] };
	let ann = work.join(format!("announce-{entry}-{shard}"));
	let mut from = 0u64;
	let mut restarts = 0;
	loop {
		std::fs::write(&ann, u64::MAX.to_le_bytes()).unwrap();
		let errp = work.join(format!("stderr-{entry}-{shard}"));
		let mut child = Command::new(worker_bin())
			.arg(entry)
			.arg(shard.to_string())
			.arg(nshards.to_string())
			.arg(tier.as_str())
			.arg(from.to_string())
			.env("VERIF_ANNOUNCE", &ann)
			.env("VERIF_WORKER_DIR", work)
			.stdin(Stdio::null())
			.stdout(Stdio::piped())
			.stderr(std::fs::File::create(&errp).unwrap())
			.spawn()
			.expect("spawn vworker");
		let mut out = child.stdout.take().unwrap();
		let reader = std::thread::spawn(move || {
			let mut s = String::new();
			let _ = out.read_to_string(&mut s);
			s
		});
		// watchdog: a case that does not finish within 20 s is logged as slow, not as a violation
		let annf = std::fs::File::open(&ann).unwrap();
		let mut last = (u64::MAX, Instant::now());
		let mut killed_slow = None;
		let status = loop {
			if let Ok(Some(st)) = child.try_wait() {
				break st;
			}
			let mut b = [0u8; 8];
			let _ = annf.read_at(&mut b, 0);
			let cur = u64::from_le_bytes(b);
			if cur != last.0 {
				last = (cur, Instant::now());
			} else if cur != u64::MAX && last.1.elapsed() > Duration::from_secs(20) {
				let _ = child.kill();
				killed_slow = Some(cur);
			}
			std::thread::sleep(Duration::from_millis(20));
		};
		let text = reader.join().unwrap_or_default();
		let mut done = false;
		for line in text.lines() {
			let p: Vec<&str> = line.split('\t').collect();
			match p[0] {
				"P" if p.len() >= 6 => res.panics.push((p[1].parse().unwrap_or(0), p[2].to_string(), p[3].to_string(), p[4].to_string(), p[5].parse().unwrap_or(0))),
				"D" if p.len() >= 6 => {
					done = true;
					res.enumerated = p[1].parse().unwrap_or(0);
					res.run += p[2].parse::<u64>().unwrap_or(0);
					res.ok += p[3].parse::<u64>().unwrap_or(0);
					res.err += p[4].parse::<u64>().unwrap_or(0);
				}
				_ => {}
			}
		}
		if done && status.success() {
			break;
		}
		// the worker died: attribute to the announced case and continue after it
		let mut b = [0u8; 8];
		let _ = annf.read_at(&mut b, 0);
		let idx = u64::from_le_bytes(b);
		let stderr = std::fs::read_to_string(&errp).unwrap_or_default();
		let why = stderr
			.lines()
			.find(|l| l.contains("memory allocation of") || l.contains("stack overflow") || l.contains("overflowed its stack") || l.contains("capacity overflow") || l.contains("panicked at"))
			.or_else(|| stderr.lines().rev().find(|l| !l.trim().is_empty()))
			.unwrap_or("")
			.to_string();
		if idx == u64::MAX {
			eprintln!("MACHINERY: worker for {entry} shard {shard} died before its first case: {why}");
			std::process::exit(2);
		}
		if let Some(s) = killed_slow {
			res.slow.push(s);
		} else {
			res.deaths.push((idx, why));
		}
		from = idx + 1;
		restarts += 1;
		if restarts > 200 {
			eprintln!("MACHINERY: worker for {entry} shard {shard} died more than 200 times");
			std::process::exit(2);
		}
	}
	let _ = std::fs::remove_file(&ann);
	res
}

fn death_kind(why: &str) -> &'static str {
	if why.contains("memory allocation of") {
		"allocation out of proportion to the input (allocator refused, abort)"
	} else if why.contains("overflowed its stack") || why.contains("stack overflow") {
		"stack overflow"
	} else if why.contains("capacity overflow") {
		"capacity overflow abort"
	} else {
		"process abort"
	}
}

pub fn run(ctx: Arc<Ctx>) {
	ctx.rule(
		"per entry point (parse_json_str, TileJSON::try_from, try_from_blob_or_default, read_csv_iter, CSV file through the pipeline, parse_vpl, operation_from_vpl, VectorTile::from_blob + property/geometry decoding, open+lookups on versatiles/PMTiles (in memory, through DataReaderFile and behind a web server answering range requests), tar, MBTiles, directory, JsonValue::parse_blob, pipeline files opened by path and by data reader incl. files that read themselves): \
		 text: all strings up to length 5-7 over per-grammar alphabets incl. a 2-byte and a 4-byte UTF-8 character, multi-byte characters at every offset 0..40 before error sites, nesting depth 2^k up to 4096, single-edit mutations of valid texts; \
		 binary: for every seed every truncation, every position x {0,1,0x7f,0x80,0xff,b+-1,b^0x80}, every deletion/duplication, pairs (thorough), the same on decompressed inner structures re-compressed with lengths fixed up, splices, self-referential / deep PMTiles leaf chains. \
		 each case in a subprocess worker under catch_unwind with an allocation guard (64 MiB + 1024 x input). non-trivial = cases that reach an error return (malformed input handled)",
	);
	ctx.assume("a case exceeding 20 s is logged as slow and skipped (the property makes no time claim)");
	let work = crate::containers::WorkDir::new("c19");
	let bin = worker_bin();
	if !bin.exists() {
		eprintln!("MACHINERY: {bin:?} not built");
		std::process::exit(2);
	}
	let mut jobs: Vec<(&str, u64, u64)> = vec![];
	for e in ENTRIES {
		let n = match e {
			"json" | "csv" | "vpl" | "versatiles" | "pmtiles" | "mvt" | "vpl_op" | "tilejson_str" => 8u64,
			"mbtiles" => 1,
			_ => 2,
		};
		for s in 0..n {
			jobs.push((e, s, n));
		}
	}
	let results: std::sync::Mutex<Vec<(String, ShardResult)>> = std::sync::Mutex::new(vec![]);
	let (jr, wp, rr) = (&jobs, work.0.clone(), &results);
	let tier = ctx.tier;
	par_for(jobs.len(), |i| {
		let (e, s, n) = jr[i];
		let r = run_shard(e, s, n, tier, &wp);
		rr.lock().unwrap().push((e.to_string(), r));
	});
	let results = results.into_inner().unwrap();
	for e in ENTRIES {
		let (mut run, mut ok, mut err, mut enumerated) = (0u64, 0u64, 0u64, 0u64);
		for (name, r) in results.iter().filter(|r| r.0 == e) {
			run += r.run;
			ok += r.ok;
			err += r.err;
			enumerated = enumerated.max(r.enumerated);
			for (idx, site, msg, hex, len) in &r.panics {
				ctx.violation(&format!("{name}: panic at {site}"), &format!("case #{idx} ({len} bytes, hex {hex}{}): {msg}", if *len > 96 { ".." } else { "" }), json!({"entry": name, "index": idx, "tier": tier.as_str()}));
			}
			for (idx, why) in &r.deaths {
				ctx.violation(&format!("{name}: {}", death_kind(why)), &format!("case #{idx} brought the worker process down: {why}"), json!({"entry": name, "index": idx, "tier": tier.as_str()}));
			}
			for idx in &r.slow {
				ctx.outcome(&format!("{name}: slow case (> 20 s), skipped"));
				ctx.extra(&format!("slow_case_{name}"), json!(idx));
			}
		}
		ctx.evals(run);
		ctx.trace(run);
		ctx.state(enumerated);
		ctx.transition(run);
		ctx.nontrivial_distinct(err);
		ctx.outcome_n(&format!("{e}: cases"), run);
		ctx.outcome_n(&format!("{e}: value"), ok);
		ctx.outcome_n(&format!("{e}: error return"), err);
		if run != enumerated {
			// every enumerated case is run by exactly one shard, except cases skipped after a death
			ctx.outcome_n(&format!("{e}: enumerated but not run (skipped after a worker death or slow case)"), enumerated.saturating_sub(run));
		}
	}
	ctx.sample(json!({"entry": "versatiles", "case": "seed container with byte 61 (blocks_range length) set to 0xff", "entry2": "json", "case2": "[1,1,1,1,1,1,1,\u{e9}]"}));
	ctx.exhaustive(true);
	let _ = fnv_str("");
	drop(work);
}

pub fn replay(ctx: Arc<Ctx>, case: &Value) {
	let entry = case["entry"].as_str().unwrap_or("");
	let idx = case["index"].as_u64().unwrap_or(0);
	let tier = case["tier"].as_str().unwrap_or("quick");
	let work = crate::containers::WorkDir::new("c19r");
	let mut obs = vec![];
	for _ in 0..2 {
		let out = Command::new(worker_bin()).arg(entry).arg("0").arg("1").arg(tier).arg("0").arg("--only").arg(idx.to_string()).env("VERIF_WORKER_DIR", &work.0).output().expect("vworker");
		let text = String::from_utf8_lossy(&out.stdout).to_string();
		let err = String::from_utf8_lossy(&out.stderr).to_string();
		for l in text.lines().filter(|l| l.starts_with("P\t") || l.starts_with("R\t")) {
			println!("  {l}");
		}
		if !out.status.success() {
			println!("  worker exit {:?}: {}", out.status.code(), err.lines().last().unwrap_or(""));
		}
		obs.push((text.lines().filter(|l| l.starts_with("P\t")).map(|l| l.split('\t').nth(2).unwrap_or("").to_string()).collect::<Vec<_>>(), out.status.success()));
		for l in text.lines().filter(|l| l.starts_with("P\t")) {
			let p: Vec<&str> = l.split('\t').collect();
			ctx.violation(&format!("{entry}: panic at {}", p[2]), p[3], case.clone());
		}
		if !out.status.success() {
			ctx.violation(&format!("{entry}: {}", death_kind(&err)), err.lines().last().unwrap_or(""), case.clone());
		}
	}
	if obs[0] != obs[1] {
		eprintln!("MACHINERY: replay observations differ between two runs");
		std::process::exit(2);
	}
}
