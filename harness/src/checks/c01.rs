//! C01 — container round trip is lossless for every tile set and every format.
//!
//! Tile sets come from an explicit-state BFS ("add one tile" over a collision-forcing alphabet,
//! canonical form = sorted map) plus named big families; each is written with the repository's
//! writer, read back (a) with the repository's reader (lookups + streams) and (b) with an
//! independent decoder written from the published layout.

use crate::codec;
use crate::containers::{self as ct, Cont, Written};
use crate::ctx::{fnv_str, Ctx, Tier};
use crate::memsource::{self, Key, MemSource, TileMap};
use crate::par::{catch, panic_site, par_for};
use crate::tilesets;
use serde_json::{json, Value};
use std::collections::BTreeMap;
use std::path::Path;
use std::sync::Arc;
use versatiles_container::TilesWriterTrait;
use versatiles_core::types::{TileCompression, TileFormat};

pub fn norm_msg(s: &str) -> String {
	let mut out = String::new();
	let mut last_hash = false;
	for ch in s.chars() {
		if ch.is_ascii_digit() {
			if !last_hash {
				out.push('#');
			}
			last_hash = true;
		} else {
			last_hash = false;
			out.push(ch);
		}
	}
	let out = out.replace(crate::ctx::verif_root().to_string_lossy().as_ref(), "<verif>");
	out.chars().take(90).collect()
}

fn has_zoom_gap(tiles: &TileMap) -> bool {
	let levels: std::collections::BTreeSet<u8> = tiles.keys().map(|k| k.0).collect();
	match (levels.iter().next(), levels.iter().last()) {
		(Some(lo), Some(hi)) => (*lo..=*hi).any(|z| !levels.contains(&z)),
		_ => false,
	}
}

pub fn tiles_json(tiles: &TileMap) -> Value {
	Value::Array(tiles.iter().take(40).map(|(k, v)| json!([k.0, k.1, k.2, v.len(), format!("{:016x}", crate::ctx::fnv(v))])).collect())
}

pub struct Case<'a> {
	pub cont: Cont,
	pub tiles: &'a TileMap,
	pub format: TileFormat,
	pub comp: TileCompression,
	pub label: String,
	pub replay: Value,
}

/// One round trip; reports violations to ctx. Returns false if the case could not be run (writer rejected it).
pub fn roundtrip(ctx: &Ctx, rt: &tokio::runtime::Runtime, work: &Path, name: &str, c: &Case) -> bool {
	let cn = c.cont.name();
	let expected: TileMap = c.tiles.iter().filter(|(_, v)| !v.is_empty()).map(|(k, v)| (*k, v.clone())).collect();
	let gap = if has_zoom_gap(c.tiles) { " [zoom levels not contiguous]" } else { "" };
	if expected.is_empty() {
		// The empty tile set (or one with only empty tiles) is outside the round-trip claim: every writer
		// or reader refuses it one way or another; recorded, not judged.
		ctx.outcome(&format!("{cn}: empty tile set skipped"));
		return false;
	}
	// a source tile with empty bytes may come back as absent or as an empty tile
	let same = |got: &TileMap| -> bool {
		got.iter().all(|(k, v)| match expected.get(k) {
			Some(e) => e == v,
			None => v.is_empty() && c.tiles.contains_key(k),
		}) && expected.keys().all(|k| got.contains_key(k))
	};
	let mut src = MemSource::new("mem", c.tiles.clone(), c.format, c.comp);
	src.fast_stream = c.tiles.len() <= 8 && c.tiles.keys().any(|k| k.0 >= 12);
	ctx.eval();
	let w = match ct::write(rt, c.cont, &mut src, work, name) {
		Ok(w) => w,
		Err(e) => {
			if c.tiles.is_empty() {
				ctx.outcome(&format!("{cn}: empty tile set rejected by the writer"));
				return false;
			}
			if let Some(p) = e.strip_prefix("PANIC ") {
				ctx.violation(&format!("{cn}: writer panics at {}{gap}", panic_site(p)), &format!("{}: {p}", c.label), c.replay.clone());
			} else {
				ctx.violation(&format!("{cn}: writer fails: {}{gap}", norm_msg(&e)), &format!("{}: {e}", c.label), c.replay.clone());
			}
			return false;
		}
	};
	ctx.trace(1);
	// (b) independent decoder
	match ct::independent_decode(c.cont, &w) {
		Err(e) => ctx.violation(&format!("{cn}: written file does not follow the published layout: {}{gap}", norm_msg(&e)), &format!("{}: independent decoder: {e}", c.label), c.replay.clone()),
		Ok(d) => {
			if !same(&d.tiles) {
				ctx.violation(&format!("{cn}: independent decoder recovers another mapping{gap}"), &format!("{}: {}", c.label, diff(&expected, &d.tiles)), c.replay.clone());
			}
			let fname = ct::format_name(c.format);
			let expressible_format = match c.cont {
				Cont::Pmtiles => ct::pm_type_code(c.format) != 0,
				_ => true,
			};
			if expressible_format && d.format.as_deref() != Some(fname) && !expected.is_empty() {
				ctx.violation(&format!("{cn}: declared tile format in the file differs"), &format!("{}: file declares {:?}, source {fname}", c.label, d.format), c.replay.clone());
			}
			for issue in &d.header_issues {
				let class = if issue.contains("mandatory row") { "a mandatory metadata row is missing" } else if issue.contains("zoom levels") { "declared zoom range does not include the stored levels" } else if issue.contains("bounds") { "declared bounds do not fit the stored tiles" } else if issue.contains("clustered") { "'clustered' flag set although the tile data is not in tile-id order" } else { "header counters contradict the directories" };
				ctx.violation(&format!("{cn}: header of the written file contradicts its tiles: {class}{gap}"), &format!("{}: {issue}", c.label), c.replay.clone());
			}
			if d.compression != Some(ct::comp_id(c.comp)) && !expected.is_empty() {
				ctx.violation(&format!("{cn}: declared compression in the file differs"), &format!("{}: file declares {:?}, source {:?}", c.label, d.compression, c.comp), c.replay.clone());
			}
		}
	}
	if c.cont == Cont::Versatiles {
		if let Written::Bytes(b) = &w {
			if let Ok(d) = codec::vt_decode(b) {
				check_dedup(ctx, c, &d);
			}
		}
	}
	// (a) repository reader
	match ct::open(rt, c.cont, &w) {
		Err(e) => {
			if let Some(p) = e.strip_prefix("PANIC ") {
				ctx.violation(&format!("{cn}: reader panics while opening what the writer wrote at {}{gap}", panic_site(p)), &format!("{}: {p}", c.label), c.replay.clone());
			} else {
				ctx.violation(&format!("{cn}: reader cannot open what the writer wrote: {}{gap}", norm_msg(&e)), &format!("{}: {e}", c.label), c.replay.clone());
			}
		}
		Ok(reader) => {
			let probes = tilesets::probe_coords(c.tiles);
			match catch(|| memsource::lookups(rt, reader.as_ref(), &probes)) {
				Err(p) => ctx.violation(&format!("{cn}: lookup panics at {}", panic_site(&p)), &format!("{}: {p}", c.label), c.replay.clone()),
				Ok(Err(e)) => ctx.violation(&format!("{cn}: lookup fails: {}", norm_msg(&e)), &format!("{}: {e}", c.label), c.replay.clone()),
				Ok(Ok(got)) => {
					if !same(&got) {
						ctx.violation(&format!("{cn}: lookups return another mapping{gap}"), &format!("{}: {}", c.label, diff(&expected, &got)), c.replay.clone());
					}
				}
			}
			let p = reader.get_parameters().clone();
			let expressible_format = match c.cont {
				Cont::Pmtiles => ct::pm_type_code(c.format) != 0,
				_ => true,
			};
			if expressible_format && p.tile_format != c.format {
				ctx.violation(&format!("{cn}: reader declares another tile format"), &format!("{}: {:?} vs {:?}", c.label, p.tile_format, c.format), c.replay.clone());
			}
			if p.tile_compression != c.comp {
				ctx.violation(&format!("{cn}: reader declares another compression"), &format!("{}: {:?} vs {:?}", c.label, p.tile_compression, c.comp), c.replay.clone());
			}
			// streams over every advertised level
			let mut streamed: Vec<(Key, Vec<u8>)> = vec![];
			let mut stream_failed = false;
			let mut boxes: Vec<versatiles_core::types::TileBBox> = vec![];
			for bbox in p.bbox_pyramid.iter_levels() {
				if bbox.count_tiles() <= 1 << 20 || c.cont == Cont::Versatiles || c.cont == Cont::Mbtiles {
					boxes.push(bbox.clone());
				} else {
					// readers with the default lookup-loop stream: a huge sparse level box is walked in
					// pieces around the stored tiles instead (cost of the default stream is its area)
					for k in expected.keys().filter(|k| k.0 == bbox.level) {
						let mut b = versatiles_core::types::TileBBox::new(k.0, k.1, k.2, k.1, k.2).unwrap();
						b.add_border(2, 2, 2, 2);
						boxes.push(b);
					}
				}
			}
			for bbox in boxes.iter() {
				match catch(|| memsource::stream(rt, reader.as_ref(), bbox.clone())) {
					Ok(v) => streamed.extend(v),
					Err(pn) => {
						stream_failed = true;
						ctx.violation(&format!("{cn}: stream over an advertised level panics at {}", panic_site(&pn)), &format!("{}: level box {bbox:?}: {pn}", c.label), c.replay.clone());
					}
				}
			}
			if !stream_failed {
				let mut m = TileMap::new();
				let mut dup = false;
				for (k, v) in streamed {
					if m.insert(k, v).is_some() {
						dup = true;
					}
				}
				if dup {
					ctx.violation(&format!("{cn}: stream delivers a tile twice"), &c.label, c.replay.clone());
				}
				if !same(&m) {
					ctx.violation(&format!("{cn}: streams over the advertised levels return another mapping{gap}"), &format!("{}: {}", c.label, diff(&expected, &m)), c.replay.clone());
				}
			}
		}
	}
	ct::cleanup(&w);
	true
}

fn diff(expected: &TileMap, got: &TileMap) -> String {
	let missing: Vec<&Key> = expected.keys().filter(|k| !got.contains_key(*k)).take(4).collect();
	let extra: Vec<&Key> = got.keys().filter(|k| !expected.contains_key(*k)).take(4).collect();
	let changed: Vec<&Key> = expected.iter().filter(|(k, v)| got.get(*k).is_some_and(|g| g != *v)).map(|(k, _)| k).take(4).collect();
	format!("missing {missing:?} extra {extra:?} changed {changed:?} (expected {} tiles, got {})", expected.len(), got.len())
}

/// versatiles de-duplication: within one block, equal payloads below 1000 bytes share a byte range,
/// different payloads never share one, ranges never overlap partially.
fn check_dedup(ctx: &Ctx, c: &Case, d: &codec::VtDecoded) {
	for b in &d.blocks {
		let mut by_range: BTreeMap<(u64, u32), Vec<usize>> = BTreeMap::new();
		for (i, r) in b.ranges.iter().enumerate() {
			if r.1 > 0 {
				by_range.entry(*r).or_default().push(i);
			}
		}
		let rs: Vec<&(u64, u32)> = by_range.keys().collect();
		for w in rs.windows(2) {
			if w[0].0 + w[0].1 as u64 > w[1].0 {
				ctx.violation("versatiles: tile byte ranges overlap partially", &format!("{}: {:?} and {:?} in block ({},{},{})", c.label, w[0], w[1], b.z, b.bx, b.by), c.replay.clone());
			}
		}
		// equal small payloads must share
		let wdt = (b.cov.2 - b.cov.0) as usize + 1;
		let mut by_payload: BTreeMap<&Vec<u8>, Vec<(u64, u32)>> = BTreeMap::new();
		for (i, r) in b.ranges.iter().enumerate() {
			if r.1 == 0 {
				continue;
			}
			let x = b.bx * 256 + b.cov.0 as u32 + (i % wdt) as u32;
			let y = b.by * 256 + b.cov.1 as u32 + (i / wdt) as u32;
			if let Some(p) = c.tiles.get(&(b.z, x, y)) {
				by_payload.entry(p).or_default().push(*r);
			}
		}
		for (p, ranges) in by_payload {
			if p.len() < 1000 && ranges.windows(2).any(|w| w[0] != w[1]) {
				ctx.violation("versatiles: equal payloads below 1000 bytes are stored more than once in a block", &format!("{}: payload of {} bytes at ranges {ranges:?}", c.label, p.len()), c.replay.clone());
			}
		}
	}
}

fn spec_case(spec: &tilesets::SetSpec, cont: Cont, format: TileFormat, comp: TileCompression) -> Value {
	json!({"kind": "bfs", "spec": spec, "cont": cont, "format": ct::format_name(format), "comp": ct::comp_id(comp)})
}

fn default_pair(c: Cont, alt: bool) -> (TileFormat, TileCompression) {
	match (c, alt) {
		(Cont::Mbtiles, false) => (TileFormat::PNG, TileCompression::Uncompressed),
		(Cont::Mbtiles, true) => (TileFormat::PBF, TileCompression::Gzip),
		(_, false) => (TileFormat::PNG, TileCompression::Uncompressed),
		(_, true) => (TileFormat::PBF, TileCompression::Brotli),
	}
}

pub fn run(ctx: Arc<Ctx>) {
	ctx.rule(
		"tile sets: BFS from the empty set by 'add (coordinate, payload)' over 14 coordinates x 5 payloads (canonical form = sorted map) to depth 2 (quick) / 3 (thorough; file-based targets depth 2), \
		 x 5 target formats x two (format, compression) pairs; every accepted (format, compression) pair x representative sets; named families (dense 130x130 at z=8 -> PMTiles leaf directories, full z0..4 pyramid, 70/100 KiB payloads, level-31 corners, PMTiles root/leaf switch sweep + counts k*4096 and k*4096+1 (thorough: -1..+2) for k=1..5, diamond-shaped sparse levels, tiles of one block that differ in a single byte at swept positions, stored lengths and PMTiles tile-id distances 2^k - 1, 2^k, 2^k + 1 on the borders of the varint encoding); every format written to a path that already holds an earlier output (superset, shifted set, same coordinates with equal-size / longer payloads). \
		 oracle: repository reader lookups + streams = independent decoder = source mapping; header fields (zoom range includes the stored levels, bounds valid and containing the top level's tile centres, PMTiles counters 0 or exact, MBTiles minzoom/maxzoom/bounds rows, mandatory name and format rows present) consistent with the stored tiles. non-trivial = distinct tile sets spanning >= 2 blocks of a level, with duplicate payloads, payloads on both sides of 1000 bytes, or a zoom gap",
	);
	ctx.assume("compression libraries (flate2, brotli) and SQLite are the trusted base shared with the repository; the independent decoders are cross-validated against the repository's writers on this very space");
	let work = ct::WorkDir::new("c01");
	let depth_mem = ctx.tier.pick(2usize, 3usize);
	let bfs = tilesets::bfs_sets(depth_mem, true);
	ctx.state(bfs.states.len() as u64 + 0);
	ctx.transition(bfs.transitions);
	let states = &bfs.states;
	let ctxr: &Ctx = &ctx;
	let wpath = work.0.clone();
	// 1. BFS states x formats x 2 pairs
	par_for(states.len(), |i| {
		let spec = &states[i];
		let tiles = tilesets::materialize(spec);
		if tilesets::is_nontrivial(spec) {
			ctxr.nontrivial(fnv_str(&format!("{spec:?}")));
		}
		let rt = tokio::runtime::Builder::new_current_thread().build().unwrap();
		for cont in ct::ALL_CONT {
			if !cont.in_memory() && spec.len() > 2 {
				continue;
			}
			// MBTiles: pool threads linger (see containers::mbtiles_pool_token); quick covers depth <= 1
			// and every third depth-2 state, thorough all of depth <= 2
			if cont == Cont::Mbtiles && spec.len() == 2 && ctxr.tier == Tier::Quick && i % 3 != 0 {
				continue;
			}
			for alt in [false, true] {
				// the second pair only on every 4th state for file-based targets (quick)
				if alt && !cont.in_memory() && ctxr.tier == Tier::Quick && i % 4 != 0 {
					continue;
				}
				let (f, cp) = default_pair(cont, alt);
				let case = Case { cont, tiles: &tiles, format: f, comp: cp, label: format!("{} set {spec:?} as {}/{:?}", cont.name(), ct::format_name(f), cp), replay: spec_case(spec, cont, f, cp) };
				roundtrip(ctxr, &rt, &wpath, &format!("s{i}"), &case);
			}
		}
	});
	ctx.extra_add("wall_ms_bfs_part", (ctx.elapsed() * 1000.0) as u64);
	ctx.sample(json!({"bfs_state": states[states.len() / 2], "coordinates": tilesets::coord_alphabet(), "payload_lengths": tilesets::payload_alphabet().iter().map(|p| p.len()).collect::<Vec<_>>()}));
	// 2. every accepted (format, compression) pair x representative sets
	let reps: Vec<tilesets::SetSpec> = vec![vec![(0, 0)], vec![(6, 1), (7, 1), (9, 3)], vec![(1, 0), (5, 4), (12, 2), (13, 2)]];
	let mut pair_cases = vec![];
	for cont in ct::ALL_CONT {
		for (f, cp) in ct::accepted_pairs(cont) {
			for r in &reps {
				pair_cases.push((cont, f, cp, r.clone()));
			}
		}
	}
	let pc = &pair_cases;
	par_for(pair_cases.len(), |i| {
		let (cont, f, cp, spec) = &pc[i];
		let tiles = tilesets::materialize(spec);
		let rt = tokio::runtime::Builder::new_current_thread().build().unwrap();
		let case = Case { cont: *cont, tiles: &tiles, format: *f, comp: *cp, label: format!("{} set {spec:?} as {}/{:?}", cont.name(), ct::format_name(*f), cp), replay: spec_case(spec, *cont, *f, *cp) };
		roundtrip(ctxr, &rt, &wpath, &format!("p{i}"), &case);
	});
	ctx.outcome_n("(format, compression) pair cases", pair_cases.len() as u64);
	ctx.extra_add("wall_ms_after_pairs", (ctx.elapsed() * 1000.0) as u64);
	// 3. named families
	let mut fams: Vec<(String, TileMap, Vec<Cont>)> = vec![];
	let all = ct::ALL_CONT.to_vec();
	let mem = vec![Cont::Versatiles, Cont::Pmtiles];
	fams.push(("dense 130x130 at z=8 (16900 tiles, 4 blocks, PMTiles leaf directories)".into(), tilesets::family_dense(8, 60, 60, 130, 130, 12), if ctx.tier == Tier::Thorough { all.clone() } else { mem.clone() }));
	fams.push(("full pyramid z=0..4".into(), tilesets::family_full_pyramid(4), all.clone()));
	let mut bigp = TileMap::new();
	let bp = tilesets::big_payloads();
	bigp.insert((9, 255, 255), bp[0].clone());
	bigp.insert((9, 256, 255), bp[1].clone());
	bigp.insert((9, 256, 256), bp[0].clone());
	bigp.insert((2, 1, 1), vec![]);
	bigp.insert((2, 2, 1), vec![7]);
	fams.push(("70 KiB incompressible + 100 KiB compressible payloads, one empty tile".into(), bigp, all.clone()));
	let m31 = (1u32 << 31) - 1;
	let mut l31 = TileMap::new();
	// note: the versatiles/pmtiles writers enumerate every 256-block of a level's bounding box, so two tiles
	// at opposite corners of level 31 (2^46 blocks) cannot be written in finite memory; that is a cost, not a
	// functional claim of the property, and such sets are outside the bounded space explored here
	l31.insert((31, m31 - 300, m31 - 1), vec![1, 2, 3]);
	l31.insert((31, m31, m31), vec![4, 5]);
	fams.push(("level 31, two tiles in adjacent blocks at the far corner".into(), l31, all.clone()));
	// three tiles spanning a whole level: level 12 (256 blocks in the box) in quick, level 14 (4096 blocks) in thorough
	let lz = ctx.tier.pick(12u8, 14u8);
	let lm = (1u32 << lz) - 1;
	let mut l14 = TileMap::new();
	l14.insert((lz, 0, lm), vec![1]);
	l14.insert((lz, lm, 0), vec![2]);
	l14.insert((lz, lm / 2 - 191, lm / 2 - 191), vec![3]);
	fams.push((format!("level {lz}, three tiles spanning the whole level ({} blocks in the box)", ((lm as u64 + 1) / 256).pow(2)), l14, mem.clone()));
	let mut l31b = TileMap::new();
	l31b.insert((31, m31, m31), vec![4, 5]);
	l31b.insert((0, 0, 0), vec![9]);
	fams.push(("level 0 and level 31 corner".into(), l31b, all.clone()));
	let mut dups = TileMap::new();
	for x in 0..40u32 {
		dups.insert((7, x, 3), tilesets::payload_alphabet()[(x % 3) as usize + 1].clone());
	}
	fams.push(("40 tiles drawn from three 999/999/1000-byte payloads (de-duplication)".into(), dups, all.clone()));
	// sparse levels whose extreme rows / columns occur only in inner columns / rows (coverage derived from stored tiles)
	let mut diamond = TileMap::new();
	for (x, y) in [(2u32, 7u32), (3, 6), (3, 8), (4, 3), (4, 7), (5, 12), (6, 7), (7, 6), (8, 7), (9, 7), (10, 7)] {
		diamond.insert((4, x, y), format!("d {x} {y}").into_bytes());
	}
	for (x, y) in [(100u32, 50u32), (101, 20), (102, 50), (103, 90), (104, 50), (180, 50)] {
		diamond.insert((8, x, y), format!("e {x} {y}").into_bytes());
	}
	diamond.insert((2, 1, 1), b"z2".to_vec());
	fams.push(("diamond-shaped sparse levels (extreme rows only in inner columns), zoom gap".into(), diamond, all.clone()));
	// tiles of one block that differ in a single byte, the position sweeping over the payload (head, middle, tail):
	// anything that recognises equal tiles by less than their full content confuses them
	for (len, name) in [(300usize, "300-byte"), (999, "999-byte"), (2000, "2000-byte")] {
		let mut near = TileMap::new();
		let positions: Vec<usize> = (0..12).chain((len / 2 - 4)..(len / 2 + 4)).chain((len - 12)..len).collect();
		for (i, p) in positions.iter().enumerate() {
			let mut v: Vec<u8> = (0..len).map(|j| b"near-duplicate tile payload "[j % 28]).collect();
			v[*p] = b'#';
			near.insert((9, 300 + (i % 8) as u32, 300 + (i / 8) as u32), v);
		}
		near.insert((9, 310, 310), (0..len).map(|j| b"near-duplicate tile payload "[j % 28]).collect());
		fams.push((format!("{} tiles of one block, {name}, pairwise different in one byte (head / middle / tail)", near.len()), near, all.clone()));
	}
	// numbers on the borders of the variable-length integer encoding (PMTiles directories: tile-id deltas, lengths,
	// offsets): stored lengths 2^k - 1, 2^k, 2^k + 1 and pairs of tiles whose ids are 2^k - 1, 2^k, 2^k + 1 apart,
	// k = 7, 14, 21 (28 for ids), plus single tiles whose absolute id is such a number
	{
		let mut lens = TileMap::new();
		let mut i = 0u32;
		for k in [7u32, 14, 21] {
			for d in [-1i64, 0, 1] {
				let len = ((1i64 << k) + d) as usize;
				lens.insert((9, 300 + i, 300), tilesets::lcg_bytes(1000 + i as u64, len));
				i += 1;
			}
		}
		fams.push(("stored tile lengths 2^k - 1, 2^k, 2^k + 1 for k = 7, 14, 21".into(), lens, mem.clone()));
		for (k, z) in [(7u32, 4u8), (14, 8), (21, 11), (28, 15)] {
			for d in [-1i64, 0, 1] {
				let delta = ((1i64 << k) + d) as u64;
				let base = crate::codec::pm_tile_id(z, 0, 0);
				let mut pair = TileMap::new();
				pair.insert((z, 0, 0), vec![1, 2, 3]);
				if let Ok(key) = crate::codec::pm_id_to_zxy(base + delta) {
					pair.insert(key, vec![4, 5, 6, 7]);
					fams.push((format!("two tiles of level {z} whose PMTiles ids are {delta} apart"), pair, vec![Cont::Pmtiles]));
				}
				if let Ok(key) = crate::codec::pm_id_to_zxy(delta) {
					let mut single = TileMap::new();
					single.insert((0, 0, 0), vec![9]);
					single.insert(key, vec![8, 8]);
					fams.push((format!("tile with PMTiles id {delta} next to the level-0 tile"), single, vec![Cont::Pmtiles]));
				}
			}
		}
	}
	let famr = &fams;
	let jobs: Vec<(usize, Cont)> = fams.iter().enumerate().flat_map(|(i, f)| f.2.iter().map(move |c| (i, *c))).collect();
	let jr = &jobs;
	par_for(jobs.len(), |j| {
		let (i, cont) = jr[j];
		let (name, tiles, _) = &famr[i];
		let rt = tokio::runtime::Builder::new_current_thread().build().unwrap();
		let (f, cp) = default_pair(cont, true);
		let case = Case { cont, tiles, format: f, comp: cp, label: format!("{} family '{name}'", cont.name()), replay: json!({"kind": "family", "index": i, "cont": cont}) };
		let t0 = std::time::Instant::now();
		roundtrip(ctxr, &rt, &wpath, &format!("f{j}"), &case);
		if t0.elapsed().as_millis() > 2000 && std::env::var_os("VERIF_VERBOSE").is_some() {
			eprintln!("slow family: {} {} {:.1}s", cont.name(), name, t0.elapsed().as_secs_f64());
		}
		ctxr.nontrivial(fnv_str(&format!("family{i}")));
	});
	ctx.outcome_n("named family x format cases", jobs.len() as u64);
	ctx.extra_add("wall_ms_after_families", (ctx.elapsed() * 1000.0) as u64);
	// 4. PMTiles root/leaf switch: tile counts around the point where the root directory no longer fits into 16 KiB
	pm_switch_sweep(&ctx, &wpath);
	// two containers of one name written side by side at the same time (planet.versatiles and planet.pmtiles, as a
	// build script does with two conversions in parallel), also next to a stray file named planet.tmp: each result is
	// its own source's tile set
	{
		let rt = crate::memsource::runtime(2);
		let sets: Vec<TileMap> = vec![tilesets::family_dense(5, 3, 3, 12, 12, 700), tilesets::family_full_pyramid(3)];
		for (si, set) in sets.iter().enumerate() {
			for stray in [false, true] {
				let dir = wpath.join(format!("side{si}{}", stray as u8));
				let _ = std::fs::remove_dir_all(&dir);
				std::fs::create_dir_all(&dir).unwrap();
				if stray {
					std::fs::write(dir.join("planet.tmp"), b"left behind by something else").unwrap();
				}
				// different payloads per target, so that a mix-up shows
				let other: TileMap = set.iter().map(|(k, v)| (*k, v.iter().rev().copied().collect())).collect();
				let (f, cp) = default_pair(Cont::Versatiles, false);
				let mut a = MemSource::new("a", set.clone(), f, cp).with_yields(1);
				let mut b = MemSource::new("b", other.clone(), f, cp).with_yields(1);
				let (pa, pb) = (dir.join("planet.versatiles"), dir.join("planet.pmtiles"));
				ctx.eval();
				let case = json!({"kind": "side by side", "set": si, "stray_tmp_file": stray});
				let r = catch(|| rt.block_on(async { tokio::join!(versatiles_container::VersaTilesWriter::write_to_path(&mut a, &pa), versatiles_container::PMTilesWriter::write_to_path(&mut b, &pb)) }));
				match r {
					Err(p) => ctx.violation(&format!("writing two containers side by side panics at {}", panic_site(&p)), &p, case),
					Ok((ra, rb)) => {
						for (cont, res, path, want) in [(Cont::Versatiles, ra, &pa, set), (Cont::Pmtiles, rb, &pb, &other)] {
							match res {
								Err(e) => ctx.violation(&format!("{}: writer fails when another container of the same name is written next to it: {}", cont.name(), norm_msg(&format!("{e:#}"))), &format!("{e:#}"), case.clone()),
								Ok(()) => match std::fs::read(path).map_err(|e| e.to_string()).and_then(|bytes| ct::independent_decode(cont, &ct::Written::Bytes(bytes))) {
									Err(e) => ctx.violation(&format!("{}: file written next to another container of the same name does not follow the layout", cont.name()), &e, case.clone()),
									Ok(d) => {
										let expect: TileMap = want.iter().filter(|(_, v)| !v.is_empty()).map(|(k, v)| (*k, v.clone())).collect();
										if d.tiles != expect {
											ctx.violation(&format!("{}: independent decoder recovers another mapping from a file written next to another container of the same name", cont.name()), &format!("{} tiles decoded, {} written", d.tiles.len(), expect.len()), case.clone());
										}
									}
								},
							}
						}
					}
				}
				let _ = std::fs::remove_dir_all(&dir);
			}
		}
	}
	// 5. the target path already holds an earlier output
	rewrite_existing(&ctx, &wpath);
	ctx.extra("mbtiles_pool_tokens", json!(ct::POOL_TOKENS.load(std::sync::atomic::Ordering::Relaxed)));
	ctx.extra("mbtiles_pool_wait_ms_summed_over_threads", json!(ct::POOL_WAIT_MS.load(std::sync::atomic::Ordering::Relaxed)));
	ctx.exhaustive(true);
	drop(work);
}

/// Finds, per payload-length family, the tile count at which the writer switches from a single root
/// directory to leaf directories, and checks every count in a window around it (layout + round trip).
fn pm_switch_sweep(ctx: &Arc<Ctx>, work: &Path) {
	let ctxr: &Ctx = ctx;
	let families: Vec<(&str, usize)> = vec![("varying lengths", 0), ("constant length 5", 5)];
	for (fname, fixed) in families {
		let make = |n: usize| -> TileMap {
			let mut m = TileMap::new();
			let w = 256u32;
			for i in 0..n {
				let (x, y) = ((i as u32) % w, (i as u32) / w);
				let len = if fixed > 0 { fixed } else { 1 + ((i * 7919) % 251) };
				let mut v = vec![0u8; len];
				v[0] = (i % 251) as u8;
				if len > 1 {
					v[1] = (i / 251) as u8;
				}
				if len > 2 {
					v[2] = (i / 63001) as u8;
				}
				m.insert((10, x, y), v);
			}
			m
		};
		let rt = tokio::runtime::Builder::new_current_thread().build().unwrap();
		let leaf_levels = |n: usize| -> Option<usize> {
			let mut src = MemSource::new("mem", make(n), TileFormat::PNG, TileCompression::Uncompressed);
			match ct::write(&rt, Cont::Pmtiles, &mut src, work, "sw") {
				Ok(Written::Bytes(b)) => codec::pm_decode(&b).ok().map(|d| d.leaf_levels),
				_ => None,
			}
		};
		// binary search for the smallest n with leaf directories in [256, 16384]
		let (mut lo, mut hi) = (256usize, 16384usize);
		if leaf_levels(hi) != Some(1) {
			ctxr.outcome(&format!("pmtiles switch sweep '{fname}': no leaf directories up to 16384 tiles"));
			continue;
		}
		while lo + 1 < hi {
			let mid = (lo + hi) / 2;
			if leaf_levels(mid).unwrap_or(0) >= 1 {
				hi = mid;
			} else {
				lo = mid;
			}
		}
		let switch = hi;
		let window = ctxr.tier.pick(24usize, 400usize);
		let mut ns: Vec<usize> = (switch.saturating_sub(window)..=switch + 4).collect();
		// counts around whole multiples of the writer's leaf size (4096 entries), where the last leaf is short / full / one entry
		for k in 1..=5usize {
			for d in if ctxr.tier == Tier::Quick { vec![0i64, 1] } else { vec![-1i64, 0, 1, 2] } {
				let n = (k as i64 * 4096 + d) as usize;
				if n >= switch {
					ns.push(n);
				}
			}
		}
		ns.sort();
		ns.dedup();
		let nsr = &ns;
		par_for(ns.len(), |i| {
			let n = nsr[i];
			let tiles = make(n);
			let rt = tokio::runtime::Builder::new_current_thread().build().unwrap();
			let case = Case { cont: Cont::Pmtiles, tiles: &tiles, format: TileFormat::PNG, comp: TileCompression::Uncompressed, label: format!("pmtiles root/leaf switch family '{fname}' with {n} tiles (switch at {switch})"), replay: json!({"kind": "pm-switch", "family": fname, "n": n}) };
			// layout: sections inside the first 16 KiB must not overlap what follows
			let mut src = MemSource::new("mem", tiles.clone(), TileFormat::PNG, TileCompression::Uncompressed);
			if let Ok(Written::Bytes(b)) = ct::write(&rt, Cont::Pmtiles, &mut src, work, &format!("sw{i}")) {
				if b.len() >= 127 {
					let f = |k: usize| u64::from_le_bytes(b[8 + 8 * k..16 + 8 * k].try_into().unwrap());
					let mut secs = vec![("header", 0u64, 127u64), ("root directory", f(0), f(1)), ("metadata", f(2), f(3)), ("leaf directories", f(4), f(5)), ("tile data", f(6), f(7))];
					secs.retain(|s| s.2 > 0);
					secs.sort_by_key(|s| s.1);
					for w in secs.windows(2) {
						if w[0].1 + w[0].2 > w[1].1 {
							ctxr.violation("pmtiles: sections of the written file overlap", &format!("{}: {} [{}+{}] overlaps {} [{}+{}]", case.label, w[0].0, w[0].1, w[0].2, w[1].0, w[1].1, w[1].2), case.replay.clone());
						}
					}
					if f(0) + f(1) > 16384 {
						ctxr.violation("pmtiles: root directory extends beyond the first 16 KiB", &format!("{}: root directory [{}+{}]", case.label, f(0), f(1)), case.replay.clone());
					}
				}
			}
			roundtrip(ctxr, &rt, work, &format!("swr{i}"), &case);
			ctxr.nontrivial(fnv_str(&format!("pmswitch{fname}{n}")));
		});
		ctxr.outcome_n(&format!("pmtiles switch sweep '{fname}': switch at {switch} tiles, counts checked"), ns.len() as u64);
	}
}

/// Writing to a path that already holds an earlier output of the same format: afterwards the container holds the
/// new tile set and nothing else (the directory writer, which merges into an existing directory, is a recorded
/// finding). Earlier outputs: a superset, a shifted set,
/// the same coordinates with other payloads of the same sizes.
fn rewrite_existing(ctx: &Arc<Ctx>, work: &Path) {
	let mk = |coords: &[Key], tag: &str, len: usize| -> TileMap {
		coords.iter().map(|k| (*k, format!("{tag} {}/{}/{} {}", k.0, k.1, k.2, "x".repeat(len)).into_bytes())).collect()
	};
	let base: Vec<Key> = vec![(0, 0, 0), (1, 0, 0), (1, 1, 1), (3, 2, 2), (3, 3, 2), (9, 255, 256), (9, 256, 256)];
	let new_set = mk(&base[1..6], "new", 40);
	let earlier: Vec<(&str, TileMap)> = vec![
		("a superset of the new coordinates (other zoom levels, wider boxes)", mk(&base, "old", 40)),
		("a shifted set", mk(&[(1, 1, 0), (3, 0, 0), (3, 2, 2), (4, 15, 15)], "old", 40)),
		("the same coordinates with other payloads of the same sizes", mk(&base[1..6], "old", 40)),
		("the same coordinates with longer payloads", mk(&base[1..6], "old", 300)),
	];
	let mut jobs = vec![];
	for cont in ct::ALL_CONT {
		for e in 0..earlier.len() {
			for alt in [false, true] {
				jobs.push((cont, e, alt));
			}
		}
	}
	let (ctxr, jr, er, nr): (&Ctx, _, _, _) = (ctx, &jobs, &earlier, &new_set);
	par_for(jobs.len(), |ji| {
		let (cont, e, alt) = jr[ji];
		let (ename, etiles) = &er[e];
		let rt = tokio::runtime::Builder::new_current_thread().build().unwrap();
		let (f, cp) = default_pair(cont, alt);
		let path = work.join(format!("rw{ji}.{}", ct::ext(cont)));
		let _ = std::fs::remove_file(&path);
		let _ = std::fs::remove_dir_all(&path);
		let cn = cont.name();
		let label = format!("{cn} {}/{cp:?}: new set written to a path holding {ename}", ct::format_name(f));
		let case = json!({"kind": "rewrite", "cont": cont, "earlier": ename, "alt": alt});
		ctxr.eval();
		ctxr.transition(2);
		let mut first = MemSource::new("old", etiles.clone(), f, cp).with_fast_stream();
		if let Err(e) = ct::write_to_existing_path(&rt, cont, &mut first, &path) {
			return ctxr.violation(&format!("{cn}: writer fails: {}", norm_msg(&e)), &format!("{label} (first write): {e}"), case);
		}
		let mut second = MemSource::new("new", nr.clone(), f, cp).with_fast_stream();
		let w = match ct::write_to_existing_path(&rt, cont, &mut second, &path) {
			Ok(w) => w,
			Err(e) => return ctxr.violation(&format!("{cn}: writer fails on a path that holds an earlier output: {}", norm_msg(&e)), &format!("{label}: {e}"), case),
		};
		ctxr.trace(1);
		let judge = |got: &TileMap, via: &str| {
			for (k, v) in nr.iter() {
				match got.get(k) {
					Some(g) if g == v => {}
					Some(g) => ctxr.violation(&format!("{cn}: after writing over an earlier output a tile still carries the earlier payload ({via})"), &format!("{label}: {k:?} holds {:?}", String::from_utf8_lossy(&g[..g.len().min(30)])), case.clone()),
					None => ctxr.violation(&format!("{cn}: after writing over an earlier output a tile of the new set is missing ({via})"), &format!("{label}: {k:?}"), case.clone()),
				}
			}
			if let Some((k, _)) = got.iter().find(|(k, _)| !nr.contains_key(*k)) {
				if cont == Cont::Directory {
					// the directory writer only adds and overwrites files; every other writer replaces its target
					ctxr.violation("directory: tiles of an earlier export at the destination survive a new export", &format!("{label}: {k:?} ({via})"), case.clone());
				} else {
					ctxr.violation(&format!("{cn}: after writing over an earlier output the container holds tiles of the earlier output ({via})"), &format!("{label}: {k:?}"), case.clone());
				}
			}
		};
		match ct::independent_decode(cont, &w) {
			Ok(d) => judge(&d.tiles, "independent decoder"),
			Err(e) => ctxr.violation(&format!("{cn}: written file does not follow the published layout: {}", norm_msg(&e)), &format!("{label}: {e}"), case.clone()),
		}
		match ct::open(&rt, cont, &w) {
			Err(e) => ctxr.violation(&format!("{cn}: reader cannot open what the writer wrote: {}", norm_msg(&e)), &format!("{label}: {e}"), case.clone()),
			Ok(r) => {
				let mut probes: Vec<Key> = nr.keys().copied().collect();
				probes.extend(etiles.keys().copied());
				probes.sort();
				probes.dedup();
				match catch(|| memsource::lookups(&rt, r.as_ref(), &probes)) {
					Ok(Ok(got)) => judge(&got, "lookups"),
					Ok(Err(e)) => ctxr.violation(&format!("{cn}: lookup fails: {}", norm_msg(&e)), &format!("{label}: {e}"), case.clone()),
					Err(p) => ctxr.violation(&format!("{cn}: lookup panics at {}", panic_site(&p)), &format!("{label}: {p}"), case.clone()),
				}
			}
		}
		ct::cleanup(&w);
		ctxr.nontrivial(fnv_str(&format!("rewrite{ji}")));
	});
	ctx.outcome_n("rewrites over an earlier output (format x earlier content x (format, compression) pair)", jobs.len() as u64);
}

pub fn replay(ctx: Arc<Ctx>, case: &Value) {
	let work = ct::WorkDir::new("c01r");
	let rt = tokio::runtime::Builder::new_current_thread().build().unwrap();
	match case["kind"].as_str().unwrap_or("") {
		"bfs" => {
			let spec: tilesets::SetSpec = serde_json::from_value(case["spec"].clone()).unwrap();
			let cont: Cont = serde_json::from_value(case["cont"].clone()).unwrap();
			let f = TileFormat::parse_str(case["format"].as_str().unwrap()).unwrap();
			let cp = ct::comp_from_id(case["comp"].as_u64().unwrap() as u8);
			let tiles = tilesets::materialize(&spec);
			for i in 0..2 {
				let c = Case { cont, tiles: &tiles, format: f, comp: cp, label: format!("replay {spec:?}"), replay: case.clone() };
				roundtrip(&ctx, &rt, &work.0, &format!("r{i}"), &c);
			}
			println!("  tiles: {}", tiles_json(&tiles));
		}
		k => println!("  case kind '{k}' is part of a named family; re-run ./check C01 quick"),
	}
}
