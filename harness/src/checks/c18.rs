//! C18 — every well-formed pipeline text parses to the pipeline it describes.
//!
//! (1) positive space: syntax trees up to a nesting/width bound, rendered canonically and with
//! 0, 1 and 2 deviations (whitespace variants at optional-whitespace sites, quoting of bare
//! values); parse(render(t)) must equal t. (2) differential space: every string up to a length
//! bound over an 11-symbol alphabet against a reference recursive-descent parser of the
//! documented grammar. (3) factory: unknown names, missing / mistyped / out-of-range / wrong-arity
//! parameters must be errors.

use crate::containers as ct;
use crate::ctx::{fnv_str, Ctx, Tier};
use crate::memsource::{MemSource, TileMap};
use crate::par::{catch, panic_site, par_for};
use crate::pipeline;
use serde_json::{json, Value};
use std::collections::BTreeMap;
use std::sync::Arc;
use versatiles_core::types::*;
use versatiles_pipeline::verif_hooks::{parse_vpl, VPLNode, VPLPipeline};

// ---------------------------------------------------------------------------------------------
// trees

#[derive(Clone, Debug, PartialEq, Eq)]
pub struct Node {
	pub name: String,
	pub props: Vec<(String, Vec<String>)>,
	pub sources: Vec<Vec<Node>>,
}

fn to_tree(p: &VPLPipeline) -> Vec<Node> {
	p.pipeline.iter().map(node_tree).collect()
}
fn node_tree(n: &VPLNode) -> Node {
	Node { name: n.name.clone(), props: n.properties.iter().map(|(k, v)| (k.clone(), v.clone())).collect(), sources: n.sources.iter().map(to_tree).collect() }
}
fn canon(p: &[Node]) -> Vec<Node> {
	p.iter()
		.map(|n| {
			let mut props = n.props.clone();
			props.sort();
			Node { name: n.name.clone(), props, sources: n.sources.iter().map(|s| canon(s)).collect() }
		})
		.collect()
}

// ---------------------------------------------------------------------------------------------
// reference parser of the documented grammar

struct P<'a> {
	s: &'a [char],
	i: usize,
	lenient: bool,
	dontcare: bool,
	repeated: bool,
}

impl P<'_> {
	fn peek(&self) -> Option<char> {
		self.s.get(self.i).copied()
	}
	fn ws(&mut self) -> usize {
		let st = self.i;
		while matches!(self.peek(), Some(' ' | '\t' | '\n' | '\r')) {
			self.i += 1;
		}
		self.i - st
	}
	fn ident(&mut self) -> Option<String> {
		let st = self.i;
		match self.peek() {
			Some(c) if c.is_ascii_alphabetic() => self.i += 1,
			_ => return None,
		}
		while matches!(self.peek(), Some(c) if c.is_ascii_alphanumeric() || c == '_' || c == '-') {
			self.i += 1;
		}
		Some(self.s[st..self.i].iter().collect())
	}
	fn bare(&mut self) -> Option<String> {
		let st = self.i;
		while matches!(self.peek(), Some(c) if c.is_ascii_alphanumeric() || c == '.' || c == '-' || c == '_') {
			self.i += 1;
		}
		if self.i == st {
			None
		} else {
			Some(self.s[st..self.i].iter().collect())
		}
	}
	fn quoted(&mut self) -> Result<Option<String>, ()> {
		if self.peek() != Some('"') {
			return Ok(None);
		}
		self.i += 1;
		let mut out = String::new();
		loop {
			match self.peek() {
				None => return Err(()),
				Some('"') => {
					self.i += 1;
					return Ok(Some(out));
				}
				Some('\\') => {
					self.i += 1;
					match self.peek() {
						Some('\\') => out.push('\\'),
						Some('"') => out.push('"'),
						Some('n') => out.push('\n'),
						Some('t') => out.push('\t'),
						_ => return Err(()),
					}
					self.i += 1;
				}
				Some(c) => {
					out.push(c);
					self.i += 1;
				}
			}
		}
	}
	fn item(&mut self) -> Result<Option<String>, ()> {
		if let Some(q) = self.quoted()? {
			return Ok(Some(q));
		}
		Ok(self.bare())
	}
	fn value(&mut self) -> Result<Option<Vec<String>>, ()> {
		if let Some(v) = self.item()? {
			return Ok(Some(vec![v]));
		}
		if self.peek() != Some('[') {
			return Ok(None);
		}
		self.i += 1;
		self.ws();
		let mut items = vec![];
		loop {
			match self.item()? {
				Some(v) => items.push(v),
				None => {
					// empty list or trailing comma: not documented
					if self.lenient {
						self.dontcare = true;
					} else {
						return Err(());
					}
					self.ws();
					if self.peek() == Some(']') {
						self.i += 1;
						return Ok(Some(items));
					}
					return Err(());
				}
			}
			self.ws();
			match self.peek() {
				Some(',') => {
					self.i += 1;
					self.ws();
				}
				Some(']') => {
					self.i += 1;
					return Ok(Some(items));
				}
				_ => return Err(()),
			}
		}
	}
	fn node(&mut self) -> Result<Node, ()> {
		self.ws();
		let name = self.ident().ok_or(())?;
		let mut props: Vec<(String, Vec<String>)> = vec![];
		loop {
			let save = self.i;
			let n = self.ws();
			let Some(key) = (if n > 0 { self.ident() } else { None }) else {
				self.i = save;
				break;
			};
			self.ws();
			if self.peek() != Some('=') {
				return Err(());
			}
			self.i += 1;
			self.ws();
			let v = self.value()?.ok_or(())?;
			if let Some(p) = props.iter_mut().find(|p| p.0 == key) {
				// repeated key: the documentation does not say whether it is allowed, but "exactly those parameters" rules
				// out dropping one of the values silently: a parser either rejects the text or keeps every value, in the
				// written order, under that key (which is how the implementation represents it)
				self.repeated = true;
				p.1.extend(v);
			} else {
				props.push((key, v));
			}
		}
		self.ws();
		let mut sources = vec![];
		if self.peek() == Some('[') {
			self.i += 1;
			self.ws();
			if self.peek() == Some(']') {
				// empty source list: not documented
				if !self.lenient {
					return Err(());
				}
				self.dontcare = true;
				self.i += 1;
			} else {
				loop {
					sources.push(self.pipeline()?);
					match self.peek() {
						Some(',') => self.i += 1,
						Some(']') => {
							self.i += 1;
							break;
						}
						_ => return Err(()),
					}
				}
			}
		}
		self.ws();
		Ok(Node { name, props, sources })
	}
	fn pipeline(&mut self) -> Result<Vec<Node>, ()> {
		self.ws();
		let mut nodes = vec![self.node()?];
		while self.peek() == Some('|') {
			self.i += 1;
			nodes.push(self.node()?);
		}
		self.ws();
		Ok(nodes)
	}
}

#[derive(Debug, PartialEq)]
pub enum RefResult {
	Accept(Vec<Node>),
	Reject,
	DontCare,
	/// a parameter name occurs more than once: rejected, or accepted with every value kept (this tree)
	AcceptOrReject(Vec<Node>),
}

pub fn reference_parse(text: &str) -> RefResult {
	let chars: Vec<char> = text.chars().collect();
	let mut strict = P { s: &chars, i: 0, lenient: false, dontcare: false, repeated: false };
	if let Ok(t) = strict.pipeline() {
		if strict.i == chars.len() {
			return if strict.dontcare { RefResult::DontCare } else if strict.repeated { RefResult::AcceptOrReject(t) } else { RefResult::Accept(t) };
		}
	}
	let mut len = P { s: &chars, i: 0, lenient: true, dontcare: false, repeated: false };
	match len.pipeline() {
		Ok(_) if len.i == chars.len() => RefResult::DontCare,
		_ => {
			if len.dontcare || strict.dontcare || len.repeated || strict.repeated {
				// rejected after passing through an undocumented construct: cannot be judged
				RefResult::DontCare
			} else {
				RefResult::Reject
			}
		}
	}
}

fn real_parse(text: &str) -> Result<Result<Vec<Node>, String>, String> {
	catch(|| parse_vpl(text).map(|p| to_tree(&p)).map_err(|e| e.to_string()))
}

// ---------------------------------------------------------------------------------------------
// rendering with deviations

#[derive(Clone)]
enum Tok {
	Lit(String),
	/// optional whitespace site (canonical: index of the canonical variant)
	Ws(&'static [&'static str]),
	/// a bare value that may also be written quoted
	Bare(String),
}

fn quote(v: &str) -> String {
	let mut s = String::from("\"");
	for c in v.chars() {
		match c {
			'\\' => s.push_str("\\\\"),
			'"' => s.push_str("\\\""),
			'\n' => s.push_str("\\n"),
			'\t' => s.push_str("\\t"),
			c => s.push(c),
		}
	}
	s.push('"');
	s
}
fn is_bare(v: &str) -> bool {
	!v.is_empty() && v.chars().all(|c| c.is_ascii_alphanumeric() || c == '.' || c == '-' || c == '_')
}

const OPT: &[&str] = &["", " ", "\n", "\t "];
const OPT_SP: &[&str] = &[" ", "", "\n", "\t "];
const REQ: &[&str] = &[" ", "\n", "\t ", "  "];

fn toks_value(v: &[String], list: bool, out: &mut Vec<Tok>) {
	let item = |s: &String, out: &mut Vec<Tok>| {
		if is_bare(s) {
			out.push(Tok::Bare(s.clone()));
		} else {
			out.push(Tok::Lit(quote(s)));
		}
	};
	if !list {
		item(&v[0], out);
		return;
	}
	out.push(Tok::Lit("[".into()));
	out.push(Tok::Ws(OPT));
	for (i, s) in v.iter().enumerate() {
		if i > 0 {
			out.push(Tok::Ws(OPT));
			out.push(Tok::Lit(",".into()));
			out.push(Tok::Ws(OPT_SP));
		}
		item(s, out);
	}
	out.push(Tok::Ws(OPT));
	out.push(Tok::Lit("]".into()));
}

fn toks_pipeline(p: &[(Node, Vec<bool>)], out: &mut Vec<Tok>) {
	for (i, (n, lists)) in p.iter().enumerate() {
		if i > 0 {
			out.push(Tok::Ws(OPT_SP));
			out.push(Tok::Lit("|".into()));
			out.push(Tok::Ws(OPT_SP));
		}
		out.push(Tok::Lit(n.name.clone()));
		for (j, (k, v)) in n.props.iter().enumerate() {
			out.push(Tok::Ws(REQ));
			out.push(Tok::Lit(k.clone()));
			out.push(Tok::Ws(OPT));
			out.push(Tok::Lit("=".into()));
			out.push(Tok::Ws(OPT));
			toks_value(v, lists[j], out);
		}
		if !n.sources.is_empty() {
			out.push(Tok::Ws(OPT_SP));
			out.push(Tok::Lit("[".into()));
			out.push(Tok::Ws(OPT_SP));
			for (si, s) in n.sources.iter().enumerate() {
				if si > 0 {
					out.push(Tok::Ws(OPT));
					out.push(Tok::Lit(",".into()));
					out.push(Tok::Ws(OPT_SP));
				}
				let inner: Vec<(Node, Vec<bool>)> = s.iter().map(|n| (n.clone(), n.props.iter().map(|p| p.1.len() != 1).collect())).collect();
				toks_pipeline(&inner, out);
			}
			out.push(Tok::Ws(OPT_SP));
			out.push(Tok::Lit("]".into()));
		}
	}
}

fn render(toks: &[Tok], dev: &[(usize, usize)]) -> String {
	let mut s = String::new();
	for (i, t) in toks.iter().enumerate() {
		let d = dev.iter().find(|d| d.0 == i).map(|d| d.1);
		match t {
			Tok::Lit(l) => s.push_str(l),
			Tok::Ws(vars) => s.push_str(vars[d.unwrap_or(0)]),
			Tok::Bare(v) => {
				if d.is_some() {
					s.push_str(&quote(v));
				} else {
					s.push_str(v);
				}
			}
		}
	}
	s
}

fn node_shapes() -> Vec<(Node, Vec<bool>)> {
	let n = |name: &str, props: Vec<(&str, Vec<&str>, bool)>| -> (Node, Vec<bool>) {
		(Node { name: name.into(), props: props.iter().map(|p| (p.0.to_string(), p.1.iter().map(|s| s.to_string()).collect())).collect(), sources: vec![] }, props.iter().map(|p| p.2).collect())
	};
	vec![
		n("a", vec![]),
		n("from_x", vec![("k", vec!["v1.5-x_"], false)]),
		n("b-2_c", vec![("k", vec!["a b"], false)]),
		n("a", vec![("k", vec!["q\"uote"], false), ("k2", vec!["back\\slash"], false)]),
		n("from_x", vec![("k2", vec!["line\nbreak"], false)]),
		n("a", vec![("k", vec!["tab\there"], false)]),
		n("b-2_c", vec![("k", vec!["x"], true)]),
		n("a", vec![("k", vec!["x", "y z"], true), ("k2", vec!["7"], false)]),
		n("from_x", vec![("k", vec!["1", "-2.5"], true)]),
		n("a", vec![("k", vec!["| , [ ] = #"], false)]),
		n("Z9", vec![("A-b_1", vec!["\u{00fc}\u{1F600}"], false)]),
		n("a", vec![("k", vec!["true"], false), ("k2", vec!["a", "b", "c", "d"], true)]),
		// the empty text as a quoted value and as a list element
		n("a", vec![("k", vec![""], false), ("k2", vec!["", "x", ""], true)]),
	]
}

fn positive_space(ctx: &Arc<Ctx>) {
	let shapes = node_shapes();
	let ns = shapes.len();
	// nested pipelines used as sources
	let nested: Vec<Vec<Node>> = vec![vec![shapes[0].0.clone()], vec![shapes[1].0.clone(), shapes[7].0.clone()], vec![shapes[3].0.clone()], vec![shapes[6].0.clone(), shapes[0].0.clone(), shapes[9].0.clone()], vec![Node { name: "from_y".into(), props: vec![], sources: vec![vec![shapes[2].0.clone()], vec![shapes[0].0.clone(), shapes[5].0.clone()]] }]];
	let mut source_lists: Vec<Vec<Vec<Node>>> = vec![vec![]];
	for a in &nested {
		source_lists.push(vec![a.clone()]);
		for b in &nested {
			source_lists.push(vec![a.clone(), b.clone()]);
		}
	}
	let mut pipelines: Vec<Vec<usize>> = vec![];
	for a in 0..ns {
		pipelines.push(vec![a]);
		for b in 0..ns {
			pipelines.push(vec![a, b]);
			if ctx.tier == Tier::Thorough || (a + b) % 3 == 0 {
				for c in 0..ns {
					pipelines.push(vec![a, b, c]);
				}
			}
		}
	}
	let mut trees: Vec<Vec<(Node, Vec<bool>)>> = vec![];
	for (pi, p) in pipelines.iter().enumerate() {
		let srcs: Vec<&Vec<Vec<Node>>> = if p.len() == 1 || ctx.tier == Tier::Thorough { source_lists.iter().collect() } else { vec![&source_lists[0], &source_lists[1 + pi % (source_lists.len() - 1)]] };
		for sl in srcs {
			let mut t: Vec<(Node, Vec<bool>)> = p.iter().map(|i| shapes[*i].clone()).collect();
			t[0].0.sources = sl.clone();
			trees.push(t);
		}
	}
	ctx.state(trees.len() as u64);
	let (ctxr, tr): (&Ctx, _) = (ctx, &trees);
	let two_dev_limit = ctx.tier.pick(1500usize, 40_000usize);
	par_for(trees.len(), |ti| {
		let t = &tr[ti];
		let want = canon(&t.iter().map(|n| n.0.clone()).collect::<Vec<_>>());
		let mut toks = vec![Tok::Ws(OPT)];
		toks_pipeline(t, &mut toks);
		toks.push(Tok::Ws(OPT));
		let sites: Vec<(usize, usize)> = toks.iter().enumerate().filter_map(|(i, t)| match t {
			Tok::Ws(v) => Some((i, v.len() - 1)),
			Tok::Bare(_) => Some((i, 1)),
			_ => None,
		}).collect();
		let check = |dev: &[(usize, usize)]| {
			let text = render(&toks, dev);
			ctxr.eval();
			ctxr.transition(1);
			let case = json!({"kind": "render", "text": text});
			match real_parse(&text) {
				Err(p) => ctxr.violation(&format!("parser panics at {}", panic_site(&p)), &format!("{text:?}: {p}"), case),
				Ok(Err(e)) => ctxr.violation("a well-formed pipeline text is rejected", &format!("{text:?} ({} deviations from the canonical rendering): {}", dev.len(), e.lines().next().unwrap_or("")), case),
				Ok(Ok(got)) => {
					if canon(&got) != want {
						ctxr.violation("a well-formed pipeline text parses to another pipeline", &format!("{text:?}: got {:?}, expected {want:?}", canon(&got)), case);
					}
				}
			}
		};
		check(&[]);
		for &(i, nv) in &sites {
			for v in 1..=nv {
				check(&[(i, v)]);
			}
		}
		if ti < two_dev_limit {
			for (a, &(i, ni)) in sites.iter().enumerate() {
				for &(j, nj) in &sites[a + 1..] {
					for vi in 1..=ni {
						for vj in 1..=nj {
							check(&[(i, vi), (j, vj)]);
						}
					}
				}
			}
		}
		ctxr.trace(1);
		if !t[0].0.sources.is_empty() || t.len() > 1 {
			ctxr.nontrivial(fnv_str(&format!("{ti}")));
		}
	});
	ctx.outcome_n("syntax trees rendered", trees.len() as u64);
	let mut toks = vec![];
	toks_pipeline(&trees[trees.len() / 2], &mut toks);
	ctx.sample(json!({"canonical_rendering": render(&toks, &[]), "with_two_deviations": render(&toks, &[(1, 2), (3, 1)])}));
}

// ---------------------------------------------------------------------------------------------
// differential space

const ALPHA: [char; 11] = ['a', '1', 'k', '=', '"', '\\', '[', ']', ',', '|', ' '];

fn differential(ctx: &Arc<Ctx>) {
	let maxlen = ctx.tier.pick(6usize, 7usize);
	let ctxr: &Ctx = ctx;
	// split by the first two symbols
	let prefixes: Vec<(usize, usize)> = (0..11).flat_map(|a| (0..11).map(move |b| (a, b))).collect();
	let pr = &prefixes;
	let agree_accept = std::sync::atomic::AtomicU64::new(0);
	let agree_reject = std::sync::atomic::AtomicU64::new(0);
	let dontcare = std::sync::atomic::AtomicU64::new(0);
	let (aa, ar, dc) = (&agree_accept, &agree_reject, &dontcare);
	let judge = |text: &str| {
		ctxr.eval();
		let r = reference_parse(text);
		if r == RefResult::DontCare {
			dc.fetch_add(1, std::sync::atomic::Ordering::Relaxed);
			return;
		}
		let case = json!({"kind": "text", "text": text});
		match (real_parse(text), r) {
			(Err(p), _) => ctxr.violation(&format!("parser panics at {}", panic_site(&p)), &format!("{text:?}: {p}"), case),
			(Ok(Ok(got)), RefResult::Accept(want)) => {
				if canon(&got) != canon(&want) {
					ctxr.violation("text in the documented syntax parses to another pipeline than the reference parser's", &format!("{text:?}: got {:?}, reference {:?}", canon(&got), canon(&want)), case);
				}
				aa.fetch_add(1, std::sync::atomic::Ordering::Relaxed);
			}
			(Ok(Err(e)), RefResult::Accept(want)) => ctxr.violation("text in the documented syntax is rejected", &format!("{text:?}: reference parses {want:?}; error: {}", e.lines().next().unwrap_or("")), case),
			(Ok(Ok(got)), RefResult::Reject) => ctxr.violation("text outside the documented syntax is accepted", &format!("{text:?}: parsed as {got:?}"), case),
			(Ok(Err(_)), RefResult::Reject) => {
				ar.fetch_add(1, std::sync::atomic::Ordering::Relaxed);
			}
			(Ok(Ok(got)), RefResult::AcceptOrReject(want)) => {
				if canon(&got) != canon(&want) {
					ctxr.violation("a parameter written more than once is accepted but one of its values is dropped or reordered", &format!("{text:?}: got {:?}, every value kept would be {:?}", canon(&got), canon(&want)), case);
				}
			}
			(Ok(Err(_)), RefResult::AcceptOrReject(_)) => {}
			(_, RefResult::DontCare) => {}
		}
	};
	// parameter names written more than once: every sequence of 2 and 3 parameters over two names and four value forms
	{
		let keys = ["k", "k2"];
		let vals = ["1", "\"x y\"", "[1,2]", "[3]"];
		let mut n = 0u64;
		for len in 2..=3usize {
			let combos = (keys.len() * vals.len()).pow(len as u32);
			for c in 0..combos {
				let mut c2 = c;
				let mut parts = vec![];
				let mut used = vec![];
				for _ in 0..len {
					let kv = c2 % (keys.len() * vals.len());
					c2 /= keys.len() * vals.len();
					parts.push(format!("{}={}", keys[kv % keys.len()], vals[kv / keys.len()]));
					used.push(kv % keys.len());
				}
				used.sort();
				used.dedup();
				if used.len() == len {
					continue; // no repetition
				}
				judge(&format!("a {}", parts.join(" ")));
				judge(&format!("from_x | a {} | b", parts.join("\n")));
				n += 2;
			}
		}
		ctx.outcome_n("texts that write a parameter name more than once", n);
	}
	// lengths 0 and 1
	judge("");
	for c in ALPHA {
		judge(&c.to_string());
	}
	par_for(prefixes.len(), |pi| {
		let (a, b) = pr[pi];
		let mut buf: Vec<usize> = vec![a, b];
		// iterative enumeration of all extensions up to maxlen
		fn rec(buf: &mut Vec<usize>, maxlen: usize, judge: &dyn Fn(&str)) {
			let text: String = buf.iter().map(|i| ALPHA[*i]).collect();
			judge(&text);
			if buf.len() < maxlen {
				for c in 0..11 {
					buf.push(c);
					rec(buf, maxlen, judge);
					buf.pop();
				}
			}
		}
		rec(&mut buf, maxlen, &judge);
	});
	let ld = std::sync::atomic::Ordering::Relaxed;
	let (a, r, d) = (agree_accept.load(ld), agree_reject.load(ld), dontcare.load(ld));
	ctx.outcome_n("differential: both accept with equal trees", a);
	ctx.outcome_n("differential: both reject", r);
	ctx.outcome_n("differential: undocumented construct (not judged)", d);
	ctx.nontrivial_distinct(a);
	ctx.extra("differential_space", json!({"alphabet": ALPHA.iter().collect::<String>(), "max_length": maxlen, "strings": a + r + d}));
	// single-character deletions / insertions of valid texts
	let valid = ["from_x k=\"a b\" | a k2=[1,\"y z\"] [ a | b-2_c k=v, from_x ]", "a k = v\n| b\t[ c k=[ x , y ] ]"];
	for v in valid {
		let chars: Vec<char> = v.chars().collect();
		for i in 0..chars.len() {
			let mut d = chars.clone();
			d.remove(i);
			judge(&d.iter().collect::<String>());
			for c in ALPHA {
				let mut ins = chars.clone();
				ins.insert(i, c);
				judge(&ins.iter().collect::<String>());
			}
		}
	}
}

// ---------------------------------------------------------------------------------------------
// factory

fn factory_cases(ctx: &Arc<Ctx>) {
	let work = ct::WorkDir::new("c18");
	std::fs::write(work.0.join("d.csv"), "data_id,v\nx,1\n").unwrap();
	let mut tiles = TileMap::new();
	tiles.insert((0, 0, 0), crate::mvt::encode_tile(&super::c10::catalogue()[0].1));
	let fac = pipeline::factory(vec![MemSource::new("m", tiles.clone(), TileFormat::PBF, TileCompression::Uncompressed), MemSource::new("n", tiles, TileFormat::PBF, TileCompression::Uncompressed)], &work.0);
	let rt = crate::memsource::runtime(1);
	let src = "from_container filename=\"mem:0\"";
	let up = "vectortiles_update_properties data_source_path=\"d.csv\" layer_name=\"a\" id_field_tiles=\"id\" id_field_data=\"data_id\"";
	let valid: Vec<String> = vec![
		src.into(),
		"from_debug format=pbf".into(),
		"from_debug format=png fast=true".into(),
		format!("{src} | filter_zoom min=1 max=3"),
		format!("{src} | filter_bbox bbox=[-10,-10,10,10]"),
		format!("from_overlayed [ {src}, from_container filename=\"mem:1\" ]"),
		format!("from_vectortiles_merged [ {src}, from_container filename=\"mem:1\" ]"),
		format!("{src} | {up}"),
		format!("{src} | {up} replace_properties=true remove_non_matching=true include_id=true"),
	];
	for v in &valid {
		ctx.eval();
		if let Err(e) = pipeline::build_op(&rt, &fac, v) {
			ctx.violation("a valid pipeline cannot be built", &format!("{v}: {e}"), json!({"kind": "factory", "vpl": v}));
		}
	}
	let mut invalid: Vec<String> = vec![
		"from_nowhere".into(),
		"unknown_op filename=\"mem:0\"".into(),
		format!("{src} | unknown_transform"),
		format!("{src} | from_debug format=pbf"),
		"filter_zoom min=1".into(),
		"from_container".into(),
		"from_container filename=[\"mem:0\",\"mem:1\"]".into(),
		"from_container filename=\"does-not-exist.versatiles\"".into(),
		"from_debug".into(),
		"from_debug format=xyz".into(),
		"from_debug format=[pbf,png]".into(),
		format!("{src} | filter_bbox"),
		format!("{src} | filter_bbox bbox=[1,2,3]"),
		format!("{src} | filter_bbox bbox=[1,2,3,4,5]"),
		format!("{src} | filter_bbox bbox=[a,b,c,d]"),
		format!("{src} | filter_bbox bbox=7"),
		format!("{src} | filter_bbox bbox=[10,0,5,1]"),
		format!("{src} | filter_zoom min=abc"),
		format!("{src} | filter_zoom min=-1"),
		format!("{src} | filter_zoom max=1.5"),
		format!("{src} | filter_zoom min=256"),
		format!("{src} | filter_zoom min=[1,2]"),
		format!("from_overlayed [ {src} ]"),
		"from_overlayed".into(),
		format!("from_vectortiles_merged [ {src} ]"),
		format!("from_overlayed [ {src}, from_nowhere ]"),
		format!("from_overlayed [ {src}, from_container ]"),
		format!("{src} | vectortiles_update_properties data_source_path=\"missing.csv\" layer_name=\"a\" id_field_tiles=\"id\" id_field_data=\"data_id\""),
	];
	for missing in ["data_source_path", "layer_name", "id_field_tiles", "id_field_data"] {
		let parts: Vec<&str> = up.split(' ').filter(|p| !p.starts_with(&format!("{missing}="))).collect();
		invalid.push(format!("{src} | {}", parts.join(" ")));
	}
	invalid.push(format!("{src} | {}", up.replace("id_field_data=\"data_id\"", "id_field_data=\"no_such_column\"")));
	// systematic: every invalid node x every position in which a node can stand (directly after the source, after a
	// filter that keeps tiles, after filters that leave no tile at all, before a valid node, inside a nested source)
	{
		let scalar_as_list = |node: &str, key: &str| -> Vec<String> { ["[]", "[ ]", "[1,2]", "[a,b]"].iter().map(|l| format!("{node} {key}={l}")).collect() };
		let mut bad_transforms: Vec<String> = vec![
			"unknown_transform".into(),
			"no_such_operation a=1".into(),
			"from_debug format=pbf".into(),
			"filter_bbox".into(),
			"filter_bbox bbox=[1,2,3]".into(),
			"filter_bbox bbox=[1,2,3,4,5]".into(),
			"filter_bbox bbox=[a,b,c,d]".into(),
			"filter_bbox bbox=[10,0,5,1]".into(),
			"filter_bbox bbox=7".into(),
			"filter_zoom max=abc".into(),
			"filter_zoom min=-1".into(),
			"filter_zoom max=1.5".into(),
			"filter_zoom min=256".into(),
		];
		// misspelled / unknown parameter names, text that is no boolean for a flag, a source list behind an
		// operation that takes none
		bad_transforms.extend(["filter_zoom mni=3 max=5", "filter_zoom minzoom=3", "filter_zoom Min=3", "filter_zoom min=1 zoom=2", "filter_bbox bbox=[1,2,3,4] max=3", "filter_bbox bbox=[1,2,3,4] bboxx=[1,2,3,4]"].map(String::from));
		bad_transforms.extend(["filter_zoom [ from_debug format=pbf ]", "filter_zoom [ from_container filename=\"mem:1\" ]", "filter_zoom [ from_debug format=pbf, from_debug format=pbf ]", "filter_zoom\n[ bogus ]"].map(String::from));
		bad_transforms.extend(["filter_zoom min=1 [ from_debug format=pbf ]", "filter_zoom min=1 [ bogus a=b ]", "filter_bbox bbox=[1,2,3,4] [ from_container filename=\"mem:1\" ]"].map(String::from));
		bad_transforms.push(format!("{up} id_field=\"id\""));
		for key in ["replace_properties", "remove_non_matching", "include_id"] {
			for text in ["ture", "2", "maybe", "\"\\n\""] {
				bad_transforms.push(format!("{up} {key}={text}"));
			}
		}
		bad_transforms.extend(scalar_as_list("filter_zoom", "min"));
		bad_transforms.extend(scalar_as_list("filter_zoom max=3", "min"));
		bad_transforms.extend(scalar_as_list("filter_zoom", "max"));
		for key in ["data_source_path", "layer_name", "id_field_tiles", "id_field_data"] {
			let parts: Vec<&str> = up.split(' ').filter(|p| !p.starts_with(&format!("{key}="))).collect();
			bad_transforms.push(parts.join(" "));
			bad_transforms.extend(scalar_as_list(&parts.join(" "), key));
		}
		for key in ["replace_properties", "remove_non_matching", "include_id"] {
			bad_transforms.extend(scalar_as_list(up, key).into_iter().filter(|t| !t.ends_with("[a,b]") || true));
		}
		let before: Vec<&str> = vec!["", " | filter_zoom max=3", " | filter_zoom min=9", " | filter_zoom min=5 max=3", " | filter_bbox bbox=[100,50,101,51] | filter_zoom min=1"];
		let mut n = 0u64;
		for b in &bad_transforms {
			for pre in &before {
				for post in ["", " | filter_zoom max=5"] {
					for nested in [false, true] {
						let chain = format!("{src}{pre} | {b}{post}");
						let v = if nested { format!("from_overlayed [ {chain}, from_container filename=\"mem:1\" ]") } else { chain };
						invalid.push(v);
						n += 1;
					}
					// the invalid node behind a nested read operation, for every pair of operations that take sources
					if pre.is_empty() || *pre == " | filter_zoom min=9" {
						let other = "from_container filename=\"mem:1\"";
						for outer in ["from_overlayed", "from_vectortiles_merged"] {
							invalid.push(format!("{outer} [ {src}{pre} | {b}{post}, {other} ]"));
							for inner in ["from_overlayed", "from_vectortiles_merged"] {
								invalid.push(format!("{outer} [ {inner} [ {src}, {other} ]{pre} | {b}{post}, {other} ]"));
								invalid.push(format!("{outer} [ {other}, {inner} [ {src}{pre} | {b}{post}, {other} ] ]"));
								n += 2;
							}
							n += 1;
						}
					}
				}
			}
		}
		let mut bad_reads: Vec<String> = vec!["from_nowhere".into(), "filter_zoom min=1".into(), "from_container".into(), "from_debug".into(), "from_debug format=xyz".into(), "from_container filename=\"does-not-exist.versatiles\"".into()];
		bad_reads.extend(["from_debug format=pbf fsat=true", "from_debug format=pbf fast=ture", "from_debug format=pbf fast=2", "from_debug format=pbf fast=maybe", "from_debug format=pbf Format=png", "from_container filename=\"mem:0\" compression=gzip", "from_container filename=\"mem:0\" file=\"mem:1\"", "from_container filename=\"mem:0\" [ no_such_operation ]", "from_container filename=\"mem:0\" [ from_container filename=\"mem:1\" ]", "from_debug format=pbf [ from_debug format=pbf ]"].map(String::from));
		bad_reads.extend(scalar_as_list("from_debug", "format"));
		bad_reads.extend(scalar_as_list("from_debug format=pbf", "fast"));
		bad_reads.extend(scalar_as_list("from_container", "filename"));
		for b in &bad_reads {
			for post in ["", " | filter_zoom max=5", " | filter_zoom min=5 max=3"] {
				invalid.push(format!("{b}{post}"));
				invalid.push(format!("from_overlayed [ {src}, {b}{post} ]"));
				invalid.push(format!("from_overlayed [ {src} | filter_zoom min=9, {b}{post} ]"));
				invalid.push(format!("from_vectortiles_merged [ {b}{post}, {src} ]"));
				n += 4;
				for outer in ["from_overlayed", "from_vectortiles_merged"] {
					for inner in ["from_overlayed", "from_vectortiles_merged"] {
						invalid.push(format!("{outer} [ {inner} [ {src}, {b}{post} ], {src} ]"));
						invalid.push(format!("{outer} [ {src}, {inner} [ {b}{post}, {src} ] | filter_zoom max=5 ]"));
						n += 2;
					}
				}
			}
		}
		for outer in ["from_overlayed", "from_vectortiles_merged"] {
			for inner in ["from_overlayed", "from_vectortiles_merged"] {
				for bad_inner in [format!("{inner} [ {src} ]"), format!("{inner} [ ]"), format!("{inner}"), format!("{inner} colour=red [ {src}, {src} ]"), format!("{inner} [ {src}, {src} ] | no_such_operation"), format!("{inner} [ {src}, {src} ] | filter_zoom mni=2")] {
					invalid.push(format!("{outer} [ {bad_inner}, {src} ]"));
					invalid.push(format!("{outer} [ {src}, {bad_inner} ]"));
					invalid.push(format!("{outer} [ {src}, {src}, {bad_inner} ] | filter_zoom max=4"));
					n += 3;
				}
			}
		}
		ctx.outcome_n("factory: systematic invalid node x position texts", n);
	}
	for v in &invalid {
		ctx.eval();
		match pipeline::build_op(&rt, &fac, v) {
			Err(e) => {
				if let Some(p) = e.strip_prefix("PANIC ") {
					ctx.violation(&format!("an invalid pipeline panics instead of being rejected at {}", panic_site(p)), &format!("{v}: {p}"), json!({"kind": "factory", "vpl": v}));
				}
			}
			Ok(_) => ctx.violation("an unknown operation or a missing / mistyped parameter is accepted", v, json!({"kind": "factory", "vpl": v})),
		}
	}
	// a factory that has rejected texts builds the valid ones as before (nothing an error path leaves behind changes
	// what a later text means)
	for round in 0..2 {
		for v in &valid {
			ctx.eval();
			if let Err(e) = pipeline::build_op(&rt, &fac, v) {
				ctx.violation("a valid pipeline cannot be built after the factory has rejected other texts", &format!("{v} (after {} rejected texts, round {round}): {e}", invalid.len()), json!({"kind": "factory-after-rejections", "vpl": v}));
			}
		}
		let deep = format!("{}from_debug format=pbf{}", "from_overlayed [ ".repeat(40), ", from_debug format=pbf ]".repeat(40));
		ctx.eval();
		if let Err(e) = pipeline::build_op(&rt, &fac, &deep) {
			ctx.violation("a valid pipeline cannot be built after the factory has rejected other texts", &format!("source lists nested 40 deep: {}", e.chars().take(200).collect::<String>()), json!({"kind": "factory-after-rejections", "vpl": "40 nested source lists"}));
		}
	}
	// the built pipeline applies the operations in the written order (non-commuting transforms)
	{
		for (name, val) in [("A", "first"), ("B", "second"), ("C", "third")] {
			std::fs::write(work.0.join(format!("{name}.csv")), format!("data_id,v\nx1,{val}\n")).unwrap();
		}
		let tile = super::c11::catalogue().into_iter().find(|c| c.0.starts_with("layer a with id key")).expect("catalogue tile").1;
		let mut tiles = TileMap::new();
		tiles.insert((0, 0, 0), crate::mvt::encode_tile(&tile));
		let fac2 = pipeline::factory(vec![MemSource::new("m", tiles.clone(), TileFormat::PBF, TileCompression::Uncompressed), MemSource::new("n", tiles, TileFormat::PBF, TileCompression::Uncompressed)], &work.0);
		let upd = |f: &str| format!("vectortiles_update_properties data_source_path=\"{f}.csv\" layer_name=\"a\" id_field_tiles=\"id\" id_field_data=\"data_id\"");
		let src0 = "from_container filename=\"mem:0\"";
		let orders: Vec<(Vec<&str>, &str)> = vec![(vec!["A", "B"], "second"), (vec!["B", "A"], "first"), (vec!["A", "B", "C"], "third"), (vec!["C", "A", "B"], "second"), (vec!["B", "C", "A"], "first"), (vec!["C", "B", "A", "B"], "second")];
		for (ord, want) in orders {
			for nested in 0..9u8 {
				let chain = format!("{src0}{}", ord.iter().map(|f| format!(" | {}", upd(f))).collect::<String>());
				// the chain up to its last operation, which then stands behind a nested read operation
				let prefix = format!("{src0}{}", ord[..ord.len() - 1].iter().map(|f| format!(" | {}", upd(f))).collect::<String>());
				let last = upd(ord[ord.len() - 1]);
				let other = "from_container filename=\"mem:1\"";
				let (ov, mg) = ("from_overlayed", "from_vectortiles_merged");
				let vpl = match nested {
					0 => chain,
					1 => format!("{ov} [ {chain}, {other} ] | filter_zoom max=3"),
					2 => format!("{mg} [ {chain}, {other} ]"),
					3 => format!("{mg} [ {mg} [ {prefix}, {other} ] | {last}, {other} ]"),
					4 => format!("{ov} [ {ov} [ {prefix}, {other} ] | {last}, {other} ]"),
					5 => format!("{ov} [ {mg} [ {prefix}, {other} ] | {last}, {other} ]"),
					6 => format!("{mg} [ {ov} [ {prefix}, {other} ] | {last}, {other} ]"),
					7 => format!("{mg} [ {mg} [ {prefix}, {other} ] | {last} | filter_zoom max=3, {other} ] | filter_zoom min=0"),
					_ => format!("{mg} [ {mg} [ {mg} [ {prefix}, {other} ], {other} ] | {last}, {other} ]"),
				};
				ctx.eval();
				let case = json!({"kind": "factory-order", "vpl": vpl});
				match pipeline::build_op(&rt, &fac2, &vpl) {
					Err(e) => ctx.violation("a valid pipeline cannot be built", &format!("{vpl}: {e}"), case),
					Ok(op) => match catch(|| rt.block_on(op.get_tile_data(&TileCoord3 { x: 0, y: 0, z: 0 }))) {
						Ok(Ok(Some(b))) => {
							let layers = crate::mvt::decode_tile(b.as_slice()).unwrap_or_default();
							let v = layers.iter().find(|l| l.name == "a").and_then(|l| l.features.iter().find(|f| f.id == Some(10))).and_then(|f| f.props.get("v").cloned());
							if v != Some(crate::mvt::MVal::Str(want.to_string())) {
								ctx.violation("the built pipeline does not apply the operations in the written order", &format!("{vpl}: property v = {v:?}, expected {want:?}"), case);
							}
						}
						other => ctx.violation("a valid pipeline fails to deliver a tile", &format!("{vpl}: {:?}", other.map(|r| r.map(|o| o.map(|b| b.len())).map_err(|e| e.to_string()))), case),
					},
				}
			}
		}
	}
	// nested sources keep their written order even when an earlier one takes longer to open than a later one
	{
		let mk = |tag: &str, yields: u8| {
			let mut t = TileMap::new();
			t.insert((0, 0, 0), format!("tile of {tag}").into_bytes());
			MemSource::new(tag, t, TileFormat::BIN, TileCompression::Uncompressed).with_yields(yields)
		};
		for delays in [[3u8, 0, 0], [0, 3, 0], [0, 0, 3], [3, 2, 0], [0, 2, 3], [2, 0, 1]] {
			let fac3 = pipeline::factory(vec![mk("first", delays[0]), mk("second", delays[1]), mk("third", delays[2])], &work.0);
			for (list, want) in [(vec![0usize, 1, 2], "first"), (vec![2, 1, 0], "third"), (vec![1, 2], "second"), (vec![1, 0], "second")] {
				let vpl = format!("from_overlayed [ {} ]", list.iter().map(|i| format!("from_container filename=\"mem:{i}\"")).collect::<Vec<_>>().join(", "));
				ctx.eval();
				let case = json!({"kind": "factory-nested-order", "vpl": vpl, "open_delays": delays});
				match pipeline::build_op(&rt, &fac3, &vpl) {
					Err(e) => ctx.violation("a valid pipeline cannot be built", &format!("{vpl}: {e}"), case),
					Ok(op) => {
						let got = catch(|| rt.block_on(op.get_tile_data(&TileCoord3 { x: 0, y: 0, z: 0 }))).ok().and_then(|r| r.ok()).flatten().map(|b| String::from_utf8_lossy(b.as_slice()).to_string());
						if got.as_deref() != Some(&format!("tile of {want}")[..]) {
							ctx.violation("the built pipeline does not keep nested sources in the written order", &format!("{vpl} with open delays {delays:?}: the overlay answers {got:?}, the first listed source is '{want}'"), case);
						}
					}
				}
			}
		}
	}
	ctx.outcome_n("factory: valid pipelines", valid.len() as u64);
	ctx.outcome_n("factory: invalid pipelines", invalid.len() as u64);
}


/// Well-formed pipeline *files* of every size around 4 KiB, 64 KiB and 1 MiB (whitespace, line breaks and long quoted
/// values are part of the syntax, so a long file is as well-formed as a short one): opened like any container, the
/// pipeline must be the one the text describes - here: the last operation, which sits at the very end of the
/// file, takes effect.
fn long_files(ctx: &Arc<Ctx>) {
	use versatiles_core::types::TileCoord3;
	let work = ct::WorkDir::new("c18long");
	let rt = crate::memsource::runtime(1);
	let head = "from_debug format=pbf";
	let tail = "| filter_zoom max=3";
	let mut sizes: Vec<usize> = vec![];
	for b in [4096usize, 65536, 1 << 20] {
		for d in -24i64..=24 {
			sizes.push((b as i64 + d) as usize);
		}
	}
	let mut n = 0u64;
	for (si, size) in sizes.iter().enumerate() {
		for (fi, fill) in [" ", "\n", " \t"].iter().enumerate() {
			let pad_len = size - head.len() - tail.len();
			let mut pad: String = fill.repeat(pad_len / fill.len() + 1);
			pad.truncate(pad_len);
			let text = format!("{head}{pad}{tail}");
			let path = work.0.join(format!("long{si}_{fi}.vpl"));
			std::fs::write(&path, &text).unwrap();
			ctx.eval();
			n += 1;
			let case = json!({"kind": "long file", "bytes": text.len(), "fill": fill});
			match catch(|| rt.block_on(versatiles_container::get_reader(path.to_str().unwrap()))) {
				Err(p) => ctx.violation(&format!("opening a pipeline file panics at {}", panic_site(&p)), &format!("{} bytes: {p}", text.len()), case),
				Ok(Err(e)) => ctx.violation("a well-formed pipeline file is rejected", &format!("{} bytes ({head}<white space>{tail}): {}", text.len(), format!("{e:#}").chars().take(200).collect::<String>()), case),
				Ok(Ok(r)) => {
					let at = |z: u8| catch(|| rt.block_on(r.get_tile_data(&TileCoord3 { x: 0, y: 0, z }))).ok().and_then(|v| v.ok()).flatten().is_some();
					let top = r.get_parameters().bbox_pyramid.get_zoom_max();
					if top != Some(3) || !at(3) || at(4) {
						ctx.violation("a well-formed pipeline file builds another pipeline than its text describes", &format!("{} bytes ({head}<white space>{tail}): highest advertised level {top:?}, tile at level 3: {}, at level 4: {}", text.len(), at(3), at(4)), case);
					}
				}
			}
			let _ = std::fs::remove_file(&path);
		}
	}
	ctx.outcome_n("pipeline files of 4 KiB / 64 KiB / 1 MiB +- 24 bytes x 3 kinds of white space", n);
}

pub fn run(ctx: Arc<Ctx>) {
	ctx.rule(
		"positive: syntax trees (pipelines of 1..3 of 12 node shapes, 0..2 nested sources from 5 nested pipelines incl. a second nesting level) rendered canonically and with every 1 deviation (whitespace variant at each optional site / quoting a bare value) and every 2 deviations for the first trees; \
		 differential: every string of length <= 6 (quick) / <= 7 (thorough) over the alphabet a 1 k = \" \\ [ ] , | space plus all single-character deletions/insertions of two valid texts, against a reference recursive-descent parser of the documented grammar (constructs the documentation is silent about are not judged); \
		 factory: valid texts; invalid texts = hand-picked ones + every invalid node (unknown operation names, unknown / misspelled parameter names, missing / out-of-range / mistyped values incl. text that is no boolean for a flag, a source list behind an operation that takes none, a bracketed list of 0, 2 entries where one value is expected, for every scalar parameter of every operation) x every position (after the source, after a filter that keeps tiles, after filters that leave no tile, before a valid node, nested in a source list). nested source lists whose sources take different times to open keep the written order. non-trivial = trees with nesting or several operations + accepted differential strings",
	);
	ctx.assume("the reference parser encodes the documented grammar: identifier = letter (letter|digit|_|-)*, bare value = (letter|digit|.|-|_)+, quoted value with escapes \\\\ \\\" \\n \\t, list in brackets with commas, sources in brackets separated by commas, operations separated by |, whitespace = space/tab/CR/LF; undocumented: repeated keys, empty lists, trailing separators");
	positive_space(&ctx);
	differential(&ctx);
	factory_cases(&ctx);
	long_files(&ctx);
	ctx.exhaustive(true);
	let _: BTreeMap<u8, u8> = BTreeMap::new();
}

pub fn replay(ctx: Arc<Ctx>, case: &Value) {
	if let Some(text) = case["text"].as_str() {
		for _ in 0..2 {
			println!("  text:      {text:?}");
			println!("  reference: {:?}", reference_parse(text));
			println!("  parse_vpl: {:?}", real_parse(text));
		}
		match (real_parse(text), reference_parse(text)) {
			(Ok(Ok(g)), RefResult::Accept(w)) if canon(&g) != canon(&w) => ctx.violation("text in the documented syntax parses to another pipeline than the reference parser's", text, case.clone()),
			(Ok(Err(_)), RefResult::Accept(_)) => ctx.violation("text in the documented syntax is rejected", text, case.clone()),
			(Ok(Ok(_)), RefResult::Reject) => ctx.violation("text outside the documented syntax is accepted", text, case.clone()),
			(Err(p), _) => ctx.violation(&format!("parser panics at {}", panic_site(&p)), text, case.clone()),
			_ => {}
		}
	} else {
		println!("  case: {case}");
	}
}
