pub mod c20;
pub mod c15;
