pub mod c20;
