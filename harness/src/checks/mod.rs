pub mod c20;
pub mod c15;
pub mod c14;
pub mod c12;
pub mod c01;
pub mod c02;
pub mod c03;
pub mod c16;
