//! C03 — the advertised coverage pyramid contains every tile a source can return; for the formats
//! that derive coverage from the stored tiles each level box is exactly the bounding box.

use crate::containers::{self as ct, Cont};
use crate::ctx::{fnv_str, Ctx, Tier};
use crate::memsource::{Key, MemSource, TileMap};
use crate::par::{catch, panic_site, par_for};
use crate::pipeline::{self, AnySrc};
use crate::tilesets;
use serde_json::{json, Value};
use std::collections::BTreeMap;
use std::sync::Arc;
use versatiles_core::types::*;

fn bounds(tiles: &TileMap) -> BTreeMap<u8, (u32, u32, u32, u32)> {
	let mut m: BTreeMap<u8, (u32, u32, u32, u32)> = BTreeMap::new();
	for (k, v) in tiles {
		if v.is_empty() {
			continue;
		}
		let e = m.entry(k.0).or_insert((k.1, k.2, k.1, k.2));
		e.0 = e.0.min(k.1);
		e.1 = e.1.min(k.2);
		e.2 = e.2.max(k.1);
		e.3 = e.3.max(k.2);
	}
	m
}

/// Oracle on an opened source: S = tiles returned by lookups over `probe`; S must be inside the
/// advertised pyramid; if `exact`, each level box must equal the bounding box of S at that level.
pub fn check_pyramid(ctx: &Ctx, rt: &tokio::runtime::Runtime, class: &str, label: &str, src: &AnySrc, probe: &[Key], exact: bool, case: Value) {
	let pyramid = src.parameters().bbox_pyramid.clone();
	let mut found = TileMap::new();
	for &k in probe {
		match catch(|| rt.block_on(src.lookup(k))) {
			Ok(Ok(Some(v))) => {
				found.insert(k, if v.is_empty() { vec![0] } else { v });
			}
			Ok(Ok(None)) => {}
			// beyond the 2^z grid a refusal is as good as "no tile": nothing is returned
			Ok(Err(_)) if (k.1 as u64) >= (1u64 << k.0) || (k.2 as u64) >= (1u64 << k.0) => ctx.outcome("lookup beyond the level grid is refused with an error"),
			Ok(Err(e)) => ctx.violation(&format!("{class}: lookup fails: {}", super::c01::norm_msg(&e.to_string())), &format!("{label}: lookup {k:?}: {e:#}"), case.clone()),
			Err(p) => ctx.violation(&format!("{class}: lookup panics at {}", panic_site(&p)), &format!("{label}: lookup {k:?}: {p}"), case.clone()),
		}
	}
	ctx.eval();
	for k in found.keys() {
		if !pyramid.contains_coord(&TileCoord3 { x: k.1, y: k.2, z: k.0 }) {
			ctx.violation(&format!("{class}: a returnable tile lies outside the advertised coverage"), &format!("{label}: tile {k:?} is returned but level box is {:?}", pyramid.get_level_bbox(k.0)), case.clone());
			break;
		}
	}
	// pipelines: a conversion walks the advertised coverage level by level through the stream interface - every
	// tile it meets there lies inside the coverage, and it meets every tile the lookups found (the bounding box of
	// the found tiles is streamed as well: its corner is usually not aligned to any internal grid)
	if class == "pipeline" {
		let b = bounds(&found);
		for (z, &(x0, y0, x1, y1)) in b.iter() {
			let lv = pyramid.get_level_bbox(*z).clone();
			let mut boxes: Vec<TileBBox> = vec![];
			if let Ok(bb) = TileBBox::new(*z, x0, y0, x1, y1) {
				if bb.count_tiles() <= 4096 {
					boxes.push(bb);
				}
			}
			let walk_level = !lv.is_empty() && lv.count_tiles() <= 4096;
			if walk_level {
				boxes.push(lv.clone());
			}
			for (bi, bx) in boxes.iter().enumerate() {
				let Ok(items) = catch(|| rt.block_on(src.stream(bx.clone()))) else { continue };
				let got: std::collections::BTreeSet<Key> = items.iter().map(|(k, _)| *k).collect();
				for k in &got {
					if !pyramid.contains_coord(&TileCoord3 { x: k.1, y: k.2, z: k.0 }) {
						ctx.violation(&format!("{class}: a returnable tile lies outside the advertised coverage"), &format!("{label}: the stream over {bx:?} delivers tile {k:?}, level box is {:?}", pyramid.get_level_bbox(k.0)), case.clone());
						break;
					}
				}
				if bi + 1 == boxes.len() && walk_level {
					if let Some(k) = found.keys().find(|k| k.0 == *z && !got.contains(k)) {
						ctx.violation(&format!("{class}: walking the advertised coverage misses a tile that a lookup returns"), &format!("{label}: tile {k:?} is not delivered by the stream over the advertised level box {lv:?}"), case.clone());
					}
				}
			}
		}
	}
	if exact {
		let b = bounds(&found);
		for z in 0..=31u8 {
			let lv = pyramid.get_level_bbox(z);
			match b.get(&z) {
				None => {
					if !lv.is_empty() {
						ctx.violation(&format!("{class}: a level without tiles is advertised as covered"), &format!("{label}: level {z} advertised as {lv:?}"), case.clone());
					}
				}
				Some(&(x0, y0, x1, y1)) => {
					if lv.is_empty() || (lv.x_min, lv.y_min, lv.x_max, lv.y_max) != (x0, y0, x1, y1) {
						ctx.violation(&format!("{class}: advertised level box is not the bounding box of the stored tiles"), &format!("{label}: level {z} advertised {lv:?}, tiles span [{x0},{y0},{x1},{y1}]"), case.clone());
					}
				}
			}
		}
	}
}

fn grid_subsets(z: u8, x0: u32, y0: u32, w: u32, h: u32) -> Vec<TileMap> {
	let n = (w * h) as usize;
	let mut v = vec![];
	for mask in 1u32..(1u32 << n) {
		let mut m = TileMap::new();
		for i in 0..n {
			if mask >> i & 1 == 1 {
				let (x, y) = (x0 + (i as u32 % w), y0 + (i as u32 / w));
				m.insert((z, x, y), format!("{z}/{x}/{y}").into_bytes());
			}
		}
		v.push(m);
	}
	v
}

fn probe_for(tiles: &TileMap) -> Vec<Key> {
	let mut p = tilesets::probe_coords(tiles);
	// exhaustive low zoom
	for z in 0..=3u8 {
		for x in 0..(1u32 << z) {
			for y in 0..(1u32 << z) {
				p.push((z, x, y));
			}
		}
	}
	// coordinates beyond the 2^z grid of their level: no level box can contain them, so nothing may be returned there
	for z in [0u8, 1, 2, 3, 9, 31] {
		let n = (1u64 << z) as u32;
		p.extend([(z, n, 0), (z, 0, n), (z, n, n), (z, n + 3, 1), (z, u32::MAX, u32::MAX)]);
	}
	p.sort();
	p.dedup();
	p
}

pub fn run(ctx: Arc<Ctx>) {
	ctx.rule(
		"tile sets: BFS states (depth <= 2) + all non-empty subsets of a 5x2 (quick) / 5x3 (thorough) grid at z=3 and a 3x3 (quick) / 4x3 (thorough) grid at z=4 rows 9..11 (where file names change digit count) + single tiles at level 0 / level 31 corner + zoom gaps; \
		 x 5 container formats written by the repository's writers; tar archives whose members are in natural / level-interleaved / hash order (independent encoder); PMTiles archives with run-length entries and shared byte ranges from the independent encoder (every run of ids 1..84, every placement of two equal tiles + another at z=2); pipelines over 2-3 sources with different pyramids. oracle: every tile returned by lookups over a probe superset lies in the advertised pyramid; for mbtiles/pmtiles/tar/directory each level box = bounding box. \
		 non-trivial = distinct (format, tile set) whose tiles are not a full rectangle",
	);
	let work = ct::WorkDir::new("c03");
	let mut sets: Vec<(String, TileMap)> = vec![];
	let bfs = tilesets::bfs_sets(2, false);
	for s in &bfs.states {
		sets.push((format!("bfs {s:?}"), tilesets::materialize(s)));
	}
	let n_bfs = sets.len();
	let h = ctx.tier.pick(2u32, 3u32);
	for (i, m) in grid_subsets(3, 2, 4, 5, h).into_iter().enumerate() {
		sets.push((format!("grid z3 subset #{i}"), m));
	}
	// rows 9,10,11: the row number changes its digit count, so name order differs from numeric order
	for (i, m) in grid_subsets(4, 3, 9, ctx.tier.pick(3u32, 4u32), 3).into_iter().enumerate() {
		sets.push((format!("grid z4 rows 9..11 subset #{i}"), m));
	}
	let m31 = (1u32 << 31) - 1;
	for (name, keys) in [("single tile at level 0", vec![(0u8, 0u32, 0u32)]), ("single tile at the far corner of level 31", vec![(31, m31, m31)]), ("level 0 and level 31", vec![(0, 0, 0), (31, m31, m31)]), ("levels 1 and 3", vec![(1, 1, 0), (3, 7, 7)]), ("level 30 first row, last column", vec![(30, (1 << 30) - 1, 0)])] {
		sets.push((name.to_string(), keys.into_iter().map(|k| (k, vec![1u8, 2, 3])).collect()));
	}
	ctx.state(sets.len() as u64);
	ctx.transition(bfs.transitions);
	let setsr = &sets;
	let ctxr: &Ctx = &ctx;
	let wpath = work.0.clone();
	let tier = ctx.tier;
	par_for(sets.len(), |i| {
		let (name, tiles) = &setsr[i];
		let rt = tokio::runtime::Builder::new_current_thread().build().unwrap();
		let probe = probe_for(tiles);
		let b = bounds(tiles);
		let rect = b.iter().all(|(z, (x0, y0, x1, y1))| tiles.keys().filter(|k| k.0 == *z).count() as u64 == (*x1 - *x0 + 1) as u64 * (*y1 - *y0 + 1) as u64);
		for cont in ct::ALL_CONT {
			// MBTiles pool threads linger: BFS states only for depth 1 and every 5th depth-2 state in quick; all grids
			if cont == Cont::Mbtiles && i < n_bfs && tiles.len() == 2 && tier == Tier::Quick && i % 5 != 0 {
				continue;
			}
			if cont == Cont::Mbtiles && name.starts_with("grid z4") && tier == Tier::Quick && i % 2 != 0 {
				continue;
			}
			let (f, c) = match cont {
				Cont::Mbtiles => (TileFormat::PNG, TileCompression::Uncompressed),
				_ => (TileFormat::PNG, TileCompression::Gzip),
			};
			let mut src = MemSource::new("mem", tiles.clone(), f, c);
			let case = json!({"cont": cont, "set": name, "tiles": super::c01::tiles_json(tiles)});
			let w = match ct::write(&rt, cont, &mut src, &wpath, &format!("s{i}")) {
				Ok(w) => w,
				Err(e) => {
					ctxr.outcome(&format!("{}: writer failed (C01's subject): {}", cont.name(), super::c01::norm_msg(&e)));
					continue;
				}
			};
			match ct::open(&rt, cont, &w) {
				Ok(r) => {
					ctxr.trace(1);
					check_pyramid(ctxr, &rt, &format!("{} reader", cont.name()), &format!("{} over '{name}'", cont.name()), &AnySrc::Reader(r), &probe, cont != Cont::Versatiles, case);
					if !rect {
						ctxr.nontrivial(fnv_str(&format!("{}{name}", cont.name())));
					}
				}
				Err(e) => ctxr.outcome(&format!("{}: reader failed (C01's subject): {}", cont.name(), super::c01::norm_msg(&e))),
			}
			ct::cleanup(&w);
		}
	});
	// tar archives as other tools produce them: members of one zoom level scattered over the archive / in hash order
	{
		let mut tsets: Vec<(String, TileMap)> = vec![("full pyramid z0..3".into(), tilesets::family_full_pyramid(3))];
		let mut irr = TileMap::new();
		for (x, y) in [(3u32, 10u32), (4, 5), (5, 10), (5, 11), (6, 20), (7, 10), (9, 2), (1, 30)] {
			irr.insert((5, x, y), format!("irr {x} {y}").into_bytes());
		}
		for (x, y) in [(0u32, 0u32), (3, 3), (1, 2)] {
			irr.insert((2, x, y), format!("z2 {x} {y}").into_bytes());
		}
		tsets.push(("irregular levels 2 and 5".into(), irr));
		for (i, m) in grid_subsets(3, 2, 4, 5, 2).into_iter().enumerate().filter(|(i, _)| i % 7 == 0) {
			let mut m = m;
			m.insert((4, 9, 9), b"extra".to_vec());
			m.insert((4, 1, 14), b"extra2".to_vec());
			tsets.push((format!("grid z3 subset #{i} + two tiles at z4"), m));
		}
		let tr = &tsets;
		let wp = wpath.clone();
		par_for(tsets.len(), |i| {
			let (name, tiles) = &tr[i];
			let rt = tokio::runtime::Builder::new_current_thread().build().unwrap();
			let probe = probe_for(tiles);
			for order in 0..3u8 {
				for dirs in [false, true] {
					let members: Vec<(String, Vec<u8>)> = tiles.iter().map(|(k, v)| (format!("{}/{}/{}.png", k.0, k.1, k.2), v.clone())).collect();
					let members = super::c16::tar_member_order(members, order);
					let path = wp.join(format!("ft{i}_{order}_{dirs}.tar"));
					std::fs::write(&path, crate::codec::tar_write(&members, crate::codec::TarLayout { dot_prefix: false, dir_entries: dirs, gnu: false, reversed: false, meta_last: false })).unwrap();
					let w = ct::Written::Path(path);
					let case = json!({"cont": "tar", "member_order": order, "dir_entries": dirs, "set": name});
					match ct::open(&rt, Cont::Tar, &w) {
						Ok(r) => {
							ctxr.trace(1);
							check_pyramid(ctxr, &rt, "tar reader (archive of another tool)", &format!("tar member order {order} over '{name}'"), &AnySrc::Reader(r), &probe, true, case);
							ctxr.nontrivial(fnv_str(&format!("ft{order}{dirs}{name}")));
						}
						Err(e) => ctxr.outcome(&format!("tar: reader rejects an archive of another tool (C16's subject): {}", super::c01::norm_msg(&e))),
					}
					ct::cleanup(&w);
				}
			}
		});
		ctx.extra("tar_archives_of_other_tools", json!({"sets": tsets.len(), "member_orders": 3}));
	}
	// PMTiles archives as other writers produce them (run-length entries, shared byte ranges): independent encoder
	{
		let special = super::c16::pm_special_sets(tier);
		let sl = super::c16::pm_special_layouts();
		let (specr, slr) = (&special, &sl);
		par_for(special.len(), |i| {
			let (name, tiles) = &specr[i];
			let rt = tokio::runtime::Builder::new_current_thread().build().unwrap();
			let probe = probe_for(tiles);
			for l in slr.iter() {
				let bytes = crate::codec::pm_encode(tiles, 2, 1, b"{}", *l);
				let case = json!({"cont": "pmtiles", "layout": l, "set": name});
				match ct::open(&rt, Cont::Pmtiles, &ct::Written::Bytes(bytes)) {
					Ok(r) => {
						ctxr.trace(1);
						check_pyramid(ctxr, &rt, "pmtiles reader (archive of another writer)", &format!("pmtiles {l:?} over '{name}'"), &AnySrc::Reader(r), &probe, true, case);
						ctxr.nontrivial(fnv_str(&format!("pmS{l:?}{name}")));
					}
					Err(e) => ctxr.outcome(&format!("pmtiles: reader rejects an archive of another writer (C16's subject): {}", super::c01::norm_msg(&e))),
				}
			}
		});
		ctx.extra("pmtiles_archives_of_other_writers", json!({"sets": special.len(), "layouts": sl.len()}));
	}
	ctx.sample(json!({"tile_set": sets[n_bfs + 37].0, "tiles": sets[n_bfs + 37].1.keys().collect::<Vec<_>>()}));
	ctx.outcome_n("tile sets x 5 formats", sets.len() as u64);
	// pipelines
	let rt = crate::memsource::runtime(2);
	let a = MemSource::new("a", tilesets::family_dense(3, 0, 0, 3, 2, 6), TileFormat::BIN, TileCompression::Uncompressed);
	let b = MemSource::new("b", { let mut t = tilesets::family_dense(3, 5, 5, 3, 3, 6); t.extend(tilesets::family_dense(9, 255, 255, 2, 2, 6)); t }, TileFormat::BIN, TileCompression::Uncompressed);
	let c = MemSource::new("c", tilesets::family_dense(10, 700, 5, 2, 1, 6), TileFormat::BIN, TileCompression::Uncompressed);
	let all: Vec<&TileMap> = vec![&a.tiles, &b.tiles, &c.tiles];
	let mut probe: Vec<Key> = all.iter().flat_map(|t| probe_for(t)).collect();
	probe.sort();
	probe.dedup();
	let fac = pipeline::factory(vec![a.clone(), b.clone(), c.clone()], &work.0);
	let m = |i: usize| format!("from_container filename=\"mem:{i}\"");
	// filters whose geographic edges are tile borders, over a source that has every tile of levels 0..3
	{
		let full = MemSource::new("full", tilesets::family_full_pyramid(3), TileFormat::BIN, TileCompression::Uncompressed);
		let fprobe: Vec<Key> = full.tiles.keys().copied().collect();
		let ffac = pipeline::factory(vec![full], &work.0);
		for bbox in ["[0,0,90,66.51326044311186]", "[-90,-66.51326044311186,0,40.97989806962013]", "[-180,-40.97989806962013,-45,79.17133464081945]", "[45,-85.0511287798066,135,0]", "[-0.0001,-10,10,10]"] {
			for tail in ["", " | filter_zoom min=1 max=3", " | filter_bbox bbox=[-135,-79.17133464081945,135,79.17133464081945]"] {
				let vpl = format!("{} | filter_bbox bbox={bbox}{tail}", m(0));
				match pipeline::build_op(&rt, &ffac, &vpl) {
					Ok(op) => {
						check_pyramid(&ctx, &rt, "pipeline", &vpl, &AnySrc::Op(op), &fprobe, false, json!({"vpl": vpl}));
						ctx.trace(1);
					}
					Err(e) => ctx.violation("pipeline cannot be built", &format!("{vpl}: {e}"), json!({"vpl": vpl})),
				}
			}
		}
	}
	// vector-tile operations over sources with different coverages
	{
		let raw = crate::mvt::encode_tile(&super::c10::catalogue()[0].1);
		let mk = |coords: &[Key]| -> TileMap { coords.iter().map(|k| (*k, raw.clone())).collect() };
		let va = MemSource::new("va", mk(&[(3, 0, 0), (3, 2, 1), (9, 255, 255)]), TileFormat::PBF, TileCompression::Uncompressed);
		let vb = MemSource::new("vb", mk(&[(3, 7, 7), (5, 17, 11), (9, 256, 256), (10, 700, 5)]), TileFormat::PBF, TileCompression::Uncompressed);
		std::fs::write(work.0.join("c03.csv"), "data_id,v\nx,1\n").unwrap();
		let mut vprobe: Vec<Key> = probe_for(&va.tiles);
		vprobe.extend(probe_for(&vb.tiles));
		vprobe.sort();
		vprobe.dedup();
		let vfac = pipeline::factory(vec![va, vb], &work.0);
		for vpl in [
			format!("from_vectortiles_merged [ {}, {} ]", m(0), m(1)),
			format!("from_vectortiles_merged [ {} | filter_zoom max=3, {} | filter_zoom min=5 ]", m(1), m(0)),
			format!("{} | vectortiles_update_properties data_source_path=\"c03.csv\" layer_name=\"a\" id_field_tiles=\"id\" id_field_data=\"data_id\"", m(1)),
			format!("from_overlayed [ {} | filter_bbox bbox=[-180,-85,0,85], from_vectortiles_merged [ {}, {} ] ]", m(0), m(1), m(0)),
		] {
			match pipeline::build_op(&rt, &vfac, &vpl) {
				Ok(op) => {
					check_pyramid(&ctx, &rt, "pipeline", &vpl, &AnySrc::Op(op), &vprobe, false, json!({"vpl": vpl}));
					ctx.trace(1);
				}
				Err(e) => ctx.violation("pipeline cannot be built", &format!("{vpl}: {e}"), json!({"vpl": vpl})),
			}
		}
	}
	for vpl in [
		m(0),
		format!("from_overlayed [ {}, {} ]", m(0), m(1)),
		format!("from_overlayed [ {}, {}, {} ]", m(2), m(0), m(1)),
		format!("{} | filter_zoom min=4", m(1)),
		format!("{} | filter_bbox bbox=[-180,-85,0,85]", m(1)),
		format!("from_overlayed [ {} | filter_zoom max=3, {} ] | filter_bbox bbox=[-180,0,180,85]", m(1), m(2)),
		// generated sources
		"from_debug format=pbf".to_string(),
		"from_debug format=png".to_string(),
		"from_debug format=pbf | filter_zoom min=1 max=9".to_string(),
		"from_overlayed [ from_debug format=pbf | filter_zoom max=0, from_debug format=pbf ]".to_string(),
	] {
		match pipeline::build_op(&rt, &fac, &vpl) {
			Ok(op) => {
				check_pyramid(&ctx, &rt, "pipeline", &vpl, &AnySrc::Op(op), &probe, false, json!({"vpl": vpl}));
				ctx.trace(1);
			}
			Err(e) => ctx.violation("pipeline cannot be built", &format!("{vpl}: {e}"), json!({"vpl": vpl})),
		}
	}
	// a source reaching down to the deepest levels behind zoom filters with and without either limit
	{
		let m31 = (1u32 << 31) - 1;
		let mut deep = TileMap::new();
		for k in [(31u8, m31, m31 - 1), (31, m31 - 2, m31), (30, 5, 7), (29, 1, 1), (3, 1, 1), (0, 0, 0)] {
			deep.insert(k, format!("deep {k:?}").into_bytes());
		}
		let dprobe = probe_for(&deep);
		let dfac = pipeline::factory(vec![MemSource::new("deep", deep, TileFormat::BIN, TileCompression::Uncompressed)], &work.0);
		for tail in ["filter_zoom", "filter_zoom min=3", "filter_zoom min=30", "filter_zoom max=31", "filter_zoom min=0 max=31", "filter_zoom max=30", "filter_zoom min=31", "filter_zoom min=3 | filter_zoom min=29", "filter_bbox bbox=[-180,-85.05112877980659,180,85.05112877980659]"] {
			let vpl = format!("{} | {tail}", m(0));
			match pipeline::build_op(&rt, &dfac, &vpl) {
				Ok(op) => {
					check_pyramid(&ctx, &rt, "pipeline", &vpl, &AnySrc::Op(op), &dprobe, false, json!({"vpl": vpl, "source": "levels 0, 3, 29, 30, 31"}));
					ctx.trace(1);
				}
				Err(e) => ctx.violation("pipeline cannot be built", &format!("{vpl}: {e}"), json!({"vpl": vpl})),
			}
		}
	}
	// overlays of the three sources under every assignment of stored compressions and every order (the overlay treats
	// sources whose compression differs from the first one's on another path than the others)
	{
		let mut n = 0u64;
		for assign in 0..27u32 {
			let comps = [(assign % 3) as u8, (assign / 3 % 3) as u8, (assign / 9) as u8];
			let enc = |src: &MemSource, comp: u8, name: &str| -> MemSource {
				let tiles: TileMap = src.tiles.iter().map(|(k, v)| (*k, crate::codec::encode_with(comp, v))).collect();
				MemSource::new(name, tiles, TileFormat::BIN, ct::comp_from_id(comp))
			};
			let cfac = pipeline::factory(vec![enc(&a, comps[0], "a"), enc(&b, comps[1], "b"), enc(&c, comps[2], "c")], &work.0);
			for order in [[0usize, 1, 2], [0, 2, 1], [1, 0, 2], [1, 2, 0], [2, 0, 1], [2, 1, 0]] {
				for k in [2usize, 3] {
					if k == 2 && order[2] != *order.iter().max().unwrap() && assign % 2 == 1 {
						continue;
					}
					let vpl = format!("from_overlayed [ {} ]", order[..k].iter().map(|i| m(*i)).collect::<Vec<_>>().join(", "));
					match pipeline::build_op(&rt, &cfac, &vpl) {
						Ok(op) => {
							check_pyramid(&ctx, &rt, "pipeline", &vpl, &AnySrc::Op(op), &probe, false, json!({"vpl": vpl, "stored_compressions": comps}));
							ctx.trace(1);
							n += 1;
						}
						Err(e) => ctx.violation("pipeline cannot be built", &format!("{vpl} (stored compressions {comps:?}): {e}"), json!({"vpl": vpl, "stored_compressions": comps})),
					}
				}
			}
		}
		ctx.outcome_n("overlays x stored compressions x orders", n);
	}
	ctx.exhaustive(true);
	drop(work);
}

pub fn replay(_ctx: Arc<Ctx>, case: &Value) {
	println!("  case: {case}");
	println!("  re-run ./check C03 quick (deterministic) to reproduce");
}
