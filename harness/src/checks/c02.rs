//! C02 — the bounding-box tile stream equals the single-tile lookups inside the box.
//!
//! Bounded-exhaustive: sources (five container readers over representative tile sets written by the
//! repository's writers, the converting reader with all flag combinations, pipeline operations and
//! nestings) x boxes (all boxes at low zoom, every box with corners from a border alphabet at
//! high zoom, all empty encodings). The stream runs on a real multi-thread runtime.

use crate::containers::{self as ct, Cont};
use crate::ctx::{fnv_str, Ctx, Tier};
use crate::memsource::{Key, MemSource, TileMap};
use crate::par::{catch, panic_site, par_for};
use crate::pipeline::{self, AnySrc};
use crate::tilesets;
use serde_json::{json, Value};
use std::collections::BTreeMap;
use std::sync::Arc;
use versatiles_container::{TilesConvertReader, TilesConverterParameters};
use versatiles_core::types::*;

pub type RawBox = (u8, u32, u32, u32, u32);

pub fn from_raw(r: RawBox) -> TileBBox {
	TileBBox { level: r.0, x_min: r.1, y_min: r.2, x_max: r.3, y_max: r.4, max: ((1u64 << r.0) - 1) as u32 }
}
pub fn raw(b: &TileBBox) -> RawBox {
	(b.level, b.x_min, b.y_min, b.x_max, b.y_max)
}

pub fn all_boxes(z: u8) -> Vec<RawBox> {
	let n = 1u32 << z;
	let mut v = vec![];
	for x0 in 0..n {
		for x1 in x0..n {
			for y0 in 0..n {
				for y1 in y0..n {
					v.push((z, x0, y0, x1, y1));
				}
			}
		}
	}
	v
}

pub fn empty_boxes() -> Vec<RawBox> {
	let mut v = vec![];
	for z in [0u8, 1, 7, 8, 9, 31] {
		v.push(raw(&TileBBox::new_empty(z).unwrap()));
		let mut e = TileBBox::new_full(z).unwrap();
		e.set_empty();
		v.push(raw(&e));
		if z >= 1 {
			// half-empty result of a disjoint intersection
			let mut a = TileBBox::new(z, 0, 0, 0, 0).unwrap();
			a.intersect_bbox(&TileBBox::new(z, 1, 0, 1, 1).unwrap()).unwrap();
			v.push(raw(&a));
		}
	}
	v
}

/// boxes at level z with corners from a border alphabet built around the coverage interval
pub fn border_boxes(z: u8, cov: Option<(u32, u32, u32, u32)>, rich: bool) -> Vec<RawBox> {
	let max = ((1u64 << z) - 1) as u32;
	let mut ax: Vec<u32> = vec![0, max];
	let mut ay: Vec<u32> = vec![0, max];
	for v in [255u32, 256, 511] {
		if v <= max {
			ax.push(v);
			ay.push(v);
		}
	}
	if let Some((x0, y0, x1, y1)) = cov {
		for (a, lo, hi) in [(&mut ax, x0, x1), (&mut ay, y0, y1)] {
			a.push(lo);
			a.push(hi);
			if rich {
				if lo > 0 {
					a.push(lo - 1);
				}
				if hi < max {
					a.push(hi + 1);
				}
			}
		}
	}
	for a in [&mut ax, &mut ay] {
		a.sort();
		a.dedup();
	}
	let mut v = vec![];
	for (i, &x0) in ax.iter().enumerate() {
		for &x1 in &ax[i..] {
			for (j, &y0) in ay.iter().enumerate() {
				for &y1 in &ay[j..] {
					v.push((z, x0, y0, x1, y1));
				}
			}
		}
	}
	v
}

pub struct Source {
	/// class used in violation signatures (one per kind of source); `name` carries the details
	pub class: String,
	pub name: String,
	pub src: AnySrc,
	/// coordinates that may hold tiles (superset); used for boxes too large to probe exhaustively
	pub universe: Vec<Key>,
	/// whether every coordinate may hold a tile (generators): big boxes are skipped
	pub dense_everywhere: bool,
	/// whether the stream's cost is proportional to the box area (the trait's default lookup loop)
	pub area_cost: bool,
	pub build: Value,
}

fn universe_of(sets: &[&TileMap]) -> Vec<Key> {
	let mut u = std::collections::BTreeSet::new();
	for s in sets {
		for &(z, x, y) in s.keys() {
			let m = ((1u64 << z) - 1) as u32;
			for (a, b) in [(x, y), (y, x), (x, m - y), (m - y, x), (y, m - x), (m - x, y)] {
				u.insert((z, a, b));
			}
		}
	}
	u.into_iter().collect()
}

const PROBE_AREA: u64 = 4096;

/// The oracle for one (source, box).
pub fn check_box(ctx: &Ctx, rt: &tokio::runtime::Runtime, s: &Source, b: RawBox, cache: &mut BTreeMap<Key, Option<Vec<u8>>>) {
	let bbox = from_raw(b);
	let area = bbox.count_tiles();
	if s.dense_everywhere && area > PROBE_AREA {
		return;
	}
	if s.area_cost && area > 300_000 {
		return;
	}
	let case = json!({"source": s.build, "bbox": b});
	// expected from lookups
	let coords: Vec<Key> = if area <= PROBE_AREA {
		bbox.iter_coords().map(|c| (c.z, c.x, c.y)).collect()
	} else {
		s.universe.iter().copied().filter(|k| k.0 == b.0 && k.1 >= b.1 && k.1 <= b.3 && k.2 >= b.2 && k.2 <= b.4).collect()
	};
	let mut expected: Vec<(Key, Vec<u8>)> = vec![];
	for k in coords {
		let v = match cache.get(&k) {
			Some(v) => v.clone(),
			None => {
				let r = catch(|| rt.block_on(s.src.lookup(k)));
				let v = match r {
					Ok(Ok(v)) => v,
					Ok(Err(e)) => {
						ctx.violation(&format!("{}: lookup fails: {}", s.class, super::c01::norm_msg(&e.to_string())), &format!("lookup {k:?}: {e:#}"), case.clone());
						None
					}
					Err(p) => {
						ctx.violation(&format!("{}: lookup panics at {}", s.class, panic_site(&p)), &format!("lookup {k:?}: {p}"), case.clone());
						None
					}
				};
				cache.insert(k, v.clone());
				v
			}
		};
		if let Some(v) = v {
			expected.push((k, v));
		}
	}
	ctx.eval();
	let got = catch(|| rt.block_on(s.src.stream(bbox.clone())));
	let kind = if bbox.is_empty() {
		"empty box"
	} else if !s.src.parameters().bbox_pyramid.get_level_bbox(b.0).is_empty() && {
		let lv = s.src.parameters().bbox_pyramid.get_level_bbox(b.0);
		b.1 >= lv.x_min && b.3 <= lv.x_max && b.2 >= lv.y_min && b.4 <= lv.y_max
	} {
		"box inside the advertised coverage"
	} else {
		"box reaching beyond the advertised coverage"
	};
	match got {
		Err(p) => {
			ctx.violation(&format!("{}: stream panics at {} ({kind})", s.class, panic_site(&p)), &format!("{}: stream over {b:?}: {p}", s.name), case);
		}
		Ok(mut got) => {
			got.sort();
			expected.sort();
			if got != expected {
				let outside = got.iter().filter(|(k, _)| !(k.0 == b.0 && k.1 >= b.1 && k.1 <= b.3 && k.2 >= b.2 && k.2 <= b.4)).count();
				let clause = if outside > 0 {
					"stream delivers tiles outside the box"
				} else if got.len() < expected.len() {
					"stream misses tiles that lookups return"
				} else if got.len() > expected.len() {
					"stream delivers tiles that lookups do not return (or twice)"
				} else {
					"stream delivers other bytes than lookups"
				};
				let gk: Vec<&Key> = got.iter().map(|e| &e.0).take(6).collect();
				let ek: Vec<&Key> = expected.iter().map(|e| &e.0).take(6).collect();
				ctx.violation(&format!("{}: {clause} ({kind})", s.class), &format!("{}: box {b:?}: stream gave {} tiles {gk:?}.., lookups give {} tiles {ek:?}..", s.name, got.len(), expected.len()), case);
			}
			if !expected.is_empty() {
				ctx.nontrivial(fnv_str(&format!("{}{b:?}", s.name)));
			}
		}
	}
}

fn rep_sets() -> Vec<(String, TileMap)> {
	let p = tilesets::payload_alphabet();
	let mut v = vec![];
	let mut s1 = TileMap::new();
	s1.insert((0, 0, 0), p[0].clone());
	v.push(("single tile at z0".to_string(), s1));
	let mut s2 = TileMap::new();
	for (x, y) in [(0, 0), (1, 0), (0, 1), (1, 1)] {
		s2.insert((1, x, y), format!("z1 {x} {y}").into_bytes());
	}
	s2.insert((3, 1, 2), p[3].clone());
	v.push(("all of z1 plus one tile at z3 (zoom gap)".to_string(), s2));
	let mut s3 = TileMap::new();
	for (x, y) in [(255, 255), (256, 255), (255, 256), (256, 256), (0, 511), (511, 0)] {
		s3.insert((9, x, y), format!("z9 {x} {y}").into_bytes());
	}
	v.push(("z9 around the block corner plus two far corners".to_string(), s3));
	let mut s4 = TileMap::new();
	s4.insert((10, 5, 5), p[1].clone());
	s4.insert((10, 700, 5), p[1].clone());
	s4.insert((0, 0, 0), p[2].clone());
	v.push(("z10 two tiles with an empty block in between, plus z0".to_string(), s4));
	v.push(("dense 20x20 at z9 across four blocks".to_string(), tilesets::family_dense(9, 246, 246, 20, 20, 16)));
	v.push(("full z2".to_string(), tilesets::family_dense(2, 0, 0, 4, 4, 8)));
	// equal payloads inside one block (stored once by the versatiles writer, so several coordinates share a byte range)
	let mut shared = TileMap::new();
	for x in 0..8u32 {
		for y in 0..8u32 {
			shared.insert((3, x, y), if (x + y) % 3 == 0 { b"ocean".to_vec() } else if x == y { b"land".to_vec() } else { format!("t{x}{y}").into_bytes() });
		}
	}
	v.push(("full z3 with payloads shared by many coordinates".to_string(), shared));
	// rows and columns whose numbers change their digit count (9 -> 10): listed by name they are not in numeric order
	v.push(("dense 6x8 at z4, columns 8..13 and rows 6..13 (names cross a digit boundary)".to_string(), tilesets::family_dense(4, 8, 6, 6, 8, 9)));
	// 2 KiB tiles: a box narrower than the block skips more than the reader's 32 KiB read-chunk gap per row
	v.push(("dense 44x10 at z9 with 2 KiB tiles (read-chunk splits)".to_string(), tilesets::family_dense(9, 210, 250, 44, 10, 2048)));
	v
}

fn level_cov(p: &TileBBoxPyramid, z: u8) -> Option<(u32, u32, u32, u32)> {
	let b = p.get_level_bbox(z);
	if b.is_empty() {
		None
	} else {
		Some((b.x_min, b.y_min, b.x_max, b.y_max))
	}
}

fn boxes_for(s: &Source, tier: Tier, levels: &[u8]) -> Vec<RawBox> {
	let mut v = vec![];
	for z in 0..=tier.pick(2u8, 3u8) {
		v.extend(all_boxes(z));
	}
	for &z in levels {
		if z > tier.pick(2u8, 3u8) {
			v.extend(border_boxes(z, level_cov(&s.src.parameters().bbox_pyramid, z), tier == Tier::Thorough));
		}
	}
	v.extend(empty_boxes());
	v.sort();
	v.dedup();
	v
}

pub fn vpl_sources(mem: &[MemSource]) -> Vec<(String, String, Vec<u8>)> {
	// (name, vpl, levels to probe with border boxes)
	let m = |i: usize| format!("from_container filename=\"mem:{i}\"");
	let _ = mem;
	vec![
		("pipeline from_container".into(), m(0), vec![9]),
		("pipeline filter_zoom".into(), format!("{} | filter_zoom min=1 max=9", m(1)), vec![9]),
		("pipeline filter_bbox".into(), format!("{} | filter_bbox bbox=[-90,-45,90,45]", m(0)), vec![9]),
		("pipeline from_overlayed".into(), format!("from_overlayed [ {}, {}, {} ]", m(0), m(1), m(2)), vec![9, 10]),
		("pipeline from_overlayed of filters".into(), format!("from_overlayed [ {} | filter_zoom max=1, {} | filter_bbox bbox=[0,0,180,85] ] | filter_zoom min=1", m(1), m(0)), vec![9]),
		("pipeline nested overlay".into(), format!("from_overlayed [ from_overlayed [ {}, {} ] | filter_bbox bbox=[-180,-85,0,85], {} ]", m(2), m(0), m(1)), vec![9, 10]),
		("pipeline from_debug pbf".into(), "from_debug format=pbf".into(), vec![9, 31]),
		("pipeline from_debug filtered".into(), "from_debug format=pbf | filter_zoom max=2 | filter_bbox bbox=[-180,-85,0,0]".into(), vec![]),
	]
}

pub fn run(ctx: Arc<Ctx>) {
	ctx.rule(
		"sources: 5 container readers x 9 representative tile sets written by the repository's writers (incl. payloads shared by many coordinates of one block); PMTiles (run lengths, shared offsets, leaf directories) and versatiles containers from the independent encoders, tar archives of another tool with hard-link members, a directory tree with zero-padded aliases and mixed spellings of one format; a reader with the trait's default box stream whose lookups answer after uneven delays; TilesConvertReader x 4 flag combinations x {unrestricted, restricted} over a MemSource and a versatiles file, and recompressing (gzip -> gzip/brotli/none, with and without force; none -> gzip/brotli over a source that holds zero-length tiles); \
		 pipeline operations and nestings over MemSources, from_debug and a real versatiles file. boxes: all boxes at z<=2 (quick) / z<=3 (thorough), every box with corners from {0,255,256,511,cov_min(-1),cov_max(+1),max} at the sets' high zoom levels, all empty encodings at z 0,1,7,8,9,31. \
		 oracle: multiset of streamed (coord, bytes) = lookups over the box. non-trivial = (source, box) pairs whose expected result is non-empty",
	);
	ctx.assume("for boxes larger than 4096 tiles the expected side is computed from lookups over the universe of coordinates that can hold a tile for that source (all flip/swap images of the underlying tile sets), not over every coordinate");
	let work = ct::WorkDir::new("c02");
	let rt = crate::memsource::runtime(4);
	let sets = rep_sets();
	let mut sources: Vec<(Source, Vec<u8>)> = vec![];
	// A. container readers
	for cont in ct::ALL_CONT {
		for (si, (name, tiles)) in sets.iter().enumerate() {
			let (f, c) = match cont {
				Cont::Mbtiles => (TileFormat::PNG, TileCompression::Uncompressed),
				_ => (TileFormat::BIN, TileCompression::Gzip),
			};
			let mut src = MemSource::new("mem", tiles.clone(), f, c);
			let w = match ct::write(&rt, cont, &mut src, &work.0, &format!("a{si}")) {
				Ok(w) => w,
				Err(e) => {
					ctx.outcome(&format!("setup: {} writer failed for '{name}': {}", cont.name(), super::c01::norm_msg(&e)));
					continue;
				}
			};
			match ct::open(&rt, cont, &w) {
				Ok(r) => {
					let levels: Vec<u8> = tiles.keys().map(|k| k.0).collect::<std::collections::BTreeSet<_>>().into_iter().collect();
					sources.push((
						Source { class: format!("{} reader", cont.name()), name: format!("{} reader over '{name}'", cont.name()), src: AnySrc::Reader(r), universe: universe_of(&[tiles]), dense_everywhere: false, area_cost: !matches!(cont, Cont::Versatiles | Cont::Mbtiles), build: json!({"kind": "reader", "cont": cont, "set": si}) },
						levels,
					));
				}
				Err(e) => ctx.outcome(&format!("setup: {} reader failed for '{name}': {}", cont.name(), super::c01::norm_msg(&e))),
			}
		}
	}
	// A2. containers as other writers produce them (independent encoders): PMTiles with run lengths / shared
	// offsets / leaf directories, versatiles with partial block coverage and shared ranges
	{
		use crate::codec::{PmLayout, VtLayout};
		let mut runs = TileMap::new();
		for id in 5u64..60 {
			let k = crate::codec::pm_id_to_zxy(id).unwrap();
			runs.insert(k, if id % 7 < 4 { b"same".to_vec() } else { format!("t{id}").into_bytes() });
		}
		runs.insert((0, 0, 0), b"same".to_vec());
		let foreign: Vec<(String, Cont, Vec<u8>)> = vec![
			("pmtiles, run lengths + leaf directories".into(), Cont::Pmtiles, crate::codec::pm_encode(&runs, 2, 1, b"{}", PmLayout { internal_gzip: true, run_lengths: true, share_offsets: false, leaf_levels: 1, leaf_size: 3, clustered: true, data_reversed: false })),
			("pmtiles, run lengths + shared offsets, root only".into(), Cont::Pmtiles, crate::codec::pm_encode(&runs, 2, 1, b"{}", PmLayout { internal_gzip: false, run_lengths: true, share_offsets: true, leaf_levels: 0, leaf_size: 2, clustered: true, data_reversed: false })),
			("versatiles, last layout of the independent encoder".into(), Cont::Versatiles, crate::codec::vt_encode(&sets[4].1, 0x10, 0, b"{}", *VtLayout::all().last().unwrap())),
			("versatiles, layout #37".into(), Cont::Versatiles, crate::codec::vt_encode(&sets[2].1, 0x10, 0, b"{}", VtLayout::all()[37])),
		];
		for (fi, (name, cont, bytes)) in foreign.into_iter().enumerate() {
			let tiles = if cont == Cont::Pmtiles { &runs } else if fi == 2 { &sets[4].1 } else { &sets[2].1 };
			match ct::open(&rt, cont, &ct::Written::Bytes(bytes)) {
				Ok(r) => {
					let levels: Vec<u8> = tiles.keys().map(|k| k.0).collect::<std::collections::BTreeSet<_>>().into_iter().filter(|z| *z > 3).collect();
					sources.push((Source { class: format!("{} reader (container of another writer)", cont.name()), name: format!("{} reader over {name}", cont.name()), src: AnySrc::Reader(r), universe: universe_of(&[tiles]), dense_everywhere: false, area_cost: cont != Cont::Versatiles, build: json!({"kind": "foreign", "index": fi}) }, levels));
				}
				Err(e) => ctx.outcome(&format!("setup: reader rejects a container of another writer (C16's subject): {}", super::c01::norm_msg(&e))),
			}
		}
		// tar archives of another tool: repeated payloads stored once and named again as hard-link members (GNU tar does
		// this for hard-linked files), members in reverse order, './' prefix
		{
			let mut shared = TileMap::new();
			for (x, y) in [(0u32, 0u32), (1, 0), (2, 0), (0, 1), (3, 3), (7, 7), (5, 2)] {
				shared.insert((3, x, y), if (x + y) % 2 == 0 { b"ocean ocean ocean".to_vec() } else { format!("land {x} {y}").into_bytes() });
			}
			shared.insert((9, 255, 255), b"ocean ocean ocean".to_vec());
			shared.insert((9, 256, 256), b"ocean ocean ocean".to_vec());
			shared.insert((9, 256, 255), b"coast".to_vec());
			let members: Vec<(String, Vec<u8>)> = shared.iter().map(|(k, v)| (format!("{}/{}/{}.bin", k.0, k.1, k.2), v.clone())).collect();
			for (li, layout) in [crate::codec::TarLayout { dot_prefix: false, dir_entries: false, gnu: true, reversed: false, meta_last: false }, crate::codec::TarLayout { dot_prefix: true, dir_entries: true, gnu: false, reversed: true, meta_last: true }].into_iter().enumerate() {
				let path = work.0.join(format!("links{li}.tar"));
				std::fs::write(&path, crate::codec::tar_write_hard_links(&members, layout)).unwrap();
				match ct::open(&rt, Cont::Tar, &ct::Written::Path(path)) {
					Ok(r) => sources.push((Source { class: "tar reader (archive of another tool, hard-link members)".into(), name: format!("tar reader over an archive with hard-link members, layout {li}"), src: AnySrc::Reader(r), universe: universe_of(&[&shared]), dense_everywhere: false, area_cost: true, build: json!({"kind": "tar-links", "index": li}) }, vec![9])),
					Err(e) => ctx.outcome(&format!("setup: reader rejects a tar archive of another tool (C16's subject): {}", super::c01::norm_msg(&e))),
				}
			}
		}
		// a directory tree in which two paths name the same tile (zero-padded spellings, as some export tools write them,
		// next to the plain ones) and spellings of one format are mixed: whatever the reader decides such a tree holds,
		// its stream and its lookups must agree on it
		{
			let root = work.0.join("aliased.dir");
			let files: Vec<(String, Vec<u8>)> = vec![
				("2/1/2.jpg".into(), b"plain 2/1/2".to_vec()),
				("2/1/02.jpg".into(), b"padded 2/1/02".to_vec()),
				("2/01/3.jpeg".into(), b"padded column 2/01/3".to_vec()),
				("2/1/3.jpg".into(), b"plain 2/1/3".to_vec()),
				("02/2/2.jpeg".into(), b"padded level 02/2/2".to_vec()),
				("2/3/0.JPG".into(), b"upper case 2/3/0".to_vec()),
				("1/0/1.jpg".into(), b"plain 1/0/1".to_vec()),
				("1/0/01.jpeg".into(), b"padded, other spelling 1/0/01".to_vec()),
				("9/255/256.jpeg".into(), b"9/255/256".to_vec()),
				("9/256/256.jpg".into(), b"9/256/256".to_vec()),
			];
			crate::codec::dir_write(&root, &files).unwrap();
			let mut uni = TileMap::new();
			for k in [(2u8, 1u32, 2u32), (2, 1, 3), (2, 2, 2), (2, 3, 0), (1, 0, 1), (9, 255, 256), (9, 256, 256)] {
				uni.insert(k, vec![]);
			}
			match ct::open(&rt, Cont::Directory, &ct::Written::Path(root)) {
				Ok(r) => sources.push((Source { class: "directory reader (tree with aliased and mixed spellings)".into(), name: "directory reader over a tree with zero-padded aliases and mixed .jpg/.jpeg/.JPG".into(), src: AnySrc::Reader(r), universe: universe_of(&[&uni]), dense_everywhere: false, area_cost: true, build: json!({"kind": "dir-aliased"}) }, vec![9])),
				Err(e) => ctx.outcome(&format!("setup: reader rejects a directory tree with aliased spellings: {}", super::c01::norm_msg(&e))),
			}
		}
		// a reader that only implements lookups (box stream = the trait's default), answering after a coordinate-dependent number of Pending polls
		let plain = crate::memsource::PlainSource(MemSource::new("plain", sets[4].1.clone(), TileFormat::BIN, TileCompression::Uncompressed).with_uneven_yields());
		sources.push((Source { class: "reader with the trait's default box stream".into(), name: "plain reader, uneven answer times".into(), src: AnySrc::Reader(Box::new(plain)), universe: universe_of(&[&sets[4].1]), dense_everywhere: false, area_cost: true, build: json!({"kind": "plain-uneven"}) }, vec![9]));
	}
	// B. converting reader
	let conv_tiles = {
		let mut t = tilesets::family_dense(3, 0, 0, 8, 8, 10);
		t.remove(&(3, 1, 0));
		t.remove(&(3, 6, 5));
		t.extend(tilesets::family_dense(9, 250, 254, 10, 4, 12));
		t
	};
	// (target compression, force flag): the lookup path recompresses blob by blob, the stream path through the
	// parallel converter stage
	for (tc, force) in [(Some(TileCompression::Gzip), false), (Some(TileCompression::Brotli), true), (Some(TileCompression::Uncompressed), true)] {
		let inner = Box::new(MemSource::new("mem", conv_tiles.iter().map(|(k, v)| (*k, crate::codec::gzip(v))).collect(), TileFormat::BIN, TileCompression::Gzip));
		let mut cp = TilesConverterParameters::new_default();
		cp.tile_compression = tc;
		cp.force_recompress = force;
		cp.flip_y = force;
		match TilesConvertReader::new_from_reader(inner, cp) {
			Ok(r) => sources.push((
				Source {
					class: "converting reader (recompressing)".into(),
					name: format!("converting reader gzip -> {tc:?} force={force}"),
					src: AnySrc::Reader(Box::new(r)),
					universe: universe_of(&[&conv_tiles]),
					dense_everywhere: false,
					area_cost: true,
					build: json!({"kind": "converter-recompress", "target": format!("{tc:?}"), "force": force}),
				},
				vec![3, 9],
			)),
			Err(e) => ctx.outcome(&format!("setup: converter failed: {e}")),
		}
	}
	// the same over an uncompressed source that holds a zero-length tile (a source may hold one: lookups return it): the
	// compressing stage must treat it like any other tile on both paths
	for (tc, force, flip) in [(TileCompression::Gzip, false, false), (TileCompression::Brotli, true, true), (TileCompression::Gzip, true, false)] {
		let mut with_empty = conv_tiles.clone();
		with_empty.insert((3, 1, 0), vec![]);
		with_empty.insert((9, 252, 255), vec![]);
		let inner = Box::new(MemSource::new("mem", with_empty.clone(), TileFormat::BIN, TileCompression::Uncompressed));
		let mut cp = TilesConverterParameters::new_default();
		cp.tile_compression = Some(tc);
		cp.force_recompress = force;
		cp.flip_y = flip;
		match TilesConvertReader::new_from_reader(inner, cp) {
			Ok(r) => sources.push((
				Source {
					class: "converting reader (compressing a source with a zero-length tile)".into(),
					name: format!("converting reader none -> {tc:?} force={force} flip={flip}, source with zero-length tiles"),
					src: AnySrc::Reader(Box::new(r)),
					universe: universe_of(&[&with_empty]),
					dense_everywhere: false,
					area_cost: true,
					build: json!({"kind": "converter-compress-empty", "target": format!("{tc:?}"), "force": force}),
				},
				vec![3, 9],
			)),
			Err(e) => ctx.outcome(&format!("setup: converter failed: {e}")),
		}
	}
	for over_file in [false, true] {
		for flags in 0..4u8 {
			for restricted in [false, true] {
				let (flip, swap) = (flags & 1 != 0, flags & 2 != 0);
				let inner: Box<dyn TilesReaderTrait> = if over_file {
					let mut src = MemSource::new("mem", conv_tiles.clone(), TileFormat::BIN, TileCompression::Uncompressed);
					let w = ct::write(&rt, Cont::Versatiles, &mut src, &work.0, "conv").expect("versatiles write");
					ct::open(&rt, Cont::Versatiles, &w).expect("open")
				} else {
					Box::new(MemSource::new("mem", conv_tiles.clone(), TileFormat::BIN, TileCompression::Uncompressed))
				};
				let mut cp = TilesConverterParameters::new_default();
				cp.flip_y = flip;
				cp.swap_xy = swap;
				if restricted {
					let mut p = TileBBoxPyramid::new_empty();
					p.set_level_bbox(TileBBox::new(3, 1, 1, 6, 4).unwrap());
					p.set_level_bbox(TileBBox::new(9, 252, 255, 257, 300).unwrap());
					cp.bbox_pyramid = Some(p);
				}
				match TilesConvertReader::new_from_reader(inner, cp) {
					Ok(r) => sources.push((
						Source {
							class: "converting reader".into(),
							name: format!("converting reader{}{}{}", if flip { " flip_y" } else { "" }, if swap { " swap_xy" } else { "" }, if restricted { " restricted" } else { "" }),
							src: AnySrc::Reader(Box::new(r)),
							universe: universe_of(&[&conv_tiles]),
							dense_everywhere: false,
							area_cost: !over_file,
							build: json!({"kind": "converter", "flip": flip, "swap": swap, "restricted": restricted, "over_file": over_file}),
						},
						vec![3, 9],
					)),
					Err(e) => ctx.outcome(&format!("setup: converter failed: {e}")),
				}
			}
		}
	}
	// C. pipelines
	let mem: Vec<MemSource> = vec![
		// the first source answers late (two Pending polls), the others sooner: list order must still win
		MemSource::new("m0", sets[4].1.clone(), TileFormat::BIN, TileCompression::Uncompressed).with_yields(2),
		// declared gzip: payloads really are gzip streams (the overlay re-encodes mixed compressions)
		MemSource::new("m1", { let mut t = sets[1].1.clone(); t.extend(sets[2].1.clone()); t.into_iter().map(|(k, v)| (k, crate::codec::gzip(&v))).collect() }, TileFormat::BIN, TileCompression::Gzip),
		MemSource::new("m2", { let mut t = sets[3].1.clone(); t.extend(tilesets::family_dense(9, 250, 250, 8, 8, 9)); t }, TileFormat::BIN, TileCompression::Uncompressed).with_yields(1),
	];
	// vector tile sources, written by the independent encoder in the field order of common third-party
	// encoders (version first, explicit extent), two layers each, one layer name shared between the sources
	let mvt_tile = |who: &str, k: &Key| -> Vec<u8> {
		use crate::mvt::{self, feat, layer, point, s};
		let id = format!("{}", 7 + (k.1 + k.2) % 3);
		let (l1, l2) = if who == "A" { ("roads", "water") } else { ("water", "pois") };
		mvt::encode_tile(&[
			layer(l1, &["id", "src"], vec![s(&id), s(who)], vec![feat(Some(k.1 as u64 * 1000 + k.2 as u64), &[0, 0, 1, 1], 1, point(k.1 as i32 % 4096, k.2 as i32 % 4096))]),
			layer(l2, &["z"], vec![s(&format!("{}", k.0))], vec![feat(None, &[0, 0], 1, point(5, 5)), feat(Some(2), &[], 1, point(6, 6))]),
		])
	};
	let mut va = TileMap::new();
	let mut vb = TileMap::new();
	for (x, y) in [(0u32, 0u32), (1, 0), (0, 1), (1, 1)] {
		va.insert((1, x, y), mvt_tile("A", &(1, x, y)));
	}
	vb.insert((1, 0, 0), mvt_tile("B", &(1, 0, 0)));
	vb.insert((1, 1, 1), mvt_tile("B", &(1, 1, 1)));
	vb.insert((2, 3, 3), mvt_tile("B", &(2, 3, 3)));
	for x in 0..4u32 {
		for y in 0..4u32 {
			va.insert((9, 254 + x, 254 + y), mvt_tile("A", &(9, 254 + x, 254 + y)));
			vb.insert((9, 256 + x, 256 + y), mvt_tile("B", &(9, 256 + x, 256 + y)));
		}
	}
	let mut mem = mem;
	mem.push(MemSource::new("m3", va.clone(), TileFormat::PBF, TileCompression::Uncompressed));
	mem.push(MemSource::new("m4", vb.iter().map(|(k, v)| (*k, crate::codec::gzip(v))).collect(), TileFormat::PBF, TileCompression::Gzip).with_yields(1));
	mem.push(MemSource::new("m5", tilesets::family_full_pyramid(3), TileFormat::BIN, TileCompression::Uncompressed));
	std::fs::write(work.0.join("c02.csv"), "data_id,name\n7,seven\n8,eight\n").unwrap();
	let mut all_sets: Vec<&TileMap> = sets.iter().map(|s| &s.1).collect();
	all_sets.push(&va);
	all_sets.push(&vb);
	let fac = pipeline::factory(mem.clone(), &work.0);
	let mut vpls = vpl_sources(&mem);
	{
		let m = |i: usize| format!("from_container filename=\"mem:{i}\"");
		vpls.push(("pipeline from_vectortiles_merged".into(), format!("from_vectortiles_merged [ {}, {} ]", m(3), m(4)), vec![9]));
		vpls.push(("pipeline from_vectortiles_merged of filters".into(), format!("from_vectortiles_merged [ {} | filter_zoom max=2, {} ] | filter_bbox bbox=[-180,-85,90,85]", m(3), m(4)), vec![9]));
		vpls.push(("pipeline vectortiles_update_properties".into(), format!("{} | vectortiles_update_properties data_source_path=\"c02.csv\" layer_name=\"roads\" id_field_tiles=\"id\" id_field_data=\"data_id\"", m(3)), vec![9]));
		vpls.push(("pipeline vectortiles_update_properties, layer in some tiles only".into(), format!("from_overlayed [ {}, {} ] | vectortiles_update_properties data_source_path=\"c02.csv\" layer_name=\"pois\" id_field_tiles=\"id\" id_field_data=\"data_id\"", m(3), m(4)), vec![9]));
		vpls.push(("pipeline vectortiles_update_properties, layer in no tile".into(), format!("{} | vectortiles_update_properties data_source_path=\"c02.csv\" layer_name=\"absent\" id_field_tiles=\"id\" id_field_data=\"data_id\"", m(3)), vec![9]));
		// geographic boxes whose edges are tile borders (lon 0 / 90, lat 0 / 66.513.. / 40.979..)
		vpls.push(("pipeline filter_bbox with tile-aligned edges".into(), format!("{} | filter_bbox bbox=[0,0,90,66.51326044311186]", m(5)), vec![]));
		vpls.push(("pipeline filter_bbox with tile-aligned edges".into(), format!("{} | filter_bbox bbox=[-90,-66.51326044311186,0,40.97989806962013]", m(5)), vec![]));
		vpls.push(("pipeline filter_bbox with tile-aligned edges".into(), format!("{} | filter_bbox bbox=[-135,-40.97989806962013,45,79.17133464081945] | filter_bbox bbox=[-45,0,180,85]", m(5)), vec![]));
		vpls.push(("pipeline overlay of vector sources".into(), format!("from_overlayed [ {}, {} ]", m(4), m(3)), vec![9]));
	}
	{
		// a real versatiles file inside a pipeline
		let mut src = MemSource::new("mem", sets[2].1.clone(), TileFormat::BIN, TileCompression::Uncompressed);
		if let Ok(ct::Written::Bytes(b)) = ct::write(&rt, Cont::Versatiles, &mut src, &work.0, "pfile") {
			std::fs::write(work.0.join("pfile.versatiles"), b).unwrap();
			vpls.push(("pipeline over a versatiles file".into(), "from_overlayed [ from_container filename=\"pfile.versatiles\" | filter_zoom min=9, from_container filename=\"mem:0\" ]".into(), vec![9]));
		}
	}
	for (name, vpl, levels) in vpls {
		match pipeline::build_op(&rt, &fac, &vpl) {
			Ok(op) => {
				let dense = vpl.contains("from_debug");
				sources.push((Source { class: name.clone(), name: format!("{name}: {vpl}"), src: AnySrc::Op(op), universe: universe_of(&all_sets), dense_everywhere: dense, area_cost: true, build: json!({"kind": "vpl", "vpl": vpl}) }, levels));
			}
			Err(e) => ctx.violation(&format!("{name}: pipeline cannot be built"), &format!("{vpl}: {e}"), json!({"vpl": vpl})),
		}
	}
	ctx.extra("sources", json!(sources.len()));
	ctx.state(sources.len() as u64);
	// run: one worker per source (each has its own lookup cache); streams run on the shared multi-thread runtime
	let tier = ctx.tier;
	let ctxr: &Ctx = &ctx;
	let srcs = &sources;
	let rtr = &rt;
	par_for(sources.len(), |i| {
		let (s, levels) = &srcs[i];
		let boxes = boxes_for(s, tier, levels);
		let mut cache = BTreeMap::new();
		for b in &boxes {
			check_box(ctxr, rtr, s, *b, &mut cache);
		}
		ctxr.transition(boxes.len() as u64);
		ctxr.trace(boxes.len() as u64);
		ctxr.outcome_n(&format!("{}: boxes", s.name), boxes.len() as u64);
		if i % 9 == 0 {
			ctxr.sample(json!({"source": s.build, "name": s.name, "boxes": boxes.len(), "example_box": boxes[boxes.len() / 2]}));
		}
	});
	ctx.exhaustive(true);
	drop(sources);
	drop(work);
}

pub fn replay(_ctx: Arc<Ctx>, case: &Value) {
	println!("  case: {case}");
	println!("  C02 sources are rebuilt by the full check; re-run ./check C02 quick (deterministic) to reproduce this (source, box) pair");
}
