//! C09 — zoom and bounding-box filters pass exactly the tiles inside the filter.

use crate::containers::{self as ct, Cont};
use crate::ctx::{fnv_str, Ctx, Tier};
use crate::memsource::{Key, MemSource, TileMap};
use crate::par::{catch, panic_site, par_for};
use crate::pipeline::{self, AnySrc};
use super::c15::{lat_alphabet, lon_alphabet, sel_interval, tile_x, tile_y};
use serde_json::{json, Value};
use std::sync::Arc;
use versatiles_core::types::*;

#[derive(Clone, Debug)]
enum Filter {
	Zoom(Option<u32>, Option<u32>),
	BBox([f64; 4]),
}

impl Filter {
	fn vpl(&self) -> String {
		match self {
			Filter::Zoom(a, b) => format!("filter_zoom{}{}", a.map(|v| format!(" min={v}")).unwrap_or_default(), b.map(|v| format!(" max={v}")).unwrap_or_default()),
			Filter::BBox(b) => format!("filter_bbox bbox=[{},{},{},{}]", b[0], b[1], b[2], b[3]),
		}
	}
	/// Some(true) definitely passes, Some(false) definitely filtered, None = within the documented rounding guard
	fn passes(&self, k: Key) -> Option<bool> {
		match self {
			Filter::Zoom(a, b) => Some(a.map(|v| k.0 as u32 >= v).unwrap_or(true) && b.map(|v| k.0 as u32 <= v).unwrap_or(true)),
			Filter::BBox(g) => {
				let n = (1u64 << k.0) as f64;
				let ix = sel_interval(tile_x(g[0], k.0).clamp(0.0, n), tile_x(g[2], k.0).clamp(0.0, n), k.0, false);
				let iy = sel_interval(tile_y(g[3], k.0).clamp(0.0, n), tile_y(g[1], k.0).clamp(0.0, n), k.0, true);
				let mut res = Some(true);
				for (iv, v) in [(ix, k.1 as i64), (iy, k.2 as i64)] {
					if v < iv.may_lo || v > iv.may_hi {
						return Some(false);
					}
					if !(iv.must_lo <= iv.must_hi && v >= iv.must_lo && v <= iv.must_hi) {
						res = None;
					}
				}
				res
			}
		}
	}
}

fn source_tiles() -> TileMap {
	let mut t = TileMap::new();
	for z in 0..=4u8 {
		for x in 0..(1u32 << z) {
			for y in 0..(1u32 << z) {
				t.insert((z, x, y), format!("{z}/{x}/{y}").into_bytes());
			}
		}
	}
	t.insert((5, 17, 11), b"5/17/11".to_vec());
	t.insert((5, 0, 31), b"5/0/31".to_vec());
	let m = (1u32 << 31) - 1;
	t.insert((31, m, m), b"far".to_vec());
	t.insert((31, 0, 0), b"near".to_vec());
	t
}

fn check_chain(ctx: &Ctx, rt: &tokio::runtime::Runtime, fac: &versatiles_pipeline::PipelineFactory, source_vpl: &str, tiles: Option<&TileMap>, chain: &[Filter], probes: &[Key], class: &str) {
	check_chain_in(ctx, rt, fac, source_vpl, tiles, chain, probes, class, None)
}

/// `as_file`: the pipeline text is written to this file and opened like a container (what `convert` / `serve` do)
fn check_chain_in(ctx: &Ctx, rt: &tokio::runtime::Runtime, fac: &versatiles_pipeline::PipelineFactory, source_vpl: &str, tiles: Option<&TileMap>, chain: &[Filter], probes: &[Key], class: &str, as_file: Option<&std::path::Path>) {
	let vpl = format!("{source_vpl}{}", chain.iter().map(|f| format!(" | {}", f.vpl())).collect::<String>());
	let case = json!({"vpl": vpl});
	ctx.eval();
	let built: Result<AnySrc, String> = match as_file {
		None => pipeline::build_op(rt, fac, &vpl).map(AnySrc::Op),
		Some(path) => {
			std::fs::write(path, &vpl).unwrap();
			match catch(|| rt.block_on(versatiles_container::get_reader(path.to_str().unwrap()))) {
				Ok(Ok(r)) => Ok(AnySrc::Reader(r)),
				Ok(Err(e)) => Err(format!("{e:#}")),
				Err(p) => Err(format!("PANIC {p}")),
			}
		}
	};
	let op = match built {
		Ok(o) => o,
		Err(e) => {
			if let Some(p) = e.strip_prefix("PANIC ") {
				ctx.violation(&format!("{class}: building a pipeline with valid filter arguments panics at {}", panic_site(p)), &format!("{vpl}: {p}"), case);
				return;
			}
			// min > max may be reported as an error at build time
			let min_gt_max = chain.iter().any(|f| matches!(f, Filter::Zoom(Some(a), Some(b)) if a > b));
			if !min_gt_max {
				ctx.violation(&format!("{class}: valid filter arguments are rejected: {}", super::c01::norm_msg(&e)), &format!("{vpl}: {e}"), case);
			}
			return;
		}
	};
	ctx.trace(1);
	let src = op;
	let decide = |k: Key| -> Option<bool> {
		let mut r = Some(true);
		for f in chain {
			match f.passes(k) {
				Some(false) => return Some(false),
				None => r = None,
				Some(true) => {}
			}
		}
		r
	};
	let has = |k: &Key| -> Option<Vec<u8>> {
		match tiles {
			Some(t) => t.get(k).cloned(),
			None => None,
		}
	};
	for &k in probes {
		let want = decide(k);
		let got = catch(|| rt.block_on(src.lookup(k)));
		match got {
			Err(p) => ctx.violation(&format!("{class}: filtered lookup panics at {}", panic_site(&p)), &format!("{vpl} {k:?}: {p}"), case.clone()),
			Ok(Err(e)) => ctx.violation(&format!("{class}: filtered lookup fails"), &format!("{vpl} {k:?}: {e:#}"), case.clone()),
			Ok(Ok(g)) => {
				if tiles.is_some() {
					let s = has(&k);
					match (want, g, s) {
						(Some(true), Some(b), Some(sv)) => {
							if b != sv {
								ctx.violation(&format!("{class}: filter changes a tile it passes"), &format!("{vpl} {k:?}"), case.clone());
							}
						}
						(Some(true), None, Some(_)) => ctx.violation(&format!("{class}: filter drops a tile inside the filter"), &format!("{vpl}: tile {k:?} is inside every filter of the chain but is not returned"), case.clone()),
						(Some(false), Some(_), _) => ctx.violation(&format!("{class}: filter passes a tile outside the filter"), &format!("{vpl}: tile {k:?} is outside the chain's range but is returned"), case.clone()),
						(_, Some(_), None) => ctx.violation(&format!("{class}: filter returns a tile the source does not have"), &format!("{vpl} {k:?}"), case.clone()),
						_ => {}
					}
				} else {
					// generator source: every coordinate has a tile
					match (want, g.is_some()) {
						(Some(true), false) => ctx.violation(&format!("{class}: filter drops a tile inside the filter"), &format!("{vpl}: tile {k:?}"), case.clone()),
						(Some(false), true) => ctx.violation(&format!("{class}: filter passes a tile outside the filter"), &format!("{vpl}: tile {k:?}"), case.clone()),
						_ => {}
					}
				}
			}
		}
	}
	// streams over whole low levels and boxes around the high-zoom tiles
	let mut boxes: Vec<TileBBox> = (0..=4u8).map(|z| TileBBox::new_full(z).unwrap()).collect();
	boxes.push(TileBBox::new(5, 0, 0, 31, 31).unwrap());
	let m = (1u32 << 31) - 1;
	boxes.push(TileBBox::new(31, m - 3, m - 3, m, m).unwrap());
	boxes.push(TileBBox::new(31, 0, 0, 2, 2).unwrap());
	for b in boxes {
		if tiles.is_none() && b.count_tiles() > 300 {
			continue;
		}
		match catch(|| rt.block_on(src.stream(b.clone()))) {
			Err(p) => ctx.violation(&format!("{class}: filtered stream panics at {}", panic_site(&p)), &format!("{vpl} box {b:?}: {p}"), case.clone()),
			Ok(items) => {
				let mut seen = std::collections::BTreeSet::new();
				for (k, bytes) in &items {
					if !seen.insert(*k) {
						ctx.violation(&format!("{class}: filtered stream delivers a tile twice"), &format!("{vpl} {k:?}"), case.clone());
					}
					if decide(*k) == Some(false) {
						ctx.violation(&format!("{class}: filtered stream passes a tile outside the filter"), &format!("{vpl}: tile {k:?} in box {b:?}"), case.clone());
					}
					if let Some(t) = tiles {
						if t.get(k) != Some(bytes) {
							ctx.violation(&format!("{class}: filtered stream changes a tile or invents one"), &format!("{vpl} {k:?}"), case.clone());
						}
					}
				}
				// lookups and the stream of one filtered source agree with each other - also on tiles inside the rounding
				// band of a geographic edge, where the oracle above leaves either answer open
				if b.count_tiles() <= 1024 {
					for c in b.iter_coords() {
						let k = (c.z, c.x, c.y);
						if let Ok(Ok(g)) = catch(|| rt.block_on(src.lookup(k))) {
							if g.is_some() != seen.contains(&k) {
								ctx.violation(&format!("{class}: lookup and stream of the filtered source disagree"), &format!("{vpl}: tile {k:?}: lookup {}, stream over {b:?} {}", if g.is_some() { "returns it" } else { "returns nothing" }, if seen.contains(&k) { "delivers it" } else { "does not" }), case.clone());
								break;
							}
						}
					}
				}
				let cands: Vec<Key> = match tiles {
					Some(t) => t.keys().copied().filter(|k| k.0 == b.level && k.1 >= b.x_min && k.1 <= b.x_max && k.2 >= b.y_min && k.2 <= b.y_max).collect(),
					None => b.iter_coords().map(|c| (c.z, c.x, c.y)).collect(),
				};
				for k in cands {
					if decide(k) == Some(true) && !seen.contains(&k) {
						ctx.violation(&format!("{class}: filtered stream drops a tile inside the filter"), &format!("{vpl}: tile {k:?} in box {b:?}"), case.clone());
					}
				}
			}
		}
	}
}

pub fn run(ctx: Arc<Ctx>) {
	ctx.rule(
		"filter_zoom: all 81 (min,max) over {absent,0,1,2,3,5,31,32,255}; filter_bbox: every valid box from the lon/lat alphabet of C15 (incl. points, slivers, antimeridian/pole touching) ; chains of 2 (all zoom x representative bbox, bbox x bbox; thorough: every 17th x every 17th box of the alphabet) and 3 filters; \
		 sources: MemSource (full z0..4 + sparse z5 + both corners of z31), a source whose deepest level is a small region below world-wide upper levels (plain and as an overlay of its parts; half of the chains), from_debug (generator, all coordinates), overlays whose members cover different zoom levels / halves of the world (half of the chains), pipeline files over a container reaching level 31 opened like containers (a quarter of the chains), real versatiles / pmtiles / tar / mbtiles files written by the repository (a quarter of the chains each for versatiles and pmtiles, an eighth for tar and mbtiles); every coordinate z<=4 + sparse + corners probed by lookup, streams over whole levels. invalid arguments (reversed, out of range, 3/5 elements, nan, text, negative zoom, a scalar given twice with conflicting values) must be Err at build time. \
		 oracle with a don't-care band of 1e-6 tile on geographic edges. non-trivial = chains that pass some but not all probe tiles",
	);
	let work = ct::WorkDir::new("c09");
	let tiles = source_tiles();
	let rt = crate::memsource::runtime(2);
	// real versatiles file of the low levels
	let low: TileMap = tiles.iter().filter(|(k, _)| k.0 <= 5).map(|(k, v)| (*k, v.clone())).collect();
	{
		let mut src = MemSource::new("m", low.clone(), TileFormat::BIN, TileCompression::Uncompressed);
		if let Ok(ct::Written::Bytes(b)) = ct::write(&rt, Cont::Versatiles, &mut src, &work.0, "low") {
			std::fs::write(work.0.join("low.versatiles"), b).unwrap();
		}
		// the same tiles as files of the formats whose readers advertise the exact bounding boxes of the stored tiles
		if let Ok(ct::Written::Bytes(b)) = ct::write(&rt, Cont::Pmtiles, &mut src, &work.0, "low") {
			std::fs::write(work.0.join("low.pmtiles"), b).unwrap();
		}
		// a container reaching down to level 31 (two neighbouring tiles there), behind pipeline files
		{
			let m = (1u32 << 31) - 1;
			let deep: TileMap = [(31u8, m, m), (31, m - 1, m), (30, 5, 7), (3, 1, 1), (0, 0, 0)].into_iter().map(|k| (k, format!("{}/{}/{}", k.0, k.1, k.2).into_bytes())).collect();
			let mut dsrc = MemSource::new("m", deep, TileFormat::BIN, TileCompression::Uncompressed);
			if let Ok(ct::Written::Bytes(b)) = ct::write(&rt, Cont::Versatiles, &mut dsrc, &work.0, "deep") {
				std::fs::write(work.0.join("deep.versatiles"), b).unwrap();
			}
		}
		if ct::write(&rt, Cont::Tar, &mut src, &work.0, "low").is_err() {
			let _ = std::fs::remove_file(work.0.join("low.tar"));
		}
		// (MBTiles takes image / vector formats only: the same bytes labelled png)
		let mut png = MemSource::new("m", low.clone(), TileFormat::PNG, TileCompression::Uncompressed);
		if ct::write(&rt, Cont::Mbtiles, &mut png, &work.0, "low").is_err() {
			let _ = std::fs::remove_file(work.0.join("low.mbtiles"));
		}
	}
	let zvals: Vec<Option<u32>> = vec![None, Some(0), Some(1), Some(2), Some(3), Some(5), Some(31), Some(32), Some(255)];
	let mut zooms = vec![];
	for a in &zvals {
		for b in &zvals {
			zooms.push(Filter::Zoom(*a, *b));
		}
	}
	let (lons, lats) = (lon_alphabet(), lat_alphabet());
	let mut bboxes = vec![];
	for (i, &w) in lons.iter().enumerate() {
		for &e in &lons[i..] {
			for (j, &s) in lats.iter().enumerate() {
				for &n in &lats[j..] {
					bboxes.push(Filter::BBox([w, s, e, n]));
				}
			}
		}
	}
	let rep_boxes: Vec<Filter> = vec![Filter::BBox([-180.0, -85.0511, 0.0, 0.0]), Filter::BBox([22.5, 0.0, 22.5, 0.0]), Filter::BBox([-90.0, -66.51326044311186, 90.0, 66.51326044311186]), Filter::BBox([-179.0, -35.0, -95.0, 60.0]), Filter::BBox([-179.0, -10.0, -10.0, 85.0]), Filter::BBox([1e-7, 1e-7, 180.0, 90.0])];
	let mut chains: Vec<Vec<Filter>> = vec![];
	for z in &zooms {
		chains.push(vec![z.clone()]);
	}
	let stride = ctx.tier.pick(2usize, 1usize);
	for (i, b) in bboxes.iter().enumerate() {
		if i % stride == 0 {
			chains.push(vec![b.clone()]);
		}
	}
	for z in &zooms {
		for b in &rep_boxes {
			chains.push(vec![z.clone(), b.clone()]);
			chains.push(vec![b.clone(), z.clone()]);
		}
	}
	for a in &rep_boxes {
		for b in &rep_boxes {
			chains.push(vec![a.clone(), b.clone()]);
			chains.push(vec![a.clone(), Filter::Zoom(Some(1), Some(31)), b.clone()]);
		}
	}
	for (i, a) in zooms.iter().enumerate() {
		for (j, b) in zooms.iter().enumerate() {
			if (i + j) % ctx.tier.pick(1, 1) == 0 {
				chains.push(vec![a.clone(), b.clone()]);
			}
		}
	}
	// thorough: chains of two arbitrary boxes of the alphabet (every 17th x every 17th), i.e. intersections of
	// boxes that overlap, touch, nest or are disjoint in every combination
	if ctx.tier == Tier::Thorough {
		let sub: Vec<&Filter> = bboxes.iter().step_by(17).collect();
		for a in &sub {
			for b in &sub {
				chains.push(vec![(*a).clone(), (*b).clone()]);
			}
		}
	}
	ctx.state(chains.len() as u64);
	let mut probes: Vec<Key> = tiles.keys().copied().collect();
	probes.extend([(5, 16, 11), (5, 17, 12), (6, 1, 1), (30, 5, 5)]);
	let gen_probes: Vec<Key> = {
		let mut v: Vec<Key> = (0..=2u8).flat_map(|z| (0..(1u32 << z)).flat_map(move |x| (0..(1u32 << z)).map(move |y| (z, x, y)))).collect();
		let m = (1u32 << 31) - 1;
		v.extend([(3, 0, 7), (3, 7, 0), (5, 17, 11), (31, m, m), (31, 0, 0), (30, 1, 1)]);
		v
	};
	let (ctxr, cr, tr, pr, gpr, wpath): (&Ctx, _, _, _, _, _) = (&ctx, &chains, &tiles, &probes, &gen_probes, work.0.clone());
	let lowr = &low;
	let regional: TileMap = {
		let mut t: TileMap = tiles.iter().filter(|(k, _)| k.0 <= 3).map(|(k, v)| (*k, v.clone())).collect();
		t.insert((6, 35, 22), b"6/35/22".to_vec());
		t.insert((6, 36, 22), b"6/36/22".to_vec());
		t
	};
	let regr = &regional;
	par_for(chains.len(), |ci| {
		let chain = &cr[ci];
		let rt = tokio::runtime::Builder::new_multi_thread().worker_threads(1).enable_all().build().unwrap();
		let fac = pipeline::factory(vec![MemSource::new("m", tr.clone(), TileFormat::BIN, TileCompression::Uncompressed), MemSource::new("r", regr.clone(), TileFormat::BIN, TileCompression::Uncompressed)], &wpath);
		check_chain(ctxr, &rt, &fac, "from_container filename=\"mem:0\"", Some(tr), chain, pr, "filter over MemSource");
		if ci % 2 == 0 {
			// a source whose deepest level is a small region while its upper levels span the world (a regional extract
			// with world-wide overview levels), plain and as an overlay of its two parts
			let rp: Vec<Key> = regr.keys().copied().chain([(6u8, 35u32, 23u32), (6, 0, 0), (7, 70, 44)]).collect();
			let v = if ci % 4 == 0 { "from_container filename=\"mem:1\"".to_string() } else { "from_overlayed [ from_container filename=\"mem:1\" | filter_zoom min=4, from_container filename=\"mem:1\" | filter_zoom max=3 ]".to_string() };
			check_chain(ctxr, &rt, &fac, &v, Some(regr), chain, &rp, "filter over a source with a regional deepest level");
		}
		ctxr.transition(1);
		if ci % 4 == 0 {
			check_chain(ctxr, &rt, &fac, "from_debug format=pbf", None, chain, gpr, "filter over from_debug");
		}
		if ci % 2 == 1 {
			// the same tiles behind an overlay whose members cover different zoom levels / halves of the world: the
			// filter sees a source whose coverage is a union
			let ov = if ci % 4 == 1 { "from_overlayed [ from_container filename=\"mem:0\" | filter_zoom max=2, from_container filename=\"mem:0\" | filter_zoom min=3 ]" } else { "from_overlayed [ from_container filename=\"mem:0\" | filter_bbox bbox=[-180,-85.05112877980659,0,85.05112877980659] | filter_zoom min=1, from_container filename=\"mem:0\" ]" };
			check_chain(ctxr, &rt, &fac, ov, Some(tr), chain, pr, "filter over an overlay");
		}
		if ci % 4 == 1 {
			let lp: Vec<Key> = pr.iter().copied().filter(|k| k.0 <= 6).collect();
			check_chain(ctxr, &rt, &fac, "from_container filename=\"low.versatiles\"", Some(lowr), chain, &lp, "filter over a versatiles file");
		}
		if ci % 4 == 2 || ci % 4 == 3 {
			let lp: Vec<Key> = pr.iter().copied().filter(|k| k.0 <= 6).collect();
			let (file, class) = if ci % 4 == 2 { ("low.pmtiles", "filter over a pmtiles file") } else if ci % 8 == 3 { ("low.tar", "filter over a tar file") } else { ("low.mbtiles", "filter over an mbtiles file") };
			if wpath.join(file).exists() {
				if file.ends_with("mbtiles") {
					ct::mbtiles_pool_token();
				}
				check_chain(ctxr, &rt, &fac, &format!("from_container filename=\"{file}\""), Some(lowr), chain, &lp, class);
			}
		}
		if ci % 4 == 1 && wpath.join("deep.versatiles").exists() {
			let m = (1u32 << 31) - 1;
			let deep: TileMap = [(31u8, m, m), (31, m - 1, m), (30, 5, 7), (3, 1, 1), (0, 0, 0)].into_iter().map(|k| (k, format!("{}/{}/{}", k.0, k.1, k.2).into_bytes())).collect();
			let dp: Vec<Key> = deep.keys().copied().chain([(31, 0, 0), (30, 5, 8), (3, 1, 2)]).collect();
			let file = wpath.join(format!("chain{ci}.vpl"));
			check_chain_in(ctxr, &rt, &fac, "from_container filename=\"deep.versatiles\"", Some(&deep), chain, &dp, "filter in a pipeline file over a container reaching level 31", Some(&file));
			let _ = std::fs::remove_file(&file);
		}
		let passing = pr.iter().filter(|k| chain.iter().all(|f| f.passes(**k) == Some(true))).count();
		if passing > 0 && passing < pr.len() {
			ctxr.nontrivial(fnv_str(&format!("{chain:?}")));
		}
	});
	ctx.outcome_n("filter chains", chains.len() as u64);
	// invalid arguments: Err at build time, never a panic
	let fac = pipeline::factory(vec![MemSource::new("m", tiles.clone(), TileFormat::BIN, TileCompression::Uncompressed)], &work.0);
	let fac_pbf = {
		let mut t = TileMap::new();
		t.insert((0, 0, 0), crate::mvt::encode_tile(&super::c10::catalogue()[0].1));
		t.insert((3, 1, 2), crate::mvt::encode_tile(&super::c10::catalogue()[0].1));
		pipeline::factory(vec![MemSource::new("m", t, TileFormat::PBF, TileCompression::Uncompressed)], &work.0)
	};
	let invalid = [
		"filter_bbox bbox=[10,0,5,1]",
		"filter_bbox bbox=[0,10,1,5]",
		"filter_bbox bbox=[-181,0,0,1]",
		"filter_bbox bbox=[200,0,300,10]",
		"filter_bbox bbox=[0,-91,1,0]",
		"filter_bbox bbox=[0,0,1,91]",
		"filter_bbox bbox=[0,0,1]",
		"filter_bbox bbox=[0,0,1,1,2]",
		"filter_bbox bbox=[nan,0,1,1]",
		"filter_bbox bbox=[a,b,c,d]",
		"filter_bbox bbox=5",
		"filter_bbox",
		"filter_bbox bbox=[0,0,1,inf]",
		"filter_zoom min=-1",
		"filter_zoom min=abc",
		"filter_zoom max=1.5",
		"filter_zoom min=256",
		"filter_zoom max=99999999999",
		"filter_zoom min=[1,2]",
		// two conflicting values for one scalar parameter: whichever way a parser represents the repetition, there is
		// no single value to filter by
		"filter_zoom min=2 max=4 max=9",
		"filter_zoom min=1 min=2",
		"filter_bbox bbox=[0,0,20,20] bbox=[-180,-85,180,85]",
	];
	// every invalid stage in every position a stage can stand in: directly behind the source, behind a filter that
	// keeps tiles, behind filters that keep nothing (an empty range, a box without tiles), before a valid stage, and
	// inside each member of overlays / merges of two and three sources
	let src0 = "from_container filename=\"mem:0\"";
	let mut placed: Vec<String> = vec![];
	for inv in invalid {
		for pre in ["", " | filter_zoom max=3", " | filter_zoom min=5 max=3", " | filter_zoom min=40", " | filter_bbox bbox=[100,50,101,51] | filter_zoom min=9"] {
			for post in ["", " | filter_zoom max=5"] {
				let chain = format!("{src0}{pre} | {inv}{post}");
				placed.push(chain.clone());
				if pre.is_empty() || pre == " | filter_zoom min=5 max=3" {
					for outer in ["from_overlayed", "from_vectortiles_merged"] {
						placed.push(format!("{outer} [ {chain}, {src0} ]"));
						placed.push(format!("{outer} [ {src0}, {chain} ]"));
						placed.push(format!("{outer} [ {chain}, {src0}, {src0} ]"));
						placed.push(format!("{outer} [ {src0}, {chain}, {src0} ]"));
						placed.push(format!("{outer} [ {src0}, {src0}, {chain} ]"));
					}
				}
			}
		}
	}
	for vpl in &placed {
		ctx.eval();
		match pipeline::build_op(&rt, &fac_pbf, vpl) {
			Err(e) => {
				if let Some(p) = e.strip_prefix("PANIC ") {
					ctx.violation(&format!("an invalid filter argument panics instead of being reported at {}", panic_site(p)), &format!("{vpl}: {p}"), json!({"vpl": vpl}));
				}
			}
			Ok(_) => ctx.violation("an invalid filter argument is accepted", vpl, json!({"vpl": vpl})),
		}
	}
	ctx.outcome_n("invalid argument texts x positions (behind filters that keep everything / something / nothing, inside overlays and merges of 2 and 3 sources)", placed.len() as u64);
	for inv in invalid {
		let vpl = format!("from_container filename=\"mem:0\" | {inv}");
		ctx.eval();
		match pipeline::build_op(&rt, &fac, &vpl) {
			Err(e) => {
				if let Some(p) = e.strip_prefix("PANIC ") {
					ctx.violation(&format!("an invalid filter argument panics instead of being reported at {}", panic_site(p)), &format!("{vpl}: {p}"), json!({"vpl": vpl}));
				}
			}
			Ok(_) => ctx.violation("an invalid filter argument is accepted", &vpl, json!({"vpl": vpl})),
		}
	}
	ctx.outcome_n("invalid argument texts", invalid.len() as u64);
	ctx.sample(json!({"chain": chains[chains.len() / 2].iter().map(|f| f.vpl()).collect::<Vec<_>>(), "probe_coordinates": probes.len()}));
	ctx.exhaustive(ctx.tier == Tier::Thorough);
	if ctx.tier == Tier::Quick {
		ctx.extra("quick_tier_note", json!("single filter_bbox over every 2nd box of the lon/lat alphabet; thorough runs all"));
	}
	drop(work);
}

pub fn replay(_ctx: Arc<Ctx>, case: &Value) {
	println!("  case: {case}");
	println!("  re-run ./check C09 quick (deterministic) to reproduce");
}
