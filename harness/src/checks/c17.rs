//! C17 — JSON round trips and containers hand back the TileJSON they were given.

use crate::containers::{self as ct, Cont};
use crate::ctx::{fnv_str, Ctx, Tier};
use crate::memsource::{MemSource, TileMap};
use crate::par::{catch, panic_site, par_for};
use serde_json::{json, Value};
use std::sync::Arc;
use versatiles_core::json::{parse_json_str, JsonArray, JsonObject, JsonValue};

fn stringify(v: &JsonValue) -> String {
	v.stringify()
}
use versatiles_core::tilejson::TileJSON;
use versatiles_core::types::*;

fn to_serde(v: &JsonValue) -> Value {
	match v {
		JsonValue::Null => Value::Null,
		JsonValue::Boolean(b) => Value::Bool(*b),
		JsonValue::Number(n) => serde_json::Number::from_f64(*n).map(Value::Number).unwrap_or(Value::Null),
		JsonValue::String(s) => Value::String(s.clone()),
		JsonValue::Array(a) => Value::Array(a.0.iter().map(to_serde).collect()),
		JsonValue::Object(o) => Value::Object(o.0.iter().map(|(k, v)| (k.clone(), to_serde(v))).collect()),
	}
}

fn num_eq(a: &Value, b: &Value) -> bool {
	match (a, b) {
		(Value::Number(x), Value::Number(y)) => x.as_f64() == y.as_f64(),
		(Value::Array(x), Value::Array(y)) => x.len() == y.len() && x.iter().zip(y).all(|(p, q)| num_eq(p, q)),
		(Value::Object(x), Value::Object(y)) => x.len() == y.len() && x.iter().all(|(k, v)| y.get(k).is_some_and(|w| num_eq(v, w))),
		_ => a == b,
	}
}

/// One value through stringify -> parse and stringify -> serde_json.
fn roundtrip(ctx: &Ctx, v: &JsonValue, class: &str) {
	ctx.eval();
	let r = catch(|| {
		let text = stringify(v);
		let back = parse_json_str(&text);
		(text, back)
	});
	let case = || json!({"kind": "value", "value": to_serde(v)});
	match r {
		Err(p) => ctx.violation(&format!("JSON stringify/parse panics at {}", panic_site(&p)), &format!("{class}: {p}"), case()),
		Ok((text, back)) => {
			match back {
				Ok(b) if &b == v => {}
				Ok(b) => ctx.violation(&format!("parse(stringify(v)) differs from v ({class})"), &format!("text {text:?} parses to {:?}", to_serde(&b)), case()),
				Err(e) => ctx.violation(&format!("the serialised text is rejected by the project's own parser ({class})"), &format!("text {text:?}: {}", e.root_cause()), case()),
			}
			match serde_json::from_str::<Value>(&text) {
				Ok(sv) => {
					if !num_eq(&sv, &to_serde(v)) {
						ctx.violation(&format!("a standard JSON parser reads another value from the serialised text ({class})"), &format!("text {text:?}: serde_json reads {sv}"), case());
					}
				}
				Err(e) => {
					// serde_json (without arbitrary precision) reports "number out of range" for long digit
					// strings although they are valid RFC 8259 numbers within the double range; judge those
					// by the RFC number grammar and Rust's correctly rounded float parser instead
					let rfc_number = |t: &str| -> bool {
						let b = t.as_bytes();
						let mut i = 0;
						if i < b.len() && b[i] == b'-' {
							i += 1;
						}
						let st = i;
						while i < b.len() && b[i].is_ascii_digit() {
							i += 1;
						}
						if i == st || (b[st] == b'0' && i - st > 1) {
							return false;
						}
						if i < b.len() && b[i] == b'.' {
							i += 1;
							let f = i;
							while i < b.len() && b[i].is_ascii_digit() {
								i += 1;
							}
							if i == f {
								return false;
							}
						}
						if i < b.len() && (b[i] == b'e' || b[i] == b'E') {
							i += 1;
							if i < b.len() && (b[i] == b'+' || b[i] == b'-') {
								i += 1;
							}
							let x = i;
							while i < b.len() && b[i].is_ascii_digit() {
								i += 1;
							}
							if i == x {
								return false;
							}
						}
						i == b.len()
					};
					let ok = matches!(v, JsonValue::Number(n) if rfc_number(&text) && text.parse::<f64>().ok() == Some(*n));
					if !ok {
						ctx.violation(&format!("the serialised text is not valid JSON for a standard parser ({class})"), &format!("text {text:?}: {e}"), case());
					}
				}
			}
		}
	}
}

fn escape_class_chars() -> Vec<char> {
	vec!['"', '\\', '/', '\u{8}', '\u{c}', '\n', '\r', '\t', '\u{0}', '\u{1f}', '\u{7f}', '\u{80}', '\u{2028}', '\u{ffff}', '\u{10000}', '\u{10ffff}', 'a', 'u', ' ', '\u{e9}']
}

fn numbers() -> Vec<f64> {
	vec![0.0, -0.0, 1.0, -1.0, 0.1, 1e-7, 1e21, 1.7976931348623157e308, 5e-324, 9007199254740991.0, 9007199254740993.0, -2.5e-10, 123456.789, 1e100, 4.35, 0.30000000000000004, 2f64.powi(63), -(2f64.powi(31))]
}

fn part_values(ctx: &Arc<Ctx>) {
	let ctxr: &Ctx = ctx;
	// all one-character strings, split into 272 chunks of 4096 code points
	par_for(0x110000 / 4096, |chunk| {
		let mut n = 0u64;
		for cp in (chunk as u32 * 4096)..((chunk as u32 + 1) * 4096) {
			if let Some(c) = char::from_u32(cp) {
				roundtrip(ctxr, &JsonValue::String(c.to_string()), "one-character string");
				n += 1;
			}
		}
		ctxr.nontrivial_distinct(n);
	});
	ctx.outcome_n("one-character strings (all Unicode scalar values)", 0x110000 - 0x800);
	// all strings of length <= 3 over the escape-class representatives
	let cs = escape_class_chars();
	let mut strs: Vec<String> = vec![String::new()];
	for a in &cs {
		strs.push(a.to_string());
		for b in &cs {
			strs.push(format!("{a}{b}"));
			for c in &cs {
				strs.push(format!("{a}{b}{c}"));
			}
		}
	}
	let sr = &strs;
	par_for(strs.len().div_ceil(256), |i| {
		for s in sr.iter().skip(i * 256).take(256) {
			roundtrip(ctxr, &JsonValue::String(s.clone()), "string over escape classes");
			// also as an object key
			let mut o = JsonObject::default();
			o.0.insert(s.clone(), JsonValue::Null);
			roundtrip(ctxr, &JsonValue::Object(o), "object key over escape classes");
		}
	});
	ctx.outcome_n("strings of length <= 3 over 20 escape-class characters", strs.len() as u64);
	for n in numbers() {
		roundtrip(ctx, &JsonValue::Number(n), "number");
		roundtrip(ctx, &JsonValue::Number(-n), "number");
	}
	// number families, closed under their stated bounds: every m x 10^e with m in 0..=999 and e in -330..=310 (decimal
	// texts of every length of exponent, both notations of the serialiser), every power of two of the double range with
	// its two neighbours (the shortest-round-trip digit strings of 15..17 digits), integers around 2^k (k <= 64: the
	// borders of every integer fast path), both signs
	{
		let exps: Vec<i32> = (-330..=310).collect();
		let er = &exps;
		par_for(exps.len(), |i| {
			let e = er[i];
			let mut n = 0u64;
			for m in 0..=999u32 {
				if let Ok(v) = format!("{m}e{e}").parse::<f64>() {
					if v.is_finite() {
						roundtrip(ctxr, &JsonValue::Number(v), "number m x 10^e");
						roundtrip(ctxr, &JsonValue::Number(-v), "number m x 10^e");
						n += 2;
					}
				}
			}
			ctxr.nontrivial_distinct(n);
		});
		ctx.outcome_n("numbers m x 10^e (m <= 999, -330 <= e <= 310, both signs)", 2 * 1000 * exps.len() as u64);
		let mut around: Vec<f64> = vec![];
		for k in -1074..=1023i32 {
			let v = 2f64.powi(k);
			let b = v.to_bits();
			for d in [b.wrapping_sub(1), b, b + 1] {
				let w = f64::from_bits(d);
				if w.is_finite() {
					around.push(w);
				}
			}
		}
		for k in 0..=64u32 {
			let c = 2f64.powi(k as i32);
			for d in [-2.0, -1.0, 0.0, 1.0, 2.0, 0.5, -0.5] {
				around.push(c + d);
			}
		}
		let ar = &around;
		par_for(around.len().div_ceil(256), |i| {
			for v in ar.iter().skip(i * 256).take(256) {
				roundtrip(ctxr, &JsonValue::Number(*v), "number around a power of two");
				roundtrip(ctxr, &JsonValue::Number(-*v), "number around a power of two");
			}
		});
		ctx.outcome_n("powers of two of the whole double range with both neighbours, integers around 2^k (both signs)", 2 * around.len() as u64);
		ctx.nontrivial_distinct(2 * around.len() as u64);
	}
	// texts longer than the parser's 4096-byte read buffer: a padding string of every length that moves each token of
	// a following value, byte by byte, across the buffer borders at 4096 and 8192 (escapes, 2/3/4-byte characters,
	// numbers, literals, structural characters each get split at every one of their bytes)
	{
		let tail = JsonValue::Array(JsonArray(vec![
			JsonValue::String("\u{1}\"\\\u{e9}\u{20ac}\u{1F600}\n".into()),
			JsonValue::Number(-1.5e-7),
			JsonValue::Boolean(true),
			JsonValue::Null,
			JsonValue::Boolean(false),
			JsonValue::Number(12345678.5),
			{
				let mut o = JsonObject::default();
				o.0.insert("k\u{e9}".into(), JsonValue::Array(JsonArray(vec![JsonValue::String(String::new()), JsonValue::Number(0.0)])));
				JsonValue::Object(o)
			},
		]));
		let tail_len = stringify(&tail).len();
		let mut pads: Vec<usize> = vec![];
		for border in [4096usize, 8192] {
			for p in border.saturating_sub(tail_len + 24)..=border + 8 {
				pads.push(p);
			}
		}
		let (pr, tr) = (&pads, &tail);
		par_for(pads.len(), |i| {
			for fill in ["a", "\u{e9}"] {
				let pad: String = fill.repeat(pr[i] / fill.len());
				roundtrip(ctxr, &JsonValue::Array(JsonArray(vec![JsonValue::String(pad.clone()), tr.clone()])), "text crossing the 4096-byte read buffer");
				let mut o = JsonObject::default();
				o.0.insert(pad, tr.clone());
				roundtrip(ctxr, &JsonValue::Object(o), "text crossing the 4096-byte read buffer");
			}
		});
		ctx.outcome_n("texts whose tokens cross the 4096 / 8192 byte borders of the read buffer at every byte", 4 * pads.len() as u64);
		ctx.nontrivial_distinct(4 * pads.len() as u64);
	}
	// all values of depth <= 3 / width <= 2 over the leaves
	let leaves: Vec<JsonValue> = vec![JsonValue::Null, JsonValue::Boolean(true), JsonValue::Boolean(false), JsonValue::Number(0.1), JsonValue::Number(-1e21), JsonValue::String("a\"\\\n\u{1}\u{1F600}".into()), JsonValue::String(String::new())];
	let keys = ["k", "\u{e9}\"\\", ""];
	let mut level: Vec<JsonValue> = leaves.clone();
	let depth = 3usize;
	for d in 0..depth {
		let mut next: Vec<JsonValue> = vec![JsonValue::Array(JsonArray(vec![])), JsonValue::Object(JsonObject::default())];
		let pool: Vec<&JsonValue> = if d <= 1 { level.iter().collect() } else { level.iter().step_by(ctx.tier.pick(53, 7)).collect() };
		if d + 1 == depth {
			// last level: nothing is built on top of it, so the values are produced and judged on the fly
			let pr = &pool;
			par_for(pool.len(), |ai| {
				let a = pr[ai];
				roundtrip(ctxr, &JsonValue::Array(JsonArray(vec![a.clone()])), "nested value");
				let mut o = JsonObject::default();
				o.0.insert(keys[0].into(), a.clone());
				roundtrip(ctxr, &JsonValue::Object(o), "nested value");
				for b in pr.iter() {
					roundtrip(ctxr, &JsonValue::Array(JsonArray(vec![a.clone(), (*b).clone()])), "nested value");
					let mut o = JsonObject::default();
					o.0.insert(keys[1].into(), a.clone());
					o.0.insert(keys[2].into(), (*b).clone());
					roundtrip(ctxr, &JsonValue::Object(o), "nested value");
				}
			});
			let n = 2 * pool.len() as u64 + 2 * (pool.len() as u64).pow(2);
			ctx.outcome_n(&format!("nested values of depth {}", d + 1), n);
			ctx.nontrivial_distinct(n);
			break;
		}
		for a in &pool {
			next.push(JsonValue::Array(JsonArray(vec![(*a).clone()])));
			let mut o = JsonObject::default();
			o.0.insert(keys[0].into(), (*a).clone());
			next.push(JsonValue::Object(o));
			for b in pool.iter() {
				next.push(JsonValue::Array(JsonArray(vec![(*a).clone(), (*b).clone()])));
				let mut o = JsonObject::default();
				o.0.insert(keys[1].into(), (*a).clone());
				o.0.insert(keys[2].into(), (*b).clone());
				next.push(JsonValue::Object(o));
			}
		}
		let nr = &next;
		par_for(next.len().div_ceil(64), |i| {
			for v in nr.iter().skip(i * 64).take(64) {
				roundtrip(ctxr, v, "nested value");
			}
		});
		ctx.outcome_n(&format!("nested values of depth {}", d + 1), next.len() as u64);
		ctx.nontrivial_distinct(next.len() as u64);
		level = next;
	}
	ctx.sample(json!({"string_case": "\u{1}\"\\", "serialised": stringify(&JsonValue::String("\u{1}\"\\".into())), "nested_value": to_serde(&level[level.len() / 2])}));
}

fn documents() -> Vec<(&'static str, String)> {
	vec![
		("minimal", r#"{"tilejson":"3.0.0"}"#.to_string()),
		("strings with quotes, backslash, control and non-BMP characters", "{\"tilejson\":\"3.0.0\",\"name\":\"a \\\"quoted\\\" \\\\ name \\u0001\\n \u{00fc} \u{1F600}\",\"attribution\":\"<a href=\\\"x\\\">\u{00a9}</a>\",\"description\":\"\"}".to_string()),
		("lists that name the same entry more than once", r#"{"tilejson":"3.0.0","tiles":["https://a/{z}/{x}/{y}","https://b/{z}/{x}/{y}","https://a/{z}/{x}/{y}"],"grids":["",""],"data":["d","d","e","d"],"name":"repeats"}"#.to_string()),
		("list, byte values, bounds, center", r#"{"tilejson":"3.0.0","tiles":["https://a/{z}/{x}/{y}","https://b/{z}/{x}/{y}"],"minzoom":0,"maxzoom":14,"fillzoom":7,"bounds":[-180,-85.05112877980659,180,85.05112877980659],"center":[13.4,52.5,7],"scheme":"xyz","version":"1.2.3"}"#.to_string()),
		("wide zoom range and world bounds (to be narrowed)", r#"{"tilejson":"2.2.0","minzoom":0,"maxzoom":22,"bounds":[-179.9,-80.5,179.9,80.5],"name":"wide"}"#.to_string()),
		(
			"vector_layers with fields, description, zooms",
			r#"{"tilejson":"3.0.0","name":"v","vector_layers":[{"id":"roads","description":"all \"roads\"","minzoom":4,"maxzoom":14,"fields":{"kind":"String","lanes":"Number","name:de":"a \\ b"}},{"id":"water","fields":{}}]}"#.to_string(),
		),
		("zoom range and bounds tighter than the stored coverage (must not be widened)", r#"{"tilejson":"3.0.0","minzoom":4,"maxzoom":4,"bounds":[1.5,60.1,2.5,60.9],"name":"tight"}"#.to_string()),
		(
			"vector_layers with every presence pattern of the optional members (description, minzoom, maxzoom, non-empty fields)",
			{
				let layers: Vec<String> = (0..16u32)
					.map(|m| {
						let mut parts = vec![format!("\"id\":\"l{m:02}\"")];
						if m & 1 != 0 {
							parts.push(if m % 4 == 1 { "\"description\":\"\"".to_string() } else { format!("\"description\":\"d{m}\"") });
						}
						if m & 2 != 0 {
							parts.push(format!("\"minzoom\":{}", m % 5));
						}
						if m & 4 != 0 {
							parts.push(format!("\"maxzoom\":{}", 6 + m % 7));
						}
						parts.push(if m & 8 != 0 { "\"fields\":{\"a\":\"String\",\"b\":\"Number\"}".to_string() } else { "\"fields\":{}".to_string() });
						format!("{{{}}}", parts.join(","))
					})
					.collect();
				format!("{{\"tilejson\":\"3.0.0\",\"name\":\"patterns\",\"vector_layers\":[{}]}}", layers.join(","))
			},
		),
		("center and bounds on the borders of their ranges", r#"{"tilejson":"3.0.0","name":"antimeridian","center":[180,-17.5,0],"bounds":[-180,-90,180,90]}"#.to_string()),
		("center at the other borders", r#"{"tilejson":"3.0.0","name":"corner","center":[-180,90,30],"bounds":[179.5,-1,180,1]}"#.to_string()),
		("custom string and list keys", r#"{"tilejson":"3.0.0","author":"x","license":"ODbL","type":"baselayer","legend":"l","template":"{{x}}","grids":["g1"],"data":["d1","d2"]}"#.to_string()),
	]
}

pub fn documents_for_c19() -> Vec<String> {
	documents().into_iter().map(|d| d.1).collect()
}

fn narrowed_ok(key: &str, src: Option<&Value>, got: Option<&Value>) -> Result<(), String> {
	match (key, src, got) {
		(_, None, _) => Ok(()), // the reader may add coverage-derived values
		("minzoom", Some(s), Some(g)) => {
			if g.as_f64() >= s.as_f64() {
				Ok(())
			} else {
				Err(format!("minzoom widened from {s} to {g}"))
			}
		}
		("maxzoom", Some(s), Some(g)) => {
			if g.as_f64() <= s.as_f64() {
				Ok(())
			} else {
				Err(format!("maxzoom widened from {s} to {g}"))
			}
		}
		("bounds", Some(s), Some(g)) => {
			let (s, g): (Vec<f64>, Vec<f64>) = (s.as_array().map(|a| a.iter().filter_map(|v| v.as_f64()).collect()).unwrap_or_default(), g.as_array().map(|a| a.iter().filter_map(|v| v.as_f64()).collect()).unwrap_or_default());
			if s.len() == 4 && g.len() == 4 && g[0] >= s[0] - 1e-9 && g[1] >= s[1] - 1e-9 && g[2] <= s[2] + 1e-9 && g[3] <= s[3] + 1e-9 {
				Ok(())
			} else {
				Err(format!("bounds {s:?} became {g:?} (not a narrowing)"))
			}
		}
		(k, Some(s), None) => Err(format!("{k} {s} was dropped")),
		_ => Ok(()),
	}
}

fn part_containers(ctx: &Arc<Ctx>) {
	let work = ct::WorkDir::new("c17");
	let mut docs: Vec<(&'static str, String)> = documents();
	// (layer ids in sorted order: the model keeps vector_layers as a map by id, so another order is not expressible by it)
	// documents larger than the 4096-byte read buffer, a 16 KiB directory area and a 64 KiB block
	{
		let layers: Vec<String> = (0..120).map(|i| format!(r#"{{"id":"layer_{i:03}","description":"d\u00e9 {i}","minzoom":{},"maxzoom":{},"fields":{{"name":"String","name:de":"String","rank_{i}":"Number","flag":"Boolean"}}}}"#, i % 5, 5 + i % 9)).collect();
		docs.push(("120 vector_layers (about 17 KB)", format!(r#"{{"tilejson":"3.0.0","name":"many layers","vector_layers":[{}]}}"#, layers.join(","))));
		let long: String = (0..9000).map(|i| ["plain ", "\\\" q\\\" ", "\u{e9}\u{20ac} ", "\\n ", "\\\\ "][i % 5]).collect();
		docs.push(("description of about 70 KB with escapes and non-ASCII characters", format!(r#"{{"tilejson":"3.0.0","name":"long","description":"{long}","attribution":"a"}}"#)));
		let urls: Vec<String> = (0..300).map(|i| format!(r#""https://tiles{i}.example.org/{{z}}/{{x}}/{{y}}""#)).collect();
		docs.push(("tiles list with 300 templates", format!(r#"{{"tilejson":"3.0.0","tiles":[{}],"name":"urls"}}"#, urls.join(","))));
	}
	let mut tiles = TileMap::new();
	tiles.insert((3, 4, 2), b"tile".to_vec());
	tiles.insert((5, 17, 10), b"tile2".to_vec());
	let mut jobs = vec![];
	for di in 0..docs.len() {
		for cont in [Cont::Versatiles, Cont::Pmtiles, Cont::Tar, Cont::Directory] {
			for comp in 0..3u8 {
				jobs.push((di, cont, comp));
			}
		}
	}
	let (ctxr, jr, dr, wpath): (&Ctx, _, _, _) = (ctx, &jobs, &docs, work.0.clone());
	let tr = &tiles;
	par_for(jobs.len(), |ji| {
		let (di, cont, comp) = jr[ji];
		let (dname, text) = &dr[di];
		let rt = tokio::runtime::Builder::new_current_thread().build().unwrap();
		let case = json!({"kind": "container", "document": dname, "cont": cont, "compression": comp});
		ctxr.eval();
		let tj = match catch(|| TileJSON::try_from(text.as_str())) {
			Ok(Ok(t)) => t,
			Ok(Err(e)) => {
				ctxr.violation("a TileJSON document expressible by the model is rejected", &format!("{dname}: {e:#}"), case);
				return;
			}
			Err(p) => {
				ctxr.violation(&format!("TileJSON parsing panics at {}", panic_site(&p)), &format!("{dname}: {p}"), case);
				return;
			}
		};
		let src_json: Value = serde_json::from_str(&tj.as_string()).unwrap_or(Value::Null);
		let given: Value = serde_json::from_str(text).unwrap();
		// the model itself must keep the document (string, list, byte values, bounds, center, vector_layers)
		for (k, v) in given.as_object().unwrap() {
			if !src_json.get(k).is_some_and(|w| num_eq(v, w)) {
				ctxr.violation("TileJSON model alters a document it accepts", &format!("{dname}: key {k:?}: given {v}, model holds {:?}", src_json.get(k)), case.clone());
			}
		}
		let mut src = MemSource::new("m", tr.clone(), TileFormat::PNG, ct::comp_from_id(comp)).with_tilejson(tj);
		let w = match ct::write(&rt, cont, &mut src, &wpath, &format!("j{ji}")) {
			Ok(w) => w,
			Err(e) => {
				ctxr.violation(&format!("{}: writer fails with a TileJSON document: {}", cont.name(), super::c01::norm_msg(&e)), &format!("{dname}: {e}"), case);
				return;
			}
		};
		ctxr.trace(1);
		// raw metadata in the file, decoded independently
		if let Ok(d) = ct::independent_decode(cont, &w) {
			match d.meta.as_deref().map(serde_json::from_slice::<Value>) {
				Some(Ok(m)) => {
					if !num_eq(&m, &src_json) {
						ctxr.violation(&format!("{}: metadata stored in the file differs from the TileJSON given", cont.name()), &format!("{dname}: stored {m}, given {src_json}"), case.clone());
					}
				}
				Some(Err(e)) => ctxr.violation(&format!("{}: metadata stored in the file is not valid JSON", cont.name()), &format!("{dname}: {e}"), case.clone()),
				None => ctxr.violation(&format!("{}: no metadata stored in the file", cont.name()), dname, case.clone()),
			}
		}
		// the same after the tile compression label of the opened reader was overridden (--override-input-compression
		// re-labels the tiles only), asked for the first time after the override and asked before and after it
		for ov in 0..3u8 {
			for ask_before in [false, true] {
				if let Ok(mut r) = ct::open(&rt, cont, &w) {
					let before = if ask_before { Some(r.get_tilejson().as_string()) } else { None };
					let _ = catch(std::panic::AssertUnwindSafe(|| r.override_compression(ct::comp_from_id(ov))));
					let after = r.get_tilejson().as_string();
					let got: Value = serde_json::from_str(&after).unwrap_or(Value::Null);
					let (so, go) = (src_json.as_object().cloned().unwrap_or_default(), got.as_object().cloned().unwrap_or_default());
					for k in so.keys() {
						if !["bounds", "minzoom", "maxzoom"].contains(&k.as_str()) && !so.get(k).zip(go.get(k)).is_some_and(|(a, b)| num_eq(a, b)) {
							ctxr.violation(&format!("{}: returned TileJSON differs from the one given after the tile compression was overridden", cont.name()), &format!("{dname}: stored compression {comp}, override {ov}, asked before the override: {ask_before}: key {k:?}: given {:?}, returned {:?}", so.get(k), go.get(k)), case.clone());
						}
					}
					if before.is_some_and(|b| b != after) {
						ctxr.violation(&format!("{}: TileJSON of an opened reader changes when the tile compression is overridden", cont.name()), &format!("{dname}: override {ov}"), case.clone());
					}
				}
			}
		}
		match ct::open(&rt, cont, &w) {
			Err(e) => ctxr.violation(&format!("{}: container with a TileJSON document cannot be opened: {}", cont.name(), super::c01::norm_msg(&e)), &format!("{dname}: {e}"), case.clone()),
			Ok(r) => {
				let got: Value = serde_json::from_str(&r.get_tilejson().as_string()).unwrap_or(Value::Null);
				let (so, go) = (src_json.as_object().cloned().unwrap_or_default(), got.as_object().cloned().unwrap_or_default());
				for k in so.keys().chain(go.keys()) {
					if ["bounds", "minzoom", "maxzoom"].contains(&k.as_str()) {
						if let Err(why) = narrowed_ok(k, so.get(k), go.get(k)) {
							ctxr.violation(&format!("{}: returned TileJSON changes {k} other than by narrowing", cont.name()), &format!("{dname}: {why}"), case.clone());
						}
					} else if !so.get(k).zip(go.get(k)).is_some_and(|(a, b)| num_eq(a, b)) {
						ctxr.violation(&format!("{}: returned TileJSON differs from the one given", cont.name()), &format!("{dname}: key {k:?}: given {:?}, returned {:?}", so.get(k), go.get(k)), case.clone());
					}
				}
			}
		}
		ct::cleanup(&w);
		// a second export to the same path with a document of the same length that differs in one character: the
		// container must hand back the second document
		if text.contains("\"tilejson\":\"3.0.0\"") {
			let text2 = text.replace("\"tilejson\":\"3.0.0\"", "\"tilejson\":\"3.0.1\"");
			let path = wpath.join(format!("again{ji}.{}", ct::ext(cont)));
			let _ = std::fs::remove_file(&path);
			let _ = std::fs::remove_dir_all(&path);
			if cont == Cont::Directory {
				std::fs::create_dir_all(&path).unwrap();
			}
			let mut ok = true;
			for t in [text.as_str(), text2.as_str()] {
				let Ok(tj) = TileJSON::try_from(t) else { ok = false; break };
				let mut src = MemSource::new("m", tr.clone(), TileFormat::PNG, ct::comp_from_id(comp)).with_tilejson(tj);
				if ct::write_to_existing_path(&rt, cont, &mut src, &path).is_err() {
					ok = false;
					break;
				}
			}
			if ok {
				match ct::open(&rt, cont, &ct::Written::Path(path.clone())) {
					Ok(r) => {
						let got: Value = serde_json::from_str(&r.get_tilejson().as_string()).unwrap_or(Value::Null);
						if got.get("tilejson").and_then(|v| v.as_str()) != Some("3.0.1") {
							ctxr.violation(&format!("{}: after a second export to the same path the container returns the TileJSON of the first one", cont.name()), &format!("{dname}: returned tilejson member {:?}, the second document says 3.0.1", got.get("tilejson")), case.clone());
						}
					}
					Err(e) => ctxr.violation(&format!("{}: container written twice to the same path cannot be opened: {}", cont.name(), super::c01::norm_msg(&e)), &format!("{dname}: {e}"), case.clone()),
				}
			}
			let _ = std::fs::remove_file(&path);
			let _ = std::fs::remove_dir_all(&path);
		}
		ctxr.nontrivial(fnv_str(&format!("{di}{cont:?}{comp}")));
	});
	// PMTiles: tile counts just below the point where the root directory no longer fits its 16 KiB area - the
	// metadata is stored right behind that area
	{
		use crate::codec;
		let make = |n: usize| -> TileMap {
			let mut m = TileMap::new();
			for i in 0..n {
				let len = 1 + ((i * 7919) % 251);
				let mut v = vec![0u8; len];
				v[0] = (i % 251) as u8;
				if len > 1 {
					v[1] = (i / 251) as u8;
				}
				m.insert((10, (i as u32) % 256, (i as u32) / 256), v);
			}
			m
		};
		let doc = r#"{"tilejson":"3.0.0","name":"metadata behind the root directory","attribution":"kept","description":"d"}"#;
		let rt = tokio::runtime::Builder::new_current_thread().build().unwrap();
		let write = |n: usize| -> Option<Vec<u8>> {
			let mut src = MemSource::new("m", make(n), TileFormat::PNG, TileCompression::Uncompressed).with_tilejson(TileJSON::try_from(doc).ok()?).with_fast_stream();
			match ct::write(&rt, Cont::Pmtiles, &mut src, &work.0, "sweep") {
				Ok(ct::Written::Bytes(b)) => Some(b),
				_ => None,
			}
		};
		let leaves = |n: usize| write(n).and_then(|b| codec::pm_decode(&b).ok()).map(|d| d.leaf_levels >= 1).unwrap_or(true);
		let (mut lo, mut hi) = (256usize, 16384usize);
		while lo + 1 < hi {
			let mid = (lo + hi) / 2;
			if leaves(mid) {
				hi = mid;
			} else {
				lo = mid;
			}
		}
		let switch = hi;
		let ns: Vec<usize> = (switch.saturating_sub(80)..=switch + 2).collect();
		let nsr = &ns;
		let wp = work.0.clone();
		par_for(ns.len(), |i| {
			let n = nsr[i];
			let rt = tokio::runtime::Builder::new_current_thread().build().unwrap();
			let mut src = MemSource::new("m", make(n), TileFormat::PNG, TileCompression::Uncompressed).with_tilejson(TileJSON::try_from(doc).unwrap()).with_fast_stream();
			ctx.eval();
			let case = json!({"kind": "pmtiles-root-limit", "tiles": n, "switch": switch});
			match ct::write(&rt, Cont::Pmtiles, &mut src, &wp, &format!("sw{i}")) {
				Ok(w) => match ct::open(&rt, Cont::Pmtiles, &w) {
					Ok(r) => {
						let got: Value = serde_json::from_str(&r.get_tilejson().as_string()).unwrap_or(Value::Null);
						if got["name"] != "metadata behind the root directory" || got["attribution"] != "kept" {
							ctx.violation("pmtiles: returned TileJSON differs from the one given", &format!("{n} tiles (root/leaf switch at {switch}): returned {got}"), case);
						}
					}
					Err(e) => ctx.violation(&format!("pmtiles: container with a TileJSON document cannot be opened: {}", super::c01::norm_msg(&e)), &format!("{n} tiles (root/leaf switch at {switch}): {e}"), case),
				},
				Err(e) => ctx.violation(&format!("pmtiles: writer fails with a TileJSON document: {}", super::c01::norm_msg(&e)), &format!("{n} tiles: {e}"), case),
			}
			ctx.nontrivial(fnv_str(&format!("pmroot{n}")));
		});
		ctx.outcome_n(&format!("pmtiles tile counts around the root-directory limit (switch at {switch})"), ns.len() as u64);
	}
	// a conversion that flips / swaps the coordinates: the metadata of the output must describe the output
	{
		use versatiles_container::{TilesConvertReader, TilesConverterParameters};
		let rt = tokio::runtime::Builder::new_current_thread().build().unwrap();
		let mut tiles = TileMap::new();
		for k in [(2u8, 1u32, 0u32), (5, 9, 3), (5, 10, 4)] {
			tiles.insert(k, format!("t{k:?}").into_bytes());
		}
		let mut n = 0u64;
		for with_bounds in [false, true] {
			for flags in 1..4u8 {
				for cont in [Cont::Versatiles, Cont::Pmtiles, Cont::Tar, Cont::Directory, Cont::Mbtiles] {
					let mut tj = TileJSON::try_from(r#"{"tilejson":"3.0.0","name":"transformed"}"#).unwrap();
					let src0 = MemSource::new("m", tiles.clone(), TileFormat::PNG, TileCompression::Uncompressed);
					if with_bounds {
						// what the directory / mbtiles readers put into the document when they open a source
						tj.update_from_pyramid(&src0.parameters.bbox_pyramid);
					}
					let src = src0.with_tilejson(tj);
					let mut cp = TilesConverterParameters::new_default();
					cp.flip_y = flags & 1 != 0;
					cp.swap_xy = flags & 2 != 0;
					let case = json!({"kind": "transformed conversion", "cont": cont, "flip_y": cp.flip_y, "swap_xy": cp.swap_xy, "source_document_has_bounds": with_bounds});
					let label = format!("{} flip_y={} swap_xy={} source bounds={with_bounds}", cont.name(), cp.flip_y, cp.swap_xy);
					ctx.eval();
					n += 1;
					let (flip_y, swap_xy) = (cp.flip_y, cp.swap_xy);
					let Ok(mut conv) = TilesConvertReader::new_from_reader(Box::new(src), cp) else { continue };
					let w = match ct::write(&rt, cont, &mut conv, &work.0, &format!("tr{n}")) {
						Ok(w) => w,
						Err(e) => {
							ctx.violation(&format!("{}: transformed conversion fails: {}", cont.name(), super::c01::norm_msg(&e)), &format!("{label}: {e}"), case);
							continue;
						}
					};
					if let Ok(r) = ct::open(&rt, cont, &w) {
						let got: Value = serde_json::from_str(&r.get_tilejson().as_string()).unwrap_or(Value::Null);
						if got["name"] != "transformed" {
							ctx.violation("returned TileJSON of a transformed conversion lost the document", &format!("{label}: {got}"), case.clone());
						}
						if let Some(b) = got["bounds"].as_array().map(|a| a.iter().filter_map(|x| x.as_f64()).collect::<Vec<_>>()) {
							// the deepest level holds (9,3) and (10,4): where they are after the transform
							let place = |x: u32, y: u32| {
								let (x, y) = if flip_y { (x, 31 - y) } else { (x, y) };
								if swap_xy { (y, x) } else { (x, y) }
							};
							for (x, y) in [place(9, 3), place(10, 4)] {
								let t = TileCoord3 { x, y, z: 5 }.as_geo_bbox();
								let (tw, ts, te, tn) = (t.0.min(t.2), t.1.min(t.3), t.0.max(t.2), t.1.max(t.3));
								if b.len() != 4 || b[0] > b[2] || b[1] > b[3] || b[0] > tw + 1e-6 || b[2] < te - 1e-6 || b[1] > ts + 1e-6 || b[3] < tn - 1e-6 {
									ctx.violation("bounds of a transformed conversion do not contain its tiles", &format!("{label}: bounds {b:?}, output tile (5,{x},{y}) spans [{tw},{ts},{te},{tn}]"), case.clone());
									break;
								}
							}
						}
					}
					ct::cleanup(&w);
				}
			}
		}
		ctx.outcome_n("transformed conversions (flags x formats x source bounds)", n);
	}
	ctx.outcome_n("TileJSON documents x containers x compressions", jobs.len() as u64);
	ctx.state(jobs.len() as u64);
	ctx.transition(jobs.len() as u64);
	drop(work);
}

pub fn run(ctx: Arc<Ctx>) {
	ctx.rule(
		"values: all 1,112,064 one-character strings; all strings of length <= 3 over 20 escape-class characters (also as object keys); 36 numbers incl. -0, 1e21, 5e-324, max double, 2^53+-1; every number m x 10^e (m <= 999, e in -330..=310), every power of two of the double range with both neighbours, integers around 2^k for k <= 64, all with both signs; texts whose tokens cross the 4096 / 8192 byte borders of the parser's read buffer at every byte; all nested values of depth <= 2 and width <= 2 over 7 leaves and three keys, depth 3 over every 401st (quick) / 7th (thorough) depth-2 value; each through stringify -> own parser (equal value) and stringify -> serde_json (same value). \
		 TileJSON: 7 documents (incl. lists that repeat an entry) x {versatiles, pmtiles, tar, directory} x 3 compressions written by the real writers; PMTiles also at 83 tile counts around the point where the root directory fills its 16 KiB area (the metadata lies right behind it); stored metadata (independently decoded) and the re-opened reader's TileJSON must equal the given document, zoom range and bounds only narrowed, also when the reader's tile compression label is overridden before / after the first access; conversions with flip / swap into all five formats (source document with and without bounds): returned bounds must contain the transformed tiles; served tiles.json checked through the real server without and with --flip-y / --swap-xy over versatiles, pmtiles, directory and tar sources. non-trivial = distinct values / documents",
	);
	ctx.assume("serde_json is the 'standard JSON parser'; numbers are compared as f64");
	part_values(&ctx);
	part_containers(&ctx);
	if let Err(e) = super::http::c17_tilesjson(&ctx) {
		eprintln!("MACHINERY: tiles.json server part failed: {e}");
		std::process::exit(2);
	}
	ctx.exhaustive(true);
	let _ = Tier::Quick;
}

pub fn replay(ctx: Arc<Ctx>, case: &Value) {
	if case["kind"] == "value" {
		fn from_serde(v: &Value) -> JsonValue {
			match v {
				Value::Null => JsonValue::Null,
				Value::Bool(b) => JsonValue::Boolean(*b),
				Value::Number(n) => JsonValue::Number(n.as_f64().unwrap_or(0.0)),
				Value::String(s) => JsonValue::String(s.clone()),
				Value::Array(a) => JsonValue::Array(JsonArray(a.iter().map(from_serde).collect())),
				Value::Object(o) => {
					let mut j = JsonObject::default();
					for (k, v) in o {
						j.0.insert(k.clone(), from_serde(v));
					}
					JsonValue::Object(j)
				}
			}
		}
		let v = from_serde(&case["value"]);
		for _ in 0..2 {
			println!("  stringify -> {:?}", catch(|| stringify(&v)));
			roundtrip(&ctx, &v, "replay");
		}
	} else {
		println!("  case: {case}\n  re-run ./check C17 quick (deterministic) to reproduce");
	}
}
