//! C11 — updating vector-tile properties leaves everything else in the tile untouched.

use crate::codec;
use crate::containers as ct;
use crate::ctx::{fnv_str, Ctx, Tier};
use crate::memsource::{MemSource, TileMap};
use crate::mvt::{self, feat, layer, point, s, DLayer, Enc, MLayer, MVal};
use crate::par::{catch, panic_site, par_for};
use crate::pipeline::{self, AnySrc};
use serde_json::{json, Value};
use std::collections::BTreeMap;
use std::sync::Arc;
use versatiles_core::types::*;
use versatiles_geometry::vector_tile::VectorTile;

/// CSV value -> property value, as the data file's cells are typed (documented in the operation's help:
/// numbers become numbers, true/false booleans, everything else text).
fn csv_value(v: &str) -> MVal {
	if v == "true" {
		return MVal::Bool(true);
	}
	if v == "false" {
		return MVal::Bool(false);
	}
	let digits = |s: &str| !s.is_empty() && s.bytes().all(|b| b.is_ascii_digit());
	// zero-padded integers ("007", "-042") are identifiers (municipality keys, postcodes), not numbers: as numbers
	// they would join with other ids ("7") and lose their text
	let int_body = v.strip_prefix('-').unwrap_or(v);
	if digits(int_body) && int_body.len() > 1 && int_body.starts_with('0') {
		return MVal::Str(v.to_string());
	}
	if digits(v) {
		if let Ok(u) = v.parse::<u64>() {
			return MVal::Int(u as i128);
		}
	}
	if let Some(r) = v.strip_prefix('-') {
		if digits(r) {
			if let Ok(i) = v.parse::<i64>() {
				return MVal::Int(i as i128);
			}
		}
	}
	let body = v.strip_prefix('-').unwrap_or(v);
	if let Some((a, b)) = body.split_once('.') {
		if (a.is_empty() || digits(a)) && digits(b) {
			return MVal::F64(v.parse::<f64>().unwrap().to_bits());
		}
	}
	MVal::Str(v.to_string())
}

fn id_string(v: &MVal) -> String {
	match v {
		MVal::Str(s) => s.clone(),
		MVal::Int(i) => i.to_string(),
		MVal::Bool(b) => b.to_string(),
		MVal::F32(b) => f32::from_bits(*b).to_string(),
		MVal::F64(b) => f64::from_bits(*b).to_string(),
	}
}

#[derive(Clone, Debug)]
pub struct Opts {
	pub replace: bool,
	pub remove: bool,
	pub include_id: bool,
}

#[derive(Clone, Debug)]
pub struct Table {
	pub name: &'static str,
	pub header: Vec<&'static str>,
	pub rows: Vec<Vec<&'static str>>,
}

pub fn tables() -> Vec<Table> {
	vec![
		Table { name: "ids x1,x2 with one extra column", header: vec!["data_id", "pop"], rows: vec![vec!["x1", "100"], vec!["x2", "-5"]] },
		Table { name: "numeric id 7, two columns, one equal to an existing key", header: vec!["data_id", "k", "ratio", "flag"], rows: vec![vec!["7", "new", "0.5", "true"], vec!["x3", "z", "1.25", "false"]] },
		Table { name: "no matching ids", header: vec!["data_id", "pop"], rows: vec![vec!["nobody", "1"]] },
		Table { name: "id column only", header: vec!["data_id"], rows: vec![vec!["x1"], vec!["x2"], vec!["7"]] },
		Table { name: "zero-padded ids next to the plain number", header: vec!["data_id", "town"], rows: vec![vec!["007", "seven padded"], vec!["042", "forty-two padded"], vec!["9", "nine"], vec!["-08", "minus eight padded"]] },
		Table { name: "numbers written with many digits (longer than any 64-bit integer text)", header: vec!["data_id", "slope", "big"], rows: vec![vec!["3.500000000000000000000", "-0.00012345678901234567", "12345678901234567890.5"], vec!["2.0000000000000000000000", "0.100000000000000000000000001", "-0.000000000000000000000001"], vec!["x1", "1.000000000000000000000", "000000000000000000000000.5"]] },
		Table { name: "text with blanks and tabs at its ends, in the middle and in the last column", header: vec!["data_id", "lead", "trail"], rows: vec![vec!["x1", " lead", "Main St. "], vec!["x2", "tab\t", "two  blanks  "], vec!["7", "mid dle", "\ttab first"], vec!["x3", " ", "  "]] },
		Table { name: "a record whose cells are all empty (the id is the empty text) between ordinary records", header: vec!["data_id", "v"], rows: vec![vec!["x1", "one"], vec!["", ""], vec!["x2", "two"]] },
		Table { name: "numeric ids written as integers and as decimals", header: vec!["data_id", "label"], rows: vec![vec!["2", "two"], vec!["5.0", "five"], vec!["3.5", "three and a half"], vec!["4.0", "four"], vec!["-6", "minus six"], vec!["7", "seven"]] },
	]
}

/// Reference join on the independently decoded form.
pub fn reference(layers: &[DLayer], layer_name: &str, id_field: &str, table: &Table, o: &Opts) -> Vec<DLayer> {
	let idcol = table.header.iter().position(|h| *h == "data_id").unwrap();
	let mut out = vec![];
	for l in layers {
		if l.name != layer_name {
			out.push(l.clone());
			continue;
		}
		let mut nl = l.clone();
		nl.features.clear();
		for f in &l.features {
			let mut nf = f.clone();
			if let Some(idv) = f.props.get(id_field) {
				let ids = id_string(idv);
				match table.rows.iter().find(|r| id_string(&csv_value(r[idcol])) == ids) {
					Some(row) => {
						let mut newp: BTreeMap<String, MVal> = BTreeMap::new();
						for (c, h) in table.header.iter().enumerate() {
							if c == idcol && !o.include_id {
								continue;
							}
							newp.insert(h.to_string(), csv_value(row[c]));
						}
						if o.replace {
							nf.props = newp;
						} else {
							nf.props.extend(newp);
						}
					}
					None => {
						if o.remove {
							continue;
						}
					}
				}
			} else if o.remove {
				// a feature without the id field matches no row
				continue;
			}
			nl.features.push(nf);
		}
		out.push(nl);
	}
	out
}

pub fn compare(got: &[DLayer], want: &[DLayer], named: &str) -> Option<(String, String)> {
	let gm: BTreeMap<&String, &DLayer> = got.iter().map(|l| (&l.name, l)).collect();
	let wm: BTreeMap<&String, &DLayer> = want.iter().map(|l| (&l.name, l)).collect();
	if gm.len() != got.len() {
		return Some(("output has two layers of one name".into(), format!("{:?}", got.iter().map(|l| &l.name).collect::<Vec<_>>())));
	}
	if gm.keys().collect::<Vec<_>>() != wm.keys().collect::<Vec<_>>() {
		return Some(("a layer was added or lost".into(), format!("layers {:?}, expected {:?}", gm.keys().collect::<Vec<_>>(), wm.keys().collect::<Vec<_>>())));
	}
	for (name, w) in &wm {
		let g = gm[name];
		let which = if name.as_str() == named { "named layer" } else { "other layer" };
		if g.extent != w.extent {
			return Some((format!("{which}: extent changed"), format!("layer '{name}': {} vs {}", g.extent, w.extent)));
		}
		if g.version != w.version {
			return Some((format!("{which}: version changed"), format!("layer '{name}': {} vs {}", g.version, w.version)));
		}
		// MVT 2.1, 4.1: "A layer MUST contain a version field" (required in the schema, whatever its value)
		if w.has_version && !g.has_version {
			return Some(("a layer that had the required version field is written without it".to_string(), format!("layer '{name}' (version {})", w.version)));
		}
		if g.features.iter().any(|f| f.bad_tags) {
			return Some((format!("{which}: a feature references a key/value index outside the tables"), format!("layer '{name}'")));
		}
		if g.features.len() != w.features.len() {
			return Some((format!("{which}: number of features changed"), format!("layer '{name}': {} vs expected {}", g.features.len(), w.features.len())));
		}
		for (i, (a, b)) in g.features.iter().zip(w.features.iter()).enumerate() {
			if a.id != b.id || a.gtype != b.gtype || a.geom != b.geom {
				return Some((format!("{which}: feature id, geometry type, geometry bytes or order changed"), format!("layer '{name}' #{i}: id {:?}/{:?} type {}/{} geom {:?}/{:?}", a.id, b.id, a.gtype, b.gtype, a.geom, b.geom)));
			}
			if a.props != b.props {
				return Some((format!("{which}: property set differs from the reference join"), format!("layer '{name}' #{i} (id {:?}): got {:?}, expected {:?}", a.id, a.props, b.props)));
			}
		}
	}
	None
}

/// Catalogue for C11: C10's catalogue plus tiles built around the named layer "a" with an id key.
pub fn catalogue() -> Vec<(String, Vec<MLayer>)> {
	let u = |v: u64| (Enc::UInt64, MVal::Int(v as i128));
	let mut v: Vec<(String, Vec<MLayer>)> = super::c10::catalogue().into_iter().map(|(n, t)| (n.to_string(), t)).collect();
	v.push((
		"layer a with id key, five features (x1, 7, unknown, none, x2), second layer b untouched".into(),
		vec![
			layer(
				"a",
				&["id", "k", "n"],
				vec![s("x1"), u(7), s("unknown"), s("x2"), s("old"), u(3)],
				vec![
					feat(Some(10), &[0, 0, 1, 4], 1, point(1, 1)),
					feat(Some(11), &[0, 1, 2, 5], 2, mvt::line(&[(0, 0), (4, 4)])),
					feat(Some(12), &[0, 2, 1, 4], 1, point(3, 3)),
					feat(Some(13), &[1, 4], 0, vec![]),
					feat(None, &[0, 3], 3, vec![9, 0, 0, 26, 10, 0, 0, 10, 9, 9, 15]),
				],
			),
			layer("b", &["id"], vec![s("x1")], vec![feat(Some(1), &[0, 0], 1, point(9, 9))]),
		],
	));
	v.push((
		"layer a whose id values include the empty text".into(),
		vec![layer("a", &["id", "k"], vec![s(""), s("x1"), s("kept")], vec![feat(Some(41), &[0, 0, 1, 2], 1, point(1, 1)), feat(Some(42), &[0, 1], 1, point(2, 2)), feat(Some(43), &[1, 2], 1, point(3, 3))])],
	));
	v.push((
		"layer a of version 3 with id key, second layer of version 5, third of version 2 (any version number is a valid uint32)".into(),
		vec![
			MLayer { version: 3, ..layer("a", &["id", "k"], vec![s("x1"), s("old"), s("x2")], vec![feat(Some(31), &[0, 0, 1, 1], 1, point(1, 1)), feat(Some(32), &[0, 2], 1, point(2, 2))]) },
			MLayer { version: 5, ..layer("b", &["id"], vec![s("x1")], vec![feat(Some(1), &[0, 0], 1, point(9, 9))]) },
			layer("c", &["id"], vec![s("x2")], vec![feat(Some(2), &[0, 0], 1, point(8, 8))]),
		],
	));
	v.push((
		"layer a, id as int64 / sint64 / uint64 of the same number, float and double".into(),
		vec![layer(
			"a",
			&["id", "f"],
			vec![(Enc::Int64, MVal::Int(7)), (Enc::SInt64, MVal::Int(7)), (Enc::UInt64, MVal::Int(7)), (Enc::Float, MVal::F32(0.5f32.to_bits())), (Enc::Double, MVal::F64(0.5f64.to_bits()))],
			vec![feat(Some(1), &[0, 0, 1, 3], 1, point(1, 1)), feat(Some(2), &[0, 1, 1, 4], 1, point(2, 1)), feat(Some(3), &[0, 2], 1, point(3, 1))],
		)],
	));
	v.push((
		"layer a, tables with duplicate keys, duplicate values and unused entries".into(),
		vec![layer("a", &["id", "dup", "id", "unused", "k"], vec![s("x2"), s("x2"), s("v"), s("never"), s("x1")], vec![feat(Some(5), &[2, 4, 4, 2], 1, point(1, 1)), feat(Some(6), &[0, 1, 1, 2], 1, point(2, 2))])],
	));
	v.push((
		"layer a, numeric ids as double / float / integers with integral and fractional values".into(),
		vec![layer(
			"a",
			&["id"],
			vec![(Enc::Double, MVal::F64(2.0f64.to_bits())), (Enc::Float, MVal::F32(5.0f32.to_bits())), (Enc::Double, MVal::F64(3.5f64.to_bits())), (Enc::UInt64, MVal::Int(4)), (Enc::SInt64, MVal::Int(-6)), (Enc::Double, MVal::F64((-6.0f64).to_bits())), (Enc::Float, MVal::F32(7.25f32.to_bits())), (Enc::Int64, MVal::Int(5))],
			(0..8u32).map(|i| feat(Some(20 + i as u64), &[0, i], 1, point(i as i32, 2))).collect(),
		)],
	));
	v.push((
		"layer a, zero-padded string ids next to the plain numbers".into(),
		vec![layer(
			"a",
			&["id", "k"],
			vec![s("007"), s("042"), s("7"), u(7), u(42), s("9"), u(9), s("-08"), (Enc::SInt64, MVal::Int(-8)), s("kept")],
			(0..9u32).map(|i| feat(Some(70 + i as u64), &[0, i, 1, 9], 1, point(i as i32, 3))).chain([feat(Some(80), &[1, 9], 1, point(9, 3))]).collect(),
		)],
	));
	// many float / double values among which NaNs with different payloads and both zeros stand: the value table
	// is rebuilt (and sorted) by the stage
	{
		let mut values: Vec<(Enc, MVal)> = vec![s("x1"), s("x2")];
		for i in 0..24u32 {
			values.push((Enc::Float, MVal::F32(if i % 3 == 0 { 0x7fc0_0000 + i } else if i % 3 == 1 { (i as f32 * 1.5 - 9.0).to_bits() } else { 0xffc0_0000 + i })));
			values.push((Enc::Double, MVal::F64(if i % 2 == 0 { 0x7ff8_0000_0000_0000 + i as u64 } else { (i as f64 - 7.25).to_bits() })));
		}
		values.push((Enc::Float, MVal::F32(0.0f32.to_bits())));
		values.push((Enc::Float, MVal::F32((-0.0f32).to_bits())));
		let n = values.len() as u32;
		let feats: Vec<_> = (2..n).map(|i| feat(Some(100 + i as u64), &[0, i % 2, 1, i], 1, point(i as i32, 5))).collect();
		v.push(("layer a, 50 float / double values incl. NaNs of different payloads and both zeros".into(), vec![layer("a", &["id", "f"], values, feats)]));
	}
	// exhaustively: all key tables of length <= 3 over {id, k}, every feature referencing each key position once
	let names = ["id", "k"];
	for len in 1..=3usize {
		for code in 0..(1usize << len) {
			let keys: Vec<&str> = (0..len).map(|i| names[(code >> i) & 1]).collect();
			let feats: Vec<_> = (0..len).map(|i| feat(Some(50 + i as u64), &[i as u32, (i % 2) as u32], 1, point(i as i32, 0))).collect();
			v.push((format!("layer a, key table {keys:?}, one feature per key position"), vec![layer("a", &keys, vec![s("x1"), s("x2")], feats)]));
		}
	}
	v
}

pub fn run(ctx: Arc<Ctx>) {
	ctx.rule(
		"catalogue: C10's 12 tiles + tiles around layer 'a' with an id key (ids as string / int64 / sint64 / uint64 / float / double with integral and fractional values, float vs double, unknown geometry type, duplicate keys/values, unused entries, untouched second layer) + all key tables of length <= 3 over {id,k}; \
		 x 9 data tables (a record of empty cells, string ids, numeric ids as integers and decimals, zero-padded ids, numbers written with more than 20 digits, text with blanks and tabs at its ends) x 2^3 options (replace, remove_non_matching, include_id) x layer name {a, absent} x source compression; reference join on the independently decoded form; plus decode -> encode of every catalogue tile through the repository's VectorTile (incl. ids / values / coordinates / string lengths at every border of the varint encoding, and tiles whose length prefixes run through 2^7, 2^14, 2^21); plus the bounded-exhaustive small-layer family (5 key tables x 4 value tables x feature lists with every tag list of <= 2 pairs; all 409) joined on key k under all 16 (options, layer name) configurations; plus data files in every documented CSV layout (quoted cells with separators / doubled quotes / line breaks / non-ASCII text, CRLF, blank lines, missing final line end: 32 layouts) and long tables whose cells of interest are cut at every byte by the 4096 / 8192 byte borders of the reader's buffer. \
		 non-trivial = (tile, table, options) where the reference join changes at least one feature",
	);
	let cat = catalogue();
	let tabs = tables();
	let work = ct::WorkDir::new("c11");
	for (i, t) in tabs.iter().enumerate() {
		let mut csv = t.header.join(",");
		csv.push('\n');
		for r in &t.rows {
			csv.push_str(&r.join(","));
			csv.push('\n');
		}
		std::fs::write(work.0.join(format!("t{i}.csv")), csv).unwrap();
	}
	// part 1: from_blob -> to_blob preserves decoded content
	for (name, tile) in &cat {
		let raw = mvt::encode_tile(tile);
		let want = mvt::decode_tile(&raw).expect("catalogue decodes");
		ctx.eval();
		let r = catch(|| VectorTile::from_blob(&Blob::from(raw.as_slice())).and_then(|t| t.to_blob()));
		let case = json!({"kind": "reencode", "tile": name});
		match r {
			Err(p) => ctx.violation(&format!("decode/encode of a valid vector tile panics at {}", panic_site(&p)), &format!("{name}: {p}"), case),
			Ok(Err(e)) => ctx.violation(&format!("a valid vector tile cannot be decoded/encoded: {}", super::c01::norm_msg(&format!("{e:#}"))), &format!("{name}: {e:#}"), case),
			Ok(Ok(b)) => match mvt::decode_tile(b.as_slice()) {
				Err(e) => ctx.violation("re-encoded vector tile is not a valid tile", &format!("{name}: {e}"), case),
				Ok(got) => {
					if let Some((clause, why)) = compare(&got, &want, "\u{0}") {
						ctx.violation(&format!("decode -> encode without changes alters the tile: {}", clause.replace("other layer: ", "")), &format!("{name}: {why}"), case);
					}
				}
			},
		}
	}
	// a layer whose value table has 70000 entries, every one referenced (tag indices on both sides of 2^7, 2^14, 2^15 and 2^16),
	// next to a small second layer
	{
		let n = 70000u32;
		let values: Vec<(Enc, MVal)> = (0..n).map(|i| s(&format!("v{i}"))).collect();
		let feats: Vec<mvt::MFeature> = (0..n).map(|i| feat(Some(i as u64), &[0, i], 1, point((i % 4000) as i32, 1))).collect();
		let raw = mvt::encode_tile(&[layer("big", &["k"], values, feats), layer("a", &["id"], vec![s("x1")], vec![feat(Some(1), &[0, 0], 1, point(1, 1))])]);
		let want = mvt::decode_tile(&raw).expect("big tile decodes");
		ctx.eval();
		let case = json!({"kind": "reencode", "tile": "layer with 70000 table entries"});
		match catch(|| VectorTile::from_blob(&Blob::from(raw.as_slice())).and_then(|t| t.to_blob())) {
			Err(p) => ctx.violation(&format!("decode/encode of a valid vector tile panics at {}", panic_site(&p)), &p, case),
			Ok(Err(e)) => ctx.violation(&format!("a valid vector tile cannot be decoded/encoded: {}", super::c01::norm_msg(&format!("{e:#}"))), &format!("70000 table entries: {e:#}"), case),
			Ok(Ok(b)) => match mvt::decode_tile(b.as_slice()) {
				Err(e) => ctx.violation("re-encoded vector tile is not a valid tile", &format!("70000 table entries: {e}"), case),
				Ok(got) => {
					if let Some((clause, why)) = compare(&got, &want, "\u{0}") {
						ctx.violation(&format!("decode -> encode without changes alters the tile: {}", clause.replace("other layer: ", "")), &format!("70000 table entries: {}", why.chars().take(300).collect::<String>()), case);
					}
				}
			},
		}
	}
	// every length prefix of a tile on the borders of its varint encoding: one string value whose length runs through
	// 2^k - 40 ..= 2^k + 2 (k = 7, 14, 21), so that the value message, the layer message and the string itself each
	// reach exactly 2^k - 1, 2^k and 2^k + 1 bytes in one of the tiles
	{
		let mut lens: Vec<usize> = vec![];
		for k in [7u32, 14, 21] {
			let b = 1usize << k;
			lens.extend(b - 40..=b + 2);
		}
		let lr = &lens;
		let ctxr: &Ctx = &ctx;
		par_for(lens.len(), |i| {
			let len = lr[i];
			let raw = mvt::encode_tile(&[layer("a", &["k"], vec![s(&"x".repeat(len)), s("y")], vec![feat(Some(1), &[0, 0], 1, point(1, 1)), feat(Some(2), &[0, 1], 1, point(2, 2))])]);
			let want = mvt::decode_tile(&raw).expect("length tile decodes");
			ctxr.eval();
			let case = json!({"kind": "reencode", "tile": format!("string value of {len} bytes")});
			match catch(|| VectorTile::from_blob(&Blob::from(raw.as_slice())).and_then(|t| t.to_blob())) {
				Err(p) => ctxr.violation(&format!("decode/encode of a valid vector tile panics at {}", panic_site(&p)), &format!("string of {len} bytes: {p}"), case),
				Ok(Err(e)) => ctxr.violation(&format!("a valid vector tile cannot be decoded/encoded: {}", super::c01::norm_msg(&format!("{e:#}"))), &format!("string of {len} bytes: {e:#}"), case),
				Ok(Ok(b)) => match mvt::decode_tile(b.as_slice()) {
					Err(e) => ctxr.violation("re-encoded vector tile is not a valid tile", &format!("string of {len} bytes: {e}"), case),
					Ok(got) => {
						if let Some((clause, why)) = compare(&got, &want, "\u{0}") {
							ctxr.violation(&format!("decode -> encode without changes alters the tile: {}", clause.replace("other layer: ", "")), &format!("string of {len} bytes: {}", why.chars().take(200).collect::<String>()), case);
						}
					}
				},
			}
		});
		ctx.outcome_n("tiles whose length prefixes run through the varint borders 2^7, 2^14, 2^21", lens.len() as u64);
	}
	// the same for tiles that spell a feature's packed fields in the other forms protobuf allows
	for (name, raw) in [("tags split into two packed chunks", mvt::encode_tile_alternative_packing(false)), ("tags as unpacked varints", mvt::encode_tile_alternative_packing(true))] {
		let want = mvt::decode_tile(&raw).expect("alternative packing decodes");
		ctx.eval();
		let case = json!({"kind": "reencode", "tile": name});
		match catch(|| VectorTile::from_blob(&Blob::from(raw.as_slice())).and_then(|t| t.to_blob())) {
			Err(p) => ctx.violation(&format!("decode/encode of a valid vector tile panics at {}", panic_site(&p)), &format!("{name}: {p}"), case),
			Ok(Err(e)) => ctx.violation(&format!("a valid vector tile cannot be decoded/encoded: {}", super::c01::norm_msg(&format!("{e:#}"))), &format!("{name}: {e:#}"), case),
			Ok(Ok(b)) => match mvt::decode_tile(b.as_slice()) {
				Err(e) => ctx.violation("re-encoded vector tile is not a valid tile", &format!("{name}: {e}"), case),
				Ok(got) => {
					if let Some((clause, why)) = compare(&got, &want, "\u{0}") {
						ctx.violation(&format!("decode -> encode without changes alters the tile: {}", clause.replace("other layer: ", "")), &format!("{name}: {why}"), case);
					}
				}
			},
		}
	}
	// part 2: the pipeline stage
	let mut jobs = vec![];
	for ti in 0..cat.len() {
		for tb in 0..tabs.len() {
			for o in 0..8u8 {
				for lname in ["a", "absent"] {
					for comp in 0..3u8 {
						if ctx.tier == Tier::Quick && comp != ((ti + tb + o as usize) % 3) as u8 {
							continue;
						}
						jobs.push((ti, tb, o, lname, comp));
					}
				}
			}
		}
	}
	ctx.state(jobs.len() as u64);
	let (ctxr, jr, catr, tabr, wpath): (&Ctx, _, _, _, _) = (&ctx, &jobs, &cat, &tabs, work.0.clone());
	par_for(jobs.len(), |ji| {
		let (ti, tb, o, lname, comp) = jr[ji];
		let opts = Opts { replace: o & 1 != 0, remove: o & 2 != 0, include_id: o & 4 != 0 };
		let (tname, tile) = &catr[ti];
		let raw = mvt::encode_tile(tile);
		let decoded = mvt::decode_tile(&raw).unwrap();
		let want = reference(&decoded, lname, "id", &tabr[tb], &opts);
		let mut tiles = TileMap::new();
		tiles.insert((4, 3, 2), codec::encode_with(comp, &raw));
		tiles.insert((4, 4, 2), codec::encode_with(comp, &raw));
		let src = MemSource::new("s", tiles, TileFormat::PBF, ct::comp_from_id(comp));
		let vpl = format!(
			"from_container filename=\"mem:0\" | vectortiles_update_properties data_source_path=\"t{tb}.csv\" layer_name=\"{lname}\" id_field_tiles=\"id\" id_field_data=\"data_id\" replace_properties={} remove_non_matching={} include_id={}",
			opts.replace, opts.remove, opts.include_id
		);
		let case = json!({"kind": "update", "tile": tname, "table": tabr[tb].name, "options": {"replace": opts.replace, "remove_non_matching": opts.remove, "include_id": opts.include_id}, "layer_name": lname, "compression": comp, "vpl": vpl});
		let rt = crate::memsource::runtime(2);
		let fac = pipeline::factory(vec![src], &wpath);
		ctxr.eval();
		ctxr.transition(1);
		let op = match pipeline::build_op(&rt, &fac, &vpl) {
			Ok(o) => o,
			Err(e) => {
				ctxr.violation(&format!("update pipeline cannot be built: {}", super::c01::norm_msg(&e)), &format!("{vpl}: {e}"), case);
				return;
			}
		};
		let declared = op.get_parameters().tile_compression;
		let src = AnySrc::Op(op);
		let label = format!("tile '{tname}', table '{}', {opts:?}, layer_name={lname}, source compression {comp}", tabr[tb].name);
		let judge = |bytes: &[u8], path: &str| {
			let plain = match codec::decode_with(ct::comp_id(declared), bytes) {
				Ok(p) => p,
				Err(e) => {
					ctxr.violation("output tile is not in the declared compression", &format!("{label} ({path}): {e}"), case.clone());
					return;
				}
			};
			match mvt::decode_tile(&plain) {
				Err(e) => ctxr.violation("output is not a decodable vector tile in the declared compression", &format!("{label} ({path}): {e}"), case.clone()),
				Ok(got) => {
					if let Some((clause, why)) = compare(&got, &want, lname) {
						ctxr.violation(&clause, &format!("{label} ({path}): {why}"), case.clone());
					}
				}
			}
		};
		match catch(|| rt.block_on(src.lookup((4, 3, 2)))) {
			Err(p) => ctxr.violation(&format!("update lookup panics at {}", panic_site(&p)), &format!("{label}: {p}"), case.clone()),
			Ok(Err(e)) => ctxr.violation(&format!("update lookup fails: {}", super::c01::norm_msg(&format!("{e:#}"))), &format!("{label}: {e:#}"), case.clone()),
			Ok(Ok(None)) => ctxr.violation("update stage drops a tile", &label, case.clone()),
			Ok(Ok(Some(b))) => judge(&b, "lookup"),
		}
		match catch(|| rt.block_on(src.stream(TileBBox::new(4, 0, 0, 15, 15).unwrap()))) {
			Err(p) => ctxr.violation(&format!("update stream panics at {}", panic_site(&p)), &format!("{label}: {p}"), case.clone()),
			Ok(items) => {
				if items.len() != 2 {
					ctxr.violation("update stream delivers another number of tiles than the source holds", &format!("{label}: {}", items.len()), case.clone());
				}
				for (_, b) in items {
					judge(&b, "stream");
				}
			}
		}
		ctxr.trace(1);
		if want != decoded {
			ctxr.nontrivial(fnv_str(&format!("{ti}{tb}{o}{lname}")));
		}
	});
	systematic(&ctx, &work.0);
	csv_layouts(&ctx, &work.0, &cat);
	flag_spellings(&ctx, &work.0, &cat);
	ctx.sample(json!({"catalogue_size": cat.len(), "example_tile": cat[12].0, "tables": tabs.iter().map(|t| t.name).collect::<Vec<_>>()}));
	ctx.outcome_n("pipeline configurations", jobs.len() as u64);
	ctx.outcome_n("decode -> encode round trips", cat.len() as u64);
	ctx.exhaustive(true);
	drop(work);
}


/// Data files in every layout the CSV reader documents (quoted cells holding separators, doubled quotes, line breaks
/// and non-ASCII text; CRLF line ends; blank lines; no final line end) and tables long enough for every kind of cell
/// to be cut, byte by byte, by the borders of the reader's 4096-byte buffer - joined to the first id tile under two
/// option sets. `cells` is the meaning of the text, the reference join works on it.
fn csv_layouts(ctx: &Arc<Ctx>, work: &std::path::Path, cat: &[(String, Vec<MLayer>)]) {
	let leak = |s: String| -> &'static str { Box::leak(s.into_boxed_str()) };
	let quote = |c: &str| format!("\"{}\"", c.replace('"', "\"\""));
	let mut files: Vec<(String, Table, String)> = vec![]; // (label, meaning, literal text)
	let head: Vec<&'static str> = vec!["data_id", "note, with comma", "k"];
	let rows: Vec<Vec<&'static str>> = vec![vec!["x1", "a, b", "say \"hi\""], vec!["x2", "plain", "two\nlines"], vec!["7", "\u{e9}\u{20ac}\u{1F600}", ""], vec!["unknown", "\"", "x,\"y\",z"]];
	let meaning = Table { name: "quoted layout", header: head.clone(), rows: rows.clone() };
	let render = |quote_all: bool, eol: &str, final_eol: bool, blank_lines: bool| -> String {
		let mut t = String::new();
		let cell = |c: &str| if quote_all || c.contains(',') || c.contains('"') || c.contains('\n') { quote(c) } else { c.to_string() };
		t.push_str(&head.iter().map(|c| cell(c)).collect::<Vec<_>>().join(","));
		for r in &rows {
			t.push_str(eol);
			if blank_lines {
				t.push_str(eol);
			}
			t.push_str(&r.iter().enumerate().map(|(i, c)| if i == 0 && !quote_all { c.to_string() } else { cell(c) }).collect::<Vec<_>>().join(","));
		}
		if final_eol {
			t.push_str(eol);
		}
		t
	};
	for quote_all in [false, true] {
		for eol in ["\n", "\r\n"] {
			for final_eol in [true, false] {
				for blank in [false, true] {
					// a quoted number would be ambiguous (text or number): the id column stays bare unless everything is
					// quoted, and then the numeric id 7 is left out of the comparison by using a table without it
					let mut m = meaning.clone();
					if quote_all {
						m.rows.retain(|r| r[0] != "7");
					}
					let mut text = render(quote_all, eol, final_eol, blank);
					if quote_all {
						// drop the row of the numeric id from the text as well
						let rr: Vec<Vec<&'static str>> = rows.iter().filter(|r| r[0] != "7").cloned().collect();
						let cellq = |c: &str| quote(c);
						text = head.iter().map(|c| cellq(c)).collect::<Vec<_>>().join(",");
						for r in &rr {
							text.push_str(eol);
							if blank {
								text.push_str(eol);
							}
							text.push_str(&r.iter().map(|c| cellq(c)).collect::<Vec<_>>().join(","));
						}
						if final_eol {
							text.push_str(eol);
						}
					}
					files.push((format!("quote_all={quote_all} eol={eol:?} final_eol={final_eol} blank_lines={blank}"), m, text));
				}
			}
		}
	}
	// long tables: filler rows of a fixed shape, then the rows that matter; the length of the first filler cell moves
	// everything behind it across the buffer borders at 4096 and 8192
	let tail_rows: Vec<Vec<&'static str>> = vec![vec!["x1", "a, \"b\" \u{e9}\u{20ac}\u{1F600}", "-12.5"], vec!["x2", "second\nline", "true"], vec!["7", "", "12345678"]];
	let tail_text: String = tail_rows.iter().map(|r| format!("{},{},{}\r\n", r[0], quote(r[1]), r[2])).collect();
	for border in [4096usize, 8192] {
		for shift in 0..(tail_text.len() + 8) {
			let mut text = String::from("data_id,note,k\n");
			let mut m = Table { name: "long table", header: vec!["data_id", "note", "k"], rows: vec![] };
			let mut i = 0;
			while text.len() + 40 < border - tail_text.len() - 4 {
				let (id, note) = (leak(format!("f{i}")), leak(format!("filler {i}")));
				text.push_str(&format!("{id},{note},{i}\n"));
				m.rows.push(vec![id, note, leak(i.to_string())]);
				i += 1;
			}
			let want_len = border + 4 - shift;
			if want_len > text.len() + tail_text.len() + 12 {
				let pad = "p".repeat(want_len - text.len() - tail_text.len() - 10);
				let padc = leak(pad);
				text.push_str(&format!("fz,{padc},0\n"));
				m.rows.push(vec!["fz", padc, "0"]);
			}
			text.push_str(&tail_text);
			m.rows.extend(tail_rows.iter().cloned());
			files.push((format!("long table, rows of interest end {shift} bytes before byte {}", border + 4), m, text));
		}
	}
	let (tname, tile) = &cat[cat.iter().position(|(n, _)| n.starts_with("layer a with id key")).expect("id tile")];
	let raw = mvt::encode_tile(tile);
	let decoded = mvt::decode_tile(&raw).unwrap();
	let (ctxr, fr, wpath): (&Ctx, _, _) = (ctx, &files, work.to_path_buf());
	let (rawr, decr) = (&raw, &decoded);
	par_for(files.len(), |fi| {
		let (label, table, text) = &fr[fi];
		let fname = format!("layout{fi}.csv");
		std::fs::write(wpath.join(&fname), text).unwrap();
		for o in [0u8, 7, 2] {
			let opts = Opts { replace: o & 1 != 0, remove: o & 2 != 0, include_id: o & 4 != 0 };
			let want = reference(decr, "a", "id", table, &opts);
			let mut tiles = TileMap::new();
			tiles.insert((4, 3, 2), rawr.clone());
			let src = MemSource::new("s", tiles, TileFormat::PBF, TileCompression::Uncompressed);
			let vpl = format!("from_container filename=\"mem:0\" | vectortiles_update_properties data_source_path=\"{fname}\" layer_name=\"a\" id_field_tiles=\"id\" id_field_data=\"data_id\" replace_properties={} remove_non_matching={} include_id={}", opts.replace, opts.remove, opts.include_id);
			let case = json!({"kind": "csv layout", "tile": tname, "layout": label, "options": {"replace": opts.replace, "remove_non_matching": opts.remove, "include_id": opts.include_id}, "csv": if text.len() < 600 { text.clone() } else { format!("{} bytes", text.len()) }});
			let rt = crate::memsource::runtime(1);
			let fac = pipeline::factory(vec![src], &wpath);
			ctxr.eval();
			ctxr.transition(1);
			let op = match pipeline::build_op(&rt, &fac, &vpl) {
				Ok(o) => o,
				Err(e) => {
					ctxr.violation(&format!("update pipeline over a data file in a documented CSV layout cannot be built: {}", super::c01::norm_msg(&e)), &format!("{label}: {e}"), case);
					continue;
				}
			};
			match catch(|| rt.block_on(AnySrc::Op(op).lookup((4, 3, 2)))) {
				Err(p) => ctxr.violation(&format!("update lookup panics at {}", panic_site(&p)), &format!("{label}: {p}"), case.clone()),
				Ok(Err(e)) => ctxr.violation(&format!("update lookup fails: {}", super::c01::norm_msg(&format!("{e:#}"))), &format!("{label}: {e:#}"), case.clone()),
				Ok(Ok(None)) => ctxr.violation("update stage drops a tile", label, case.clone()),
				Ok(Ok(Some(b))) => match mvt::decode_tile(&b) {
					Err(e) => ctxr.violation("output is not a decodable vector tile in the declared compression", &format!("{label}: {e}"), case.clone()),
					Ok(got) => {
						if let Some((clause, why)) = compare(&got, &want, "a") {
							ctxr.violation(&format!("{clause} (data file layout)"), &format!("{label}, {opts:?}: {why}"), case.clone());
						}
					}
				},
			}
			ctxr.trace(1);
			ctxr.nontrivial(fnv_str(&format!("layout{fi}{o}")));
		}
	});
	ctx.outcome_n("data file layouts (quoting x line ends x blank lines; long tables cut by the read buffer at every byte)", files.len() as u64);
}


/// Other spellings of the boolean options (TRUE, True, yes, 1, ...): a spelling is either refused when the pipeline is
/// built or means what its lower-case form means - it is never silently read as the opposite.
fn flag_spellings(ctx: &Arc<Ctx>, work: &std::path::Path, cat: &[(String, Vec<MLayer>)]) {
	let (tname, tile) = &cat[cat.iter().position(|(n, _)| n.starts_with("layer a with id key")).expect("id tile")];
	let raw = mvt::encode_tile(tile);
	let decoded = mvt::decode_tile(&raw).unwrap();
	let table = &tables()[0];
	let rt = crate::memsource::runtime(1);
	let mut n = 0u64;
	for (spelling, meaning) in [("TRUE", true), ("True", true), ("tRuE", true), ("1", true), ("yes", true), ("YES", true), ("FALSE", false), ("False", false), ("0", false), ("no", false), ("NO", false)] {
		for which in 0..3usize {
			let opts = Opts { replace: which == 0 && meaning, remove: which == 1 && meaning, include_id: which == 2 && meaning };
			let text = |i: usize| if i == which { spelling.to_string() } else { "false".to_string() };
			let want = reference(&decoded, "a", "id", table, &opts);
			let mut tiles = TileMap::new();
			tiles.insert((4, 3, 2), raw.clone());
			let fac = pipeline::factory(vec![MemSource::new("s", tiles, TileFormat::PBF, TileCompression::Uncompressed)], work);
			let vpl = format!("from_container filename=\"mem:0\" | vectortiles_update_properties data_source_path=\"t0.csv\" layer_name=\"a\" id_field_tiles=\"id\" id_field_data=\"data_id\" replace_properties={} remove_non_matching={} include_id={}", text(0), text(1), text(2));
			ctx.eval();
			n += 1;
			let case = json!({"kind": "flag spelling", "tile": tname, "vpl": vpl});
			let Ok(op) = pipeline::build_op(&rt, &fac, &vpl) else { continue }; // refused: fine
			if let Ok(Ok(Some(b))) = catch(|| rt.block_on(AnySrc::Op(op).lookup((4, 3, 2)))) {
				if let Ok(got) = mvt::decode_tile(&b) {
					if let Some((clause, why)) = compare(&got, &want, "a") {
						ctx.violation(&format!("{clause} (option spelled '{spelling}' is accepted but not read as {meaning})"), &format!("{vpl}: {why}"), case);
					}
				}
			}
		}
	}
	ctx.outcome_n("spellings of boolean options x option", n);
}

/// The bounded-exhaustive small layers of `mvt::small_layers` (every key/value table layout, every tag
/// list of <= 2 pairs) as layer "a" next to a constant layer "b", joined on key `k` with a table that knows
/// the ids "v" and 5, under all 8 option combinations and both layer names; one pipeline per configuration,
/// the layers spread over the coordinates of level 10.
fn systematic(ctx: &Arc<Ctx>, work: &std::path::Path) {
	let all = mvt::small_layers("a");
	let pick: Vec<usize> = (0..all.len()).collect();
	let other = layer("b", &["k"], vec![s("v")], vec![feat(Some(77), &[0, 0], 1, point(9, 9))]);
	let enc: Vec<Vec<u8>> = pick.iter().map(|i| mvt::encode_tile(&[all[*i].clone(), other.clone()])).collect();
	let dec: Vec<Vec<DLayer>> = enc.iter().map(|b| mvt::decode_tile(b).expect("small layer decodes")).collect();
	let table = Table { name: "ids v and 5, column n (collides with a key) and column extra", header: vec!["data_id", "n", "extra"], rows: vec![vec!["v", "from table", "1"], vec!["5", "five", "2.5"]] };
	let mut csv = table.header.join(",");
	csv.push('\n');
	for r in &table.rows {
		csv.push_str(&r.join(","));
		csv.push('\n');
	}
	std::fs::write(work.join("sys.csv"), csv).unwrap();
	let mut tiles = TileMap::new();
	for (i, e) in enc.iter().enumerate() {
		tiles.insert((10, (i % 64) as u32, (i / 64) as u32), e.clone());
	}
	let rows = (enc.len() as u32).div_ceil(64);
	let cfgs: Vec<(u8, &str)> = (0..8u8).flat_map(|o| [(o, "a"), (o, "absent")]).collect();
	let (ctxr, cr, dr, pr, tr, tabr): (&Ctx, _, _, _, _, _) = (ctx, &cfgs, &dec, &pick, &tiles, &table);
	par_for(cfgs.len(), |ci| {
		let (o, lname) = cr[ci];
		let opts = Opts { replace: o & 1 != 0, remove: o & 2 != 0, include_id: o & 4 != 0 };
		let rt = crate::memsource::runtime(2);
		let src = MemSource::new("s", tr.clone(), TileFormat::PBF, TileCompression::Uncompressed).with_fast_stream();
		let vpl = format!(
			"from_container filename=\"mem:0\" | vectortiles_update_properties data_source_path=\"sys.csv\" layer_name=\"{lname}\" id_field_tiles=\"k\" id_field_data=\"data_id\" replace_properties={} remove_non_matching={} include_id={}",
			opts.replace, opts.remove, opts.include_id
		);
		let fac = pipeline::factory(vec![src], work);
		let op = match pipeline::build_op(&rt, &fac, &vpl) {
			Ok(o) => o,
			Err(e) => return ctxr.violation(&format!("update pipeline cannot be built: {}", super::c01::norm_msg(&e)), &format!("{vpl}: {e}"), json!({"systematic": true, "vpl": vpl})),
		};
		let declared = op.get_parameters().tile_compression;
		let src = AnySrc::Op(op);
		let items = match catch(|| rt.block_on(src.stream(TileBBox::new(10, 0, 0, 63, rows.max(1) - 1).unwrap()))) {
			Ok(v) => v,
			Err(p) => return ctxr.violation(&format!("update stream panics at {}", panic_site(&p)), &p, json!({"systematic": true, "vpl": vpl})),
		};
		if items.len() != dr.len() {
			ctxr.violation("update stream delivers another number of tiles than the source holds", &format!("{vpl}: {} of {}", items.len(), dr.len()), json!({"systematic": true, "vpl": vpl}));
		}
		for (key, bytes) in items {
			let i = (key.2 * 64 + key.1) as usize;
			if i >= dr.len() {
				continue;
			}
			ctxr.eval();
			ctxr.transition(1);
			let case = json!({"systematic": true, "small_layer": pr[i], "options": {"replace": opts.replace, "remove_non_matching": opts.remove, "include_id": opts.include_id}, "layer_name": lname});
			let label = format!("small layer #{} {opts:?} layer_name={lname}", pr[i]);
			let want = reference(&dr[i], lname, "k", tabr, &opts);
			let plain = match codec::decode_with(ct::comp_id(declared), &bytes) {
				Ok(p) => p,
				Err(e) => {
					ctxr.violation("output tile is not in the declared compression", &format!("{label}: {e}"), case);
					continue;
				}
			};
			match mvt::decode_tile(&plain) {
				Err(e) => ctxr.violation("output is not a decodable vector tile in the declared compression", &format!("{label}: {e}"), case),
				Ok(got) => {
					if let Some((clause, why)) = compare(&got, &want, lname) {
						ctxr.violation(&clause, &format!("{label}: {why}"), case);
					}
				}
			}
			if want != dr[i] {
				ctxr.nontrivial(fnv_str(&format!("sys{i}{o}{lname}")));
			}
		}
		ctxr.trace(1);
	});
	ctx.extra("systematic_small_layers", json!({"family_size": all.len(), "used": pick.len(), "configurations": cfgs.len()}));
}

pub fn replay(_ctx: Arc<Ctx>, case: &Value) {
	println!("  case: {case}");
	println!("  re-run ./check C11 quick (deterministic) to reproduce");
}
