//! E-http: process manager for the real `versatiles serve` binary and a raw HTTP/1.1 client
//! (keep-alive, own response parser, classifies "connection closed without a response").
//! Hosts C05, C07 and the server parts of C06 and C17.

use crate::codec;
use crate::containers::{self as ct, Cont};
use crate::ctx::{fnv_str, Ctx, Tier};
use crate::memsource::{Key, MemSource, TileMap};
use crate::par::par_for;
use serde_json::{json, Value};
use std::io::{Read, Write};
use std::net::TcpStream;
use std::path::{Path, PathBuf};
use std::process::{Child, Command, Stdio};
use std::sync::Arc;
use std::time::{Duration, Instant};
use versatiles_core::tilejson::TileJSON;
use versatiles_core::types::*;

pub fn versatiles_bin() -> PathBuf {
	std::env::var_os("VERIF_VERSATILES_BIN").map(PathBuf::from).unwrap_or_else(|| crate::ctx::verif_root().join(".target-repo/debug/versatiles"))
}

pub struct Server {
	child: Child,
	pub port: u16,
	pub log: PathBuf,
}

fn free_port() -> u16 {
	let l = std::net::TcpListener::bind("127.0.0.1:0").expect("bind");
	l.local_addr().unwrap().port()
}

impl Server {
	pub fn start(cwd: &Path, args: &[String], tag: &str) -> Result<Server, String> {
		let bin = versatiles_bin();
		if !bin.exists() {
			return Err(format!("versatiles binary not found at {bin:?} (run ./setup.sh)"));
		}
		for attempt in 0..5 {
			let port = free_port();
			let log = cwd.join(format!("server-{tag}-{attempt}.log"));
			let lf = std::fs::File::create(&log).map_err(|e| e.to_string())?;
			let mut cmd = Command::new(&bin);
			cmd.current_dir(cwd).arg("serve").arg("-i").arg("127.0.0.1").arg("-p").arg(port.to_string());
			cmd.args(args).stdin(Stdio::null()).stdout(Stdio::null()).stderr(lf);
			let mut child = cmd.spawn().map_err(|e| format!("spawn: {e}"))?;
			let t0 = Instant::now();
			let mut ok = false;
			while t0.elapsed() < Duration::from_secs(30) {
				if let Ok(Some(_)) = child.try_wait() {
					break;
				}
				if let Ok(mut c) = Client::connect(port) {
					if let Ok(Reply::Response(r)) = c.request("/status", &[]) {
						if r.status == 200 {
							ok = true;
							break;
						}
					}
				}
				std::thread::sleep(Duration::from_millis(50));
			}
			if ok {
				return Ok(Server { child, port, log });
			}
			let _ = child.kill();
			let _ = child.wait();
			let tail = std::fs::read_to_string(&log).unwrap_or_default();
			if attempt == 4 {
				return Err(format!("server did not become ready: {}", tail.lines().rev().take(5).collect::<Vec<_>>().join(" | ")));
			}
		}
		Err("unreachable".into())
	}
	pub fn alive(&mut self) -> bool {
		matches!(self.child.try_wait(), Ok(None))
	}
}

impl Drop for Server {
	fn drop(&mut self) {
		let _ = self.child.kill();
		let _ = self.child.wait();
	}
}

#[derive(Debug, Clone)]
pub struct Response {
	pub status: u16,
	pub headers: Vec<(String, String)>,
	pub body: Vec<u8>,
}

impl Response {
	pub fn header(&self, name: &str) -> Option<&str> {
		self.headers.iter().find(|h| h.0.eq_ignore_ascii_case(name)).map(|h| h.1.as_str())
	}
}

#[derive(Debug, Clone)]
pub enum Reply {
	Response(Response),
	/// the connection was closed (or reset) before a complete response arrived
	Dropped(String),
}

pub struct Client {
	port: u16,
	stream: Option<TcpStream>,
	buf: Vec<u8>,
}

impl Client {
	pub fn connect(port: u16) -> Result<Client, String> {
		let mut c = Client { port, stream: None, buf: vec![] };
		c.reconnect()?;
		Ok(c)
	}
	fn reconnect(&mut self) -> Result<(), String> {
		let s = TcpStream::connect(("127.0.0.1", self.port)).map_err(|e| e.to_string())?;
		s.set_read_timeout(Some(Duration::from_secs(20))).ok();
		s.set_nodelay(true).ok();
		self.stream = Some(s);
		self.buf.clear();
		Ok(())
	}
	fn fill(&mut self) -> Result<usize, String> {
		let mut tmp = [0u8; 16384];
		let n = self.stream.as_mut().unwrap().read(&mut tmp).map_err(|e| e.to_string())?;
		self.buf.extend_from_slice(&tmp[..n]);
		Ok(n)
	}
	/// Sends `GET <target> HTTP/1.1` with the raw target bytes and parses one response.
	pub fn request(&mut self, target: &str, headers: &[(&str, &str)]) -> Result<Reply, String> {
		for attempt in 0..2 {
			if self.stream.is_none() {
				self.reconnect()?;
			}
			let mut req = format!("GET {target} HTTP/1.1\r\nHost: 127.0.0.1:{}\r\n", self.port);
			for (k, v) in headers {
				req.push_str(&format!("{k}: {v}\r\n"));
			}
			req.push_str("\r\n");
			let fresh = self.buf.is_empty();
			if self.stream.as_mut().unwrap().write_all(req.as_bytes()).is_err() {
				self.stream = None;
				if attempt == 0 {
					continue; // stale keep-alive connection
				}
				return Ok(Reply::Dropped("write failed".into()));
			}
			match self.read_response() {
				Ok(r) => {
					if r.header("connection").is_some_and(|c| c.eq_ignore_ascii_case("close")) {
						self.stream = None;
					}
					return Ok(Reply::Response(r));
				}
				Err(e) => {
					let got_nothing = self.buf.is_empty();
					self.stream = None;
					self.buf.clear();
					// a keep-alive connection the server closed while idle: retry once on a new one
					if attempt == 0 && got_nothing && !fresh {
						continue;
					}
					if attempt == 0 && got_nothing && e.contains("eof") {
						// could be an idle close; confirm on a brand-new connection
						continue;
					}
					return Ok(Reply::Dropped(e));
				}
			}
		}
		Ok(Reply::Dropped("no response on a fresh connection".into()))
	}
	fn read_response(&mut self) -> Result<Response, String> {
		// head
		let head_end = loop {
			if let Some(p) = self.buf.windows(4).position(|w| w == b"\r\n\r\n") {
				break p;
			}
			if self.fill()? == 0 {
				return Err("eof before a complete response head".into());
			}
		};
		let head = String::from_utf8_lossy(&self.buf[..head_end]).to_string();
		let mut lines = head.split("\r\n");
		let status_line = lines.next().unwrap_or("");
		let status: u16 = status_line.split(' ').nth(1).and_then(|s| s.parse().ok()).ok_or_else(|| format!("bad status line {status_line:?}"))?;
		let headers: Vec<(String, String)> = lines.filter_map(|l| l.split_once(':').map(|(k, v)| (k.trim().to_string(), v.trim().to_string()))).collect();
		self.buf.drain(..head_end + 4);
		let get = |n: &str| headers.iter().find(|h| h.0.eq_ignore_ascii_case(n)).map(|h| h.1.clone());
		let mut body = vec![];
		if get("transfer-encoding").is_some_and(|t| t.to_ascii_lowercase().contains("chunked")) {
			loop {
				let line_end = loop {
					if let Some(p) = self.buf.windows(2).position(|w| w == b"\r\n") {
						break p;
					}
					if self.fill()? == 0 {
						return Err("eof inside chunked body".into());
					}
				};
				let size = usize::from_str_radix(String::from_utf8_lossy(&self.buf[..line_end]).split(';').next().unwrap_or("").trim(), 16).map_err(|e| e.to_string())?;
				self.buf.drain(..line_end + 2);
				while self.buf.len() < size + 2 {
					if self.fill()? == 0 {
						return Err("eof inside chunk".into());
					}
				}
				body.extend_from_slice(&self.buf[..size]);
				self.buf.drain(..size + 2);
				if size == 0 {
					break;
				}
			}
		} else if let Some(cl) = get("content-length") {
			let n: usize = cl.parse().map_err(|_| "bad content-length")?;
			while self.buf.len() < n {
				if self.fill()? == 0 {
					return Err("eof inside body".into());
				}
			}
			body.extend_from_slice(&self.buf[..n]);
			self.buf.drain(..n);
		}
		Ok(Response { status, headers, body })
	}
}

fn decode_body(r: &Response) -> Result<Vec<u8>, String> {
	match r.header("content-encoding").map(|s| s.to_ascii_lowercase()) {
		None => Ok(r.body.clone()),
		Some(e) if e == "identity" => Ok(r.body.clone()),
		Some(e) if e == "gzip" => codec::gunzip(&r.body),
		Some(e) if e == "br" => codec::brotli_dec(&r.body),
		Some(e) => Err(format!("unknown content-encoding {e}")),
	}
}

fn write_container(rt: &tokio::runtime::Runtime, cont: Cont, dir: &Path, name: &str, src: &mut MemSource) -> Result<String, String> {
	let file = format!("{name}.{}", ct::ext(cont));
	match ct::write(rt, cont, src, dir, name)? {
		ct::Written::Bytes(b) => std::fs::write(dir.join(&file), b).map_err(|e| e.to_string())?,
		ct::Written::Path(_) => {}
	}
	Ok(file)
}

// ---------------------------------------------------------------------------------------------
// a minimal HTTP range server (the upstream of a remote container) that can answer one chosen request with 503

pub struct Upstream {
	pub port: u16,
	/// index (in arrival order) of the request to answer with 503; negative = none
	pub fail_at: Arc<std::sync::atomic::AtomicI64>,
	pub served: Arc<std::sync::atomic::AtomicU64>,
}

impl Upstream {
	pub fn start(data: Vec<u8>) -> Upstream {
		use std::sync::atomic::{AtomicI64, AtomicU64, Ordering};
		let listener = std::net::TcpListener::bind("127.0.0.1:0").expect("bind upstream");
		let port = listener.local_addr().unwrap().port();
		let fail_at = Arc::new(AtomicI64::new(-1));
		let served = Arc::new(AtomicU64::new(0));
		let data = Arc::new(data);
		let (fa, sv) = (fail_at.clone(), served.clone());
		std::thread::spawn(move || {
			for conn in listener.incoming() {
				let Ok(mut c) = conn else { continue };
				let (data, fa, sv) = (data.clone(), fa.clone(), sv.clone());
				std::thread::spawn(move || {
					let mut buf: Vec<u8> = vec![];
					loop {
						// read one request head
						let head_end = loop {
							if let Some(p) = buf.windows(4).position(|w| w == b"\r\n\r\n") {
								break Some(p + 4);
							}
							let mut tmp = [0u8; 4096];
							match c.read(&mut tmp) {
								Ok(0) | Err(_) => break None,
								Ok(n) => buf.extend_from_slice(&tmp[..n]),
							}
						};
						let Some(he) = head_end else { return };
						let head = String::from_utf8_lossy(&buf[..he]).to_string();
						buf.drain(..he);
						let idx = sv.fetch_add(1, Ordering::SeqCst) as i64;
						let range = head.lines().find_map(|l| l.to_ascii_lowercase().strip_prefix("range: bytes=").map(|r| r.trim().to_string()));
						let resp: Vec<u8> = if idx == fa.load(Ordering::SeqCst) {
							b"HTTP/1.1 503 Service Unavailable\r\nContent-Length: 0\r\n\r\n".to_vec()
						} else if let Some((a, b)) = range.as_deref().and_then(|r| r.split_once('-')).and_then(|(a, b)| Some((a.parse::<usize>().ok()?, b.parse::<usize>().ok()?))) {
							if a <= b && b < data.len() {
								let mut r = format!("HTTP/1.1 206 Partial Content\r\nContent-Range: bytes {a}-{b}/{}\r\nContent-Length: {}\r\nAccept-Ranges: bytes\r\n\r\n", data.len(), b - a + 1).into_bytes();
								r.extend_from_slice(&data[a..=b]);
								r
							} else {
								b"HTTP/1.1 416 Range Not Satisfiable\r\nContent-Length: 0\r\n\r\n".to_vec()
							}
						} else {
							let mut r = format!("HTTP/1.1 200 OK\r\nContent-Length: {}\r\nAccept-Ranges: bytes\r\n\r\n", data.len()).into_bytes();
							r.extend_from_slice(&data);
							r
						};
						if c.write_all(&resp).is_err() {
							return;
						}
					}
				});
			}
		});
		Upstream { port, fail_at, served }
	}
}

/// Sources whose ids contain characters that mean something to the router: requests for *other*, non-existent
/// sources and for coordinates without tile must still get a complete 404 / 400, the ordinary source its tiles.

/// A pipeline file that merges two vector-tile sources of different stored compressions, served as a tile source:
/// for coordinates held by the first member only, by both, and by the second only, the served body - decoded by
/// its Content-Encoding - is a vector tile whose decoded content is the merge of the members' tiles (decoded by
/// the independent MVT reader), with the media type of vector tiles.
fn c05_merged(ctx: &Arc<Ctx>, work: &Path) {
	use super::c10::{catalogue, compare_layers, reference_merge};
	let cat = catalogue();
	let (ta, tb) = (crate::mvt::encode_tile(&cat[0].1), crate::mvt::encode_tile(&cat[1].1));
	let (da, db) = (crate::mvt::decode_tile(&ta).unwrap(), crate::mvt::decode_tile(&tb).unwrap());
	let keys: [(Key, bool, bool); 4] = [((3, 1, 2), true, false), ((3, 2, 2), true, true), ((3, 3, 2), false, true), ((9, 255, 256), true, true)];
	for (name, comp, suffix, which) in [("mg_a", 1u8, ".gz", 0usize), ("mg_b", 2u8, ".br", 1usize)] {
		let files: Vec<(String, Vec<u8>)> = keys.iter().filter(|k| if which == 0 { k.1 } else { k.2 }).map(|k| (format!("{}/{}/{}.pbf{suffix}", k.0 .0, k.0 .1, k.0 .2), codec::encode_with(comp, if which == 0 { &ta } else { &tb }))).collect();
		codec::dir_write(&work.join(name), &files).unwrap();
	}
	std::fs::write(work.join("merged.vpl"), "from_vectortiles_merged [ from_container filename=\"mg_a\", from_container filename=\"mg_b\" ]").unwrap();
	for mode in ["best", "fast"] {
		let mut args: Vec<String> = vec!["[merged]merged.vpl".into()];
		if mode == "fast" {
			args.push("--fast".into());
		}
		let server = match Server::start(work, &args, &format!("c05-merged-{mode}")) {
			Ok(s) => s,
			Err(e) => {
				ctx.violation("a pipeline file merging two vector tile sources cannot be added to the server", &format!("versatiles serve {args:?}: {}", e.chars().take(300).collect::<String>()), json!({"mode": mode, "source": "merged.vpl"}));
				return;
			}
		};
		let mut cl = Client::connect(server.port).expect("connect");
		for round in 0..2 {
			for (k, in_a, in_b) in keys {
				for ae in [None, Some("gzip"), Some("br"), Some("identity"), Some("br, gzip"), Some("zstd")] {
					ctx.eval();
					ctx.transition(1);
					let target = format!("/tiles/merged/{}/{}/{}", k.0, k.1, k.2);
					let case = json!({"mode": mode, "source": "merged.vpl", "target": target, "accept_encoding": ae, "round": round});
					let hdrs: Vec<(&str, &str)> = ae.map(|v| vec![("Accept-Encoding", v)]).unwrap_or_default();
					match cl.request(&target, &hdrs).unwrap_or_else(|e| Reply::Dropped(e)) {
						Reply::Dropped(why) => {
							ctx.violation("tile request is answered by a dropped connection (merged pipeline source)", &format!("{mode} GET {target}: {why}"), case);
							cl = Client::connect(server.port).expect("connect");
						}
						Reply::Response(r) => {
							if r.status != 200 {
								ctx.violation("stored tile is not served with status 200", &format!("{mode} GET {target} (merged pipeline source): status {}", r.status), case);
								continue;
							}
							if r.header("content-type").map(|v| v.to_ascii_lowercase()) != Some("application/x-protobuf".into()) {
								ctx.violation("Content-Type is not the tile format's media type", &format!("{mode} GET {target}: {:?}", r.header("content-type")), case.clone());
							}
							if let Some(ce) = r.header("content-encoding") {
								let listed = ae.map(|a| a.to_ascii_lowercase().contains(&ce.to_ascii_lowercase())).unwrap_or(false);
								if !listed && !ce.eq_ignore_ascii_case("identity") {
									ctx.violation("Content-Encoding is an encoding the client did not list", &format!("{mode} GET {target} AE={ae:?}: content-encoding {ce}"), case.clone());
								}
							}
							let want = reference_merge(&[in_a.then(|| da.clone()), in_b.then(|| db.clone())].into_iter().flatten().collect::<Vec<_>>());
							match decode_body(&r).map_err(|e| e.to_string()).and_then(|b| crate::mvt::decode_tile(&b)) {
								Err(e) => ctx.violation("served body, decoded by Content-Encoding, differs from the stored tile", &format!("{mode} GET {target} AE={ae:?} (merged pipeline source): the body is no vector tile: {e}"), case),
								Ok(layers) => {
									if let Some(why) = compare_layers(&layers, &want) {
										ctx.violation("served body, decoded by Content-Encoding, differs from the stored tile", &format!("{mode} GET {target} AE={ae:?} (merged pipeline source): {why}"), case);
									}
								}
							}
						}
					}
				}
			}
		}
	}
	ctx.outcome_n("merged pipeline source: requests", 2 * 2 * 4 * 6);
}

fn c05_odd_ids(ctx: &Arc<Ctx>, work: &Path, rt: &tokio::runtime::Runtime) {
	let stored: Vec<Key> = vec![(3, 1, 2), (3, 2, 5)];
	let tiles: TileMap = stored.iter().map(|k| (*k, content_of(*k))).collect();
	let mut src = MemSource::new("m", tiles, TileFormat::PNG, TileCompression::Uncompressed);
	let file = match write_container(rt, Cont::Versatiles, work, "oddid", &mut src) {
		Ok(f) => f,
		Err(e) => {
			eprintln!("MACHINERY: cannot write the odd-id container: {e}");
			std::process::exit(2);
		}
	};
	for (gi, ids) in [vec!["plain", "berlin{2024}", "{region}"], vec!["plain", "x:y", "*"], vec!["plain", "{*rest}"], vec!["plain", "a{b", "c}d"]].into_iter().enumerate() {
	let args: Vec<String> = ids.iter().map(|id| format!("[{id}]{file}")).collect();
	let server = match Server::start(work, &args, &format!("c05oddids{gi}")) {
		Ok(s) => s,
		Err(e) => {
			// a server that refuses such ids at start-up serves nothing wrongly
			ctx.outcome(&format!("sources with ids {ids:?}: server does not start ({})", e.chars().take(60).collect::<String>()));
			continue;
		}
	};
	let mut cl = Client::connect(server.port).expect("connect");
	let mut n = 0u64;
	for round in 0..2 {
		for (target, want) in [
			("/tiles/plain/3/1/2", Some(200u16)),
			("/tiles/plain/3/2/5", Some(200)),
			("/tiles/plain/3/9/9", Some(404)),
			("/tiles/nosuchsource/3/1/2", Some(404)),
			("/tiles/nosuchsource/3/9/9", Some(404)),
			("/tiles/nosuchsource/x/y/z", None),
			("/tiles/berlin2023/3/1/2", Some(404)),
			("/tiles/berlin/3/1/2", Some(404)),
			("/tiles/region/3/1/2", Some(404)),
			("/tiles/ab/3/1/2", Some(404)),
			("/tiles/rest/3/1/2", Some(404)),
			// the ids themselves, raw and percent-encoded: any complete response
			("/tiles/berlin{2024}/3/1/2", None),
			("/tiles/berlin%7B2024%7D/3/1/2", None),
			("/tiles/%7Bregion%7D/3/1/2", None),
			("/tiles/{region}/3/1/2", None),
			("/tiles/x:y/3/1/2", None),
			("/tiles/*/3/1/2", None),
		] {
			ctx.eval();
			ctx.transition(1);
			n += 1;
			let case = json!({"mode": "ids with router syntax", "ids": ids, "target": target, "round": round});
			match cl.request(target, &[]).unwrap_or_else(Reply::Dropped) {
				Reply::Dropped(why) => {
					ctx.violation("tile request is answered by a dropped connection (sources whose ids contain router syntax)", &format!("GET {target}: {why}"), case);
					cl = Client::connect(server.port).expect("connect");
				}
				Reply::Response(r) => {
					if let Some(w) = want {
						if r.status != w && !(w == 404 && r.status == 400) {
							ctx.violation(&format!("request next to sources whose ids contain router syntax is answered with status {} instead of {w}", r.status), &format!("GET {target}"), case);
						} else if w == 200 && decode_body(&r).ok().as_deref() != Some(&content_of(if target.ends_with("1/2") { (3, 1, 2) } else { (3, 2, 5) })[..]) {
							ctx.violation("served body differs from the stored tile (sources whose ids contain router syntax)", &format!("GET {target}"), case);
						}
					}
				}
			}
		}
	}
	drop(server);
	ctx.outcome_n(&format!("requests next to sources with ids {ids:?}"), n);
	}
}

/// C05 over a remote container: for every position k of one upstream request (after start-up) that is answered
/// with 503, the server - once the upstream is healthy again - must serve every stored tile.
fn c05_remote(ctx: &Arc<Ctx>, work: &Path, rt: &tokio::runtime::Runtime) {
	// a remote .versatiles and a remote .pmtiles file (the latter without leaf directories: its leaf section is empty)
	c05_remote_cont(ctx, work, rt, Cont::Versatiles);
	c05_remote_cont(ctx, work, rt, Cont::Pmtiles);
}

fn c05_remote_cont(ctx: &Arc<Ctx>, work: &Path, rt: &tokio::runtime::Runtime, cont: Cont) {
	use std::sync::atomic::Ordering;
	let stored: Vec<Key> = vec![(0, 0, 0), (3, 1, 2), (3, 7, 7), (9, 255, 256), (9, 300, 300), (14, 8800, 5370)];
	let tiles: TileMap = stored.iter().map(|k| (*k, codec::encode_with(1, &content_of(*k)))).collect();
	let mut src = MemSource::new("m", tiles, TileFormat::PBF, TileCompression::Gzip);
	let file = match write_container(rt, cont, work, "remote", &mut src) {
		Ok(f) => f,
		Err(e) => {
			eprintln!("MACHINERY: cannot write the remote container: {e}");
			std::process::exit(2);
		}
	};
	let up = Upstream::start(std::fs::read(work.join(&file)).unwrap());
	let arg = format!("[rem]http://127.0.0.1:{}/{file}", up.port);
	let script = |cl: &mut Client, judge: bool, k: i64| {
		for key in stored.iter().chain([(9u8, 1u32, 1u32)].iter()) {
			let target = format!("/tiles/rem/{}/{}/{}", key.0, key.1, key.2);
			let reply = cl.request(&target, &[("Accept-Encoding", "gzip")]).unwrap_or_else(Reply::Dropped);
			if !judge {
				continue;
			}
			ctx.eval();
			ctx.transition(1);
			let case = json!({"mode": "remote upstream", "fault_at_upstream_request": k, "target": target});
			let held = stored.contains(key);
			match reply {
				Reply::Dropped(why) => ctx.violation("tile request is answered by a dropped connection (remote versatiles, after a transient upstream fault)", &format!("fault at upstream request {k}: GET {target}: {why}"), case),
				Reply::Response(r) => {
					if held {
						if r.status != 200 {
							ctx.violation("stored tile is not served with status 200 after a transient upstream fault", &format!("one 503 from the upstream at its request #{k}; afterwards GET {target}: status {}", r.status), case);
						} else if decode_body(&r).ok().as_deref() != Some(&content_of(*key)[..]) {
							ctx.violation("served body, decoded by Content-Encoding, differs from the stored tile after a transient upstream fault", &format!("fault at upstream request {k}: GET {target}"), case);
						}
					} else if r.status != 404 {
						ctx.violation(&format!("request for a coordinate without tile is answered with status {}", r.status), &format!("remote source, fault at upstream request {k}: GET {target}"), case);
					}
				}
			}
		}
	};
	// fault-free run: how many upstream requests does start-up take, how many the script?
	up.fail_at.store(-1, Ordering::SeqCst);
	up.served.store(0, Ordering::SeqCst);
	let (n0, n) = match Server::start(work, &[arg.clone()], &format!("c05remote{}", cont.name())) {
		Ok(server) => {
			let n0 = up.served.load(Ordering::SeqCst);
			let mut cl = Client::connect(server.port).expect("connect");
			script(&mut cl, true, -1);
			let n = up.served.load(Ordering::SeqCst);
			drop(server);
			(n0, n)
		}
		Err(e) => {
			// the same file is a valid local source, and the upstream answers range requests as web servers do
			ctx.violation(&format!("a remote {} source cannot be added to the server", cont.name()), &format!("versatiles serve {arg}: {}", e.chars().take(300).collect::<String>()), json!({"mode": "remote upstream", "cont": cont}));
			return;
		}
	};
	let mut explored = 0u64;
	for k in n0..n {
		up.served.store(0, Ordering::SeqCst);
		up.fail_at.store(k as i64, Ordering::SeqCst);
		let Ok(server) = Server::start(work, &[arg.clone()], &format!("c05remote{}{k}", cont.name())) else { continue };
		let mut cl = Client::connect(server.port).expect("connect");
		script(&mut cl, false, k as i64); // the run that meets the fault: not judged
		if up.served.load(Ordering::SeqCst) <= k {
			ctx.outcome("remote source: the faulty position was not reached (fewer upstream requests than in the fault-free run)");
		}
		script(&mut cl, true, k as i64); // upstream healthy again
		drop(server);
		explored += 1;
		ctx.nontrivial(fnv_str(&format!("remote-fault-{k}")));
	}
	ctx.extra(&format!("remote_upstream_{}", cont.name()), json!({"upstream_requests_at_startup": n0, "upstream_requests_of_the_script": n - n0, "fault_positions_explored": explored}));
	ctx.state(explored);
}

// ---------------------------------------------------------------------------------------------
// C05

/// the one coordinate at which the directory and tar sources hold a zero-length tile
const EMPTY_TILE: Key = (3, 5, 5);

/// tiles of 1 MiB, 4 MiB + 1 and 5 MiB (held by the source `vbig`)
const BIG_TILES: [(Key, usize); 3] = [((6, 1, 1), 1 << 20), ((6, 2, 1), (4 << 20) + 1), ((6, 3, 1), 5 << 20)];
/// three tiles of 20 KiB that agree in their first and last 6 KiB (held by the source `vnear`)
const NEAR_TILES: [Key; 3] = [(7, 1, 1), (7, 2, 1), (7, 3, 1)];

fn content_of(k: Key) -> Vec<u8> {
	if k == EMPTY_TILE {
		return vec![];
	}
	if let Some((_, len)) = BIG_TILES.iter().find(|b| b.0 == k) {
		let tag = format!("big tile {}/{}/{} ", k.0, k.1, k.2).into_bytes();
		return (0..*len).map(|i| tag[i % tag.len()]).collect();
	}
	if NEAR_TILES.contains(&k) {
		let mut v: Vec<u8> = (0..20 * 1024).map(|i| b"shared head and tail of three near-duplicate tiles. "[i % 52]).collect();
		let mid = format!("<<< the middle of tile {}/{}/{} >>>", k.0, k.1, k.2).into_bytes();
		v[10_000..10_000 + mid.len()].copy_from_slice(&mid);
		return v;
	}
	let mut v = format!("tile content {}/{}/{} ", k.0, k.1, k.2).into_bytes();
	let base = v.clone();
	for _ in 0..20 {
		v.extend_from_slice(&base);
	}
	v
}

struct TileSrc {
	id: String,
	format: TileFormat,
	tiles: Vec<Key>,
	kind: &'static str,
}

pub fn c05(ctx: Arc<Ctx>) {
	ctx.rule(
		"real `versatiles serve` binary (best and --fast) with 34 sources (versatiles x 3 stored compressions x {pbf,png}, every other tile format as a versatiles file and as a directory with the format's file extension ('.jpeg' too) and compression suffix, two pipeline files overlaying sources of different stored compressions, mbtiles, pmtiles, two PMTiles archives with leaf directories (2 and 3 entries per leaf) from the independent encoder, a directory and a tar source that also hold a zero-length tile, sources with tiles of 1 MiB / 4 MiB + 1 / 5 MiB stored gzip and brotli, sources with three 20 KiB tiles that agree in head and tail); a versatiles container served from an http upstream that answers exactly one request with 503, for every position of that request after start-up (afterwards every stored tile must be served again); requests: Accept-Encoding absent + all 32 subsets of {gzip,br,deflate,identity,zstd} + all 20 ordered pairs, x case {lower,UPPER,Mixed} x weights {none,;q=1,;q=0.5} on a stored and an absent coordinate (thorough: every ordered arrangement of every subset = 326 lists x 3 cases x weights {none,;q=1,;q=0.5,;q=0.001,; q=1.0,mixed per token} x separators {', ', ',', ' ,<tab>'}); \
		 coordinate classes (stored, absent in range, x or y = 2^z, 2^32-1, z stored/absent/31/32/255/256, non-numeric parts, empty parts) x extension {none,.png,.pbf,.x} with 3 Accept-Encoding values; every request twice (cold/warm). raw HTTP/1.1 client over keep-alive connections. \
		 non-trivial = distinct 200 responses whose Content-Encoding differs from the stored compression",
	);
	let work = ct::WorkDir::new("c05");
	let rt = crate::memsource::runtime(2);
	let stored: Vec<Key> = vec![(0, 0, 0), (3, 1, 2), (3, 7, 7), (9, 255, 256), (14, 8800, 5370), (30, 5, (1 << 30) - 2), (31, (1u32 << 31) - 1, 6)];
	let mut srcs: Vec<TileSrc> = vec![];
	let mut args: Vec<String> = vec![];
	let add = |id: &str, cont: Cont, format: TileFormat, comp: u8, srcs: &mut Vec<TileSrc>, args: &mut Vec<String>| {
		let tiles: TileMap = stored.iter().map(|k| (*k, codec::encode_with(comp, &content_of(*k)))).collect();
		let mut src = MemSource::new("m", tiles, format, ct::comp_from_id(comp)).with_tilejson(TileJSON::try_from(r#"{"tilejson":"3.0.0","name":"n","vector_layers":[{"id":"a","fields":{}}]}"#).unwrap());
		match write_container(&rt, cont, &work.0, id, &mut src) {
			Ok(file) => {
				args.push(format!("[{id}]{file}"));
				srcs.push(TileSrc { id: id.to_string(), format, tiles: stored.clone(), kind: cont.name() });
			}
			Err(e) => {
				eprintln!("MACHINERY: cannot write {id}: {e}");
				std::process::exit(2);
			}
		}
	};
	for comp in 0..3u8 {
		add(&format!("vpbf{comp}"), Cont::Versatiles, TileFormat::PBF, comp, &mut srcs, &mut args);
		add(&format!("vpng{comp}"), Cont::Versatiles, TileFormat::PNG, comp, &mut srcs, &mut args);
	}
	add("mb", Cont::Mbtiles, TileFormat::PBF, 1, &mut srcs, &mut args);
	add("pm", Cont::Pmtiles, TileFormat::PNG, 0, &mut srcs, &mut args);
	// a PMTiles archive with leaf directories (other writers use them from a few thousand tiles on): independent encoder
	{
		let tiles: TileMap = stored.iter().map(|k| (*k, content_of(*k))).collect();
		for leaf_size in [2usize, 3] {
			let l = codec::PmLayout { internal_gzip: true, run_lengths: false, share_offsets: false, leaf_levels: 1, leaf_size, clustered: true, data_reversed: false };
			let id = format!("pmleaf{leaf_size}");
			std::fs::write(work.0.join(format!("{id}.pmtiles")), codec::pm_encode(&tiles, 2, 1, br#"{"name":"n"}"#, l)).unwrap();
			args.push(format!("[{id}]{id}.pmtiles"));
			srcs.push(TileSrc { id, format: TileFormat::PNG, tiles: stored.clone(), kind: "pmtiles" });
		}
	}
	// a directory and a tar source that also hold a zero-length tile (a source holds it: lookups return it)
	{
		let mut with_empty = stored.clone();
		with_empty.push(EMPTY_TILE);
		let files: Vec<(String, Vec<u8>)> = with_empty.iter().map(|k| (format!("{}/{}/{}.png", k.0, k.1, k.2), content_of(*k))).collect();
		codec::dir_write(&work.0.join("dirsrc"), &files).unwrap();
		std::fs::write(work.0.join("tarsrc.tar"), codec::tar_write(&files, codec::TarLayout { dot_prefix: false, dir_entries: false, gnu: false, reversed: false, meta_last: false })).unwrap();
		args.push("[dirsrc]dirsrc".into());
		args.push("[tarsrc]tarsrc.tar".into());
		srcs.push(TileSrc { id: "dirsrc".into(), format: TileFormat::PNG, tiles: with_empty.clone(), kind: "directory" });
		srcs.push(TileSrc { id: "tarsrc".into(), format: TileFormat::PNG, tiles: with_empty, kind: "tar" });
	}
	// every other tile format: a versatiles file (stored compressions in rotation) and a directory whose files carry the
	// format's extension (".jpeg" as the second spelling of jpg) plus the compression suffix of the directory layout
	{
		let others: [(TileFormat, &str); 9] = [(TileFormat::AVIF, "avif"), (TileFormat::BIN, "bin"), (TileFormat::GEOJSON, "geojson"), (TileFormat::JPG, "jpg"), (TileFormat::JPG, "jpeg"), (TileFormat::JSON, "json"), (TileFormat::SVG, "svg"), (TileFormat::TOPOJSON, "topojson"), (TileFormat::WEBP, "webp")];
		for (i, (format, ext)) in others.iter().enumerate() {
			let comp = (i % 3) as u8;
			if *ext != "jpeg" {
				add(&format!("f{ext}{comp}"), Cont::Versatiles, *format, comp, &mut srcs, &mut args);
			}
			let dcomp = ((i + 1) % 3) as u8;
			let suffix = ["", ".gz", ".br"][dcomp as usize];
			let files: Vec<(String, Vec<u8>)> = stored.iter().map(|k| (format!("{}/{}/{}.{ext}{suffix}", k.0, k.1, k.2), codec::encode_with(dcomp, &content_of(*k)))).collect();
			let id = format!("d{ext}{dcomp}");
			codec::dir_write(&work.0.join(&id), &files).unwrap();
			args.push(format!("[{id}]{id}"));
			srcs.push(TileSrc { id, format: *format, tiles: stored.clone(), kind: "directory" });
		}
	}
	// a pipeline file as tile source: an overlay of two directories with different stored compressions, the second one
	// holding tiles the first one lacks (the served tile may come from either member)
	{
		let first: Vec<Key> = vec![stored[0], stored[1]];
		for (name, keys, comp, suffix) in [("ov_a", &first, 0u8, ""), ("ov_b", &stored, 1u8, ".gz")] {
			let files: Vec<(String, Vec<u8>)> = keys.iter().map(|k| (format!("{}/{}/{}.pbf{suffix}", k.0, k.1, k.2), codec::encode_with(comp, &content_of(*k)))).collect();
			codec::dir_write(&work.0.join(name), &files).unwrap();
		}
		std::fs::write(work.0.join("overlay.vpl"), "from_overlayed [ from_container filename=\"ov_a\", from_container filename=\"ov_b\" ]").unwrap();
		args.push("[overlay]overlay.vpl".into());
		srcs.push(TileSrc { id: "overlay".into(), format: TileFormat::PBF, tiles: stored.clone(), kind: "pipeline file" });
		std::fs::write(work.0.join("overlay2.vpl"), "from_overlayed [ from_container filename=\"ov_b\", from_container filename=\"vpbf2.versatiles\" ]").unwrap();
		args.push("[overlay2]overlay2.vpl".into());
		srcs.push(TileSrc { id: "overlay2".into(), format: TileFormat::PBF, tiles: stored.clone(), kind: "pipeline file" });
	}
	// big tiles (gzip and brotli stored) and near-duplicate tiles (uncompressed stored: the server compresses them itself)
	for (id, keys, comp) in [("vbig", BIG_TILES.iter().map(|b| b.0).collect::<Vec<Key>>(), 1u8), ("vbigbr", vec![BIG_TILES[1].0], 2), ("vnear", NEAR_TILES.to_vec(), 0), ("vneargz", NEAR_TILES.to_vec(), 1)] {
		let tiles: TileMap = keys.iter().map(|k| (*k, codec::encode_with(comp, &content_of(*k)))).collect();
		let mut src = MemSource::new("m", tiles, TileFormat::PBF, ct::comp_from_id(comp));
		match write_container(&rt, Cont::Versatiles, &work.0, id, &mut src) {
			Ok(file) => {
				args.push(format!("[{id}]{file}"));
				srcs.push(TileSrc { id: id.to_string(), format: TileFormat::PBF, tiles: keys.clone(), kind: "versatiles" });
			}
			Err(e) => {
				eprintln!("MACHINERY: cannot write {id}: {e}");
				std::process::exit(2);
			}
		}
	}
	// a source whose tiles are gzip data but which is labelled uncompressed: served with --override-input-compression gzip
	let ovr_file = {
		let tiles: TileMap = stored.iter().map(|k| (*k, codec::encode_with(1, &content_of(*k)))).collect();
		let mut src = MemSource::new("m", tiles, TileFormat::PBF, TileCompression::Uncompressed);
		write_container(&rt, Cont::Versatiles, &work.0, "ovr", &mut src).expect("ovr file")
	};
	let ovr_src = TileSrc { id: "ovr".into(), format: TileFormat::PBF, tiles: stored.clone(), kind: "versatiles" };
	let stored_comp = |id: &str| -> u8 {
		if id.starts_with("vp") {
			id[4..].parse().unwrap()
		} else if (id.starts_with('f') || (id.starts_with('d') && id != "dirsrc")) && id.ends_with(|c: char| c.is_ascii_digit()) {
			id[id.len() - 1..].parse().unwrap()
		} else if id == "mb" || id == "ovr" || id == "vbig" || id == "vneargz" {
			1
		} else if id == "vbigbr" {
			2
		} else {
			0
		}
	};
	// Accept-Encoding values
	let toks = ["gzip", "br", "deflate", "identity", "zstd"];
	let mut aes: Vec<Option<Vec<&str>>> = vec![None];
	for mask in 0..32u32 {
		aes.push(Some((0..5).filter(|i| mask >> i & 1 == 1).map(|i| toks[i]).collect()));
	}
	for a in 0..5 {
		for b in 0..5 {
			if a != b && a > b {
				aes.push(Some(vec![toks[a], toks[b]]));
			}
		}
	}
	if ctx.tier == Tier::Thorough {
		// every ordered arrangement of every subset (326 lists instead of 33 subsets + 10 reversed pairs)
		fn perms<'a>(rest: &[&'a str], cur: &mut Vec<&'a str>, out: &mut Vec<Option<Vec<&'a str>>>) {
			if cur.len() >= 2 {
				out.push(Some(cur.clone()));
			}
			for i in 0..rest.len() {
				let mut r = rest.to_vec();
				let t = r.remove(i);
				cur.push(t);
				perms(&r, cur, out);
				cur.pop();
			}
		}
		perms(&toks, &mut vec![], &mut aes);
		aes.sort();
		aes.dedup();
	}
	let n_weights: u8 = ctx.tier.pick(3, 6);
	let n_seps: u8 = ctx.tier.pick(1, 3);
	let render_ae = |t: &[&str], case: u8, weight: u8, sep: u8| -> String {
		t.iter()
			.enumerate()
			.map(|(ti, s)| {
				let weight = if weight == 5 { [1u8, 2, 3, 0, 4][ti % 5] } else { weight };
				let s = match case {
					1 => s.to_uppercase(),
					2 => s.chars().enumerate().map(|(i, c)| if i % 2 == 0 { c.to_ascii_uppercase() } else { c }).collect(),
					_ => s.to_string(),
				};
				match weight {
					1 => format!("{s};q=1"),
					2 => format!("{s};q=0.5"),
					3 => format!("{s};q=0.001"),
					4 => format!("{s}; q=1.0"),
					_ => s,
				}
			})
			.collect::<Vec<_>>()
			.join([", ", ",", " ,\t"][sep as usize])
	};
	let ov = |v: &[&str]| -> Vec<String> { ["--override-input-compression", "gzip"].iter().chain(v.iter()).map(|s| s.to_string()).collect() };
	for (mode, extra) in [("best", vec![]), ("fast", vec!["--fast".to_string()]), ("flip-y", vec!["--flip-y".to_string()]), ("swap-xy", vec!["--swap-xy".to_string()]), ("flip-y swap-xy", vec!["--flip-y".to_string(), "--swap-xy".to_string()]), ("override", ov(&[])), ("override flip-y", ov(&["--flip-y"])), ("override swap-xy fast", ov(&["--swap-xy", "--fast"]))] {
		let is_override = mode.starts_with("override");
		// where a stored tile is served: flip maps y -> 2^z-1-y, swap exchanges x and y
		let tf = move |k: Key| -> String {
			match mode {
				"flip-y" | "override flip-y" => format!("{}/{}/{}", k.0, k.1, ((1u64 << k.0) - 1 - k.2 as u64)),
				"swap-xy" | "override swap-xy fast" => format!("{}/{}/{}", k.0, k.2, k.1),
				// flip applied first, then swap: the tile stored at (x, y) is served at (2^z-1-y, x)
				"flip-y swap-xy" => format!("{}/{}/{}", k.0, ((1u64 << k.0) - 1 - k.2 as u64), k.1),
				_ => format!("{}/{}/{}", k.0, k.1, k.2),
			}
		};
		let mut a = if is_override { vec![format!("[ovr]{ovr_file}")] } else { args.clone() };
		a.extend(extra);
		let mut server = match Server::start(&work.0, &a, &format!("c05{mode}")) {
			Ok(s) => s,
			Err(e) => {
				eprintln!("MACHINERY: {e}");
				std::process::exit(2);
			}
		};
		let port = server.port;
		let ctxr: &Ctx = &ctx;
		let only_ovr = [TileSrc { id: ovr_src.id.clone(), format: ovr_src.format, tiles: ovr_src.tiles.clone(), kind: ovr_src.kind }];
		let (sr, aer): (&[TileSrc], _) = (if is_override { &only_ovr[..] } else { &srcs[..] }, &aes);
		par_for(sr.len(), |si| {
			let s = &sr[si];
			let mut cl = Client::connect(port).expect("connect");
			// media types as registered with IANA (pbf: the de-facto type of Mapbox vector tiles served by this project)
			let mime = match s.format {
				TileFormat::PBF => "application/x-protobuf",
				TileFormat::PNG => "image/png",
				TileFormat::AVIF => "image/avif",
				TileFormat::BIN => "application/octet-stream",
				TileFormat::GEOJSON => "application/geo+json",
				TileFormat::JPG => "image/jpeg",
				TileFormat::JSON => "application/json",
				TileFormat::SVG => "image/svg+xml",
				TileFormat::TOPOJSON => "application/topo+json",
				TileFormat::WEBP => "image/webp",
			};
			let sc = stored_comp(&s.id);
			let mut judge = |target: &str, ae: Option<String>, expect: Option<Key>, numeric_ok: bool, may_400_or_404: bool| {
				for round in 0..2 {
					ctxr.eval();
					ctxr.transition(1);
					let hdrs: Vec<(&str, &str)> = ae.as_deref().map(|v| vec![("Accept-Encoding", v)]).unwrap_or_default();
					let case = json!({"mode": mode, "source": s.id, "container": s.kind, "target": target, "accept_encoding": ae, "round": round});
					let reply = cl.request(target, &hdrs).unwrap_or_else(|e| Reply::Dropped(e));
					match reply {
						Reply::Dropped(why) => {
							let class = if target.contains("//") || target.ends_with(&format!("/tiles/{}/", s.id)) { "empty path part" } else if expect.is_none() { "coordinate outside the level or absent" } else { "stored coordinate" };
							ctxr.violation(&format!("tile request is answered by a dropped connection ({}, {class})", s.kind), &format!("{mode} GET {target} AE={ae:?}: {why}"), case);
						}
						Reply::Response(r) => match expect {
							Some(k) => {
								if r.status != 200 {
									ctxr.violation("stored tile is not served with status 200", &format!("{mode} GET {target} AE={ae:?}: status {}", r.status), case);
									continue;
								}
								if r.header("content-type") != Some(mime) {
									ctxr.violation("Content-Type is not the tile format's media type", &format!("{mode} GET {target}: {:?}, expected {mime}", r.header("content-type")), case.clone());
								}
								let ce = r.header("content-encoding").map(|s| s.to_ascii_lowercase());
								if let Some(ce) = &ce {
									let offered: Vec<String> = ae.as_deref().unwrap_or("").split(',').map(|t| t.split(';').next().unwrap_or("").trim().to_ascii_lowercase()).collect();
									if ce != "identity" && !offered.contains(ce) {
										ctxr.violation("Content-Encoding is an encoding the client did not list", &format!("{mode} GET {target} AE={ae:?}: content-encoding {ce}"), case.clone());
									}
								}
								match decode_body(&r) {
									Ok(b) if b == content_of(k) => {
										let cid = match ce.as_deref() {
											Some("gzip") => 1,
											Some("br") => 2,
											_ => 0,
										};
										if cid != sc {
											ctxr.nontrivial(fnv_str(&format!("{mode}{}{ae:?}{cid}", s.id)));
										}
									}
									Ok(b) => ctxr.violation("served body, decoded by Content-Encoding, differs from the stored tile", &format!("{mode} GET {target} AE={ae:?}: {} bytes vs {} (content-encoding {ce:?})", b.len(), content_of(k).len()), case),
									Err(e) => ctxr.violation("served body is not in the announced Content-Encoding", &format!("{mode} GET {target} AE={ae:?}: {e}"), case),
								}
							}
							None => {
								let ok = if numeric_ok { r.status == 404 || (may_400_or_404 && r.status == 400) } else { r.status == 400 || (may_400_or_404 && r.status == 404) };
								if !ok {
									ctxr.violation(&format!("request for a coordinate without tile is answered with status {}", r.status), &format!("{mode} GET {target} AE={ae:?}: status {} ({} expected)", r.status, if numeric_ok { "404" } else { "400" }), case);
								}
							}
						},
					}
				}
			};
			// sources that hold only special tiles: each tile under a few Accept-Encoding values, the near-duplicates one
			// after the other (what an earlier answer leaves behind in the server must not leak into the next)
			if !s.tiles.contains(&(3, 1, 2)) {
				if !matches!(mode, "best" | "fast") {
					return;
				}
				let big = s.tiles.iter().any(|k| BIG_TILES.iter().any(|b| b.0 == *k));
				let aes: Vec<Option<&str>> = if big { vec![None, Some("gzip"), Some("identity")] } else { vec![Some("gzip"), Some("br"), None, Some("br, gzip")] };
				for ae in aes {
					for k in &s.tiles {
						judge(&format!("/tiles/{}/{}", s.id, tf(*k)), ae.map(|a| a.to_string()), Some(*k), true, false);
					}
				}
				if s.id == "vbig" {
					judge(&format!("/tiles/{}/{}", s.id, tf(BIG_TILES[0].0)), Some("br".into()), Some(BIG_TILES[0].0), true, false);
				}
				return;
			}
			// 1. content negotiation on a stored and an absent coordinate
			for ae in aer.iter() {
				for case in 0..3u8 {
					for weight in 0..n_weights {
						for sep in 0..n_seps {
							if ae.is_none() && (case > 0 || weight > 0 || sep > 0) {
								continue;
							}
							let aev = ae.as_ref().map(|t| render_ae(t, case, weight, sep));
							if !matches!(mode, "best" | "fast" | "override flip-y") && (case > 0 || weight > 0 || sep > 0) {
								continue;
							}
							judge(&format!("/tiles/{}/{}", s.id, tf((3, 1, 2))), aev.clone(), Some((3, 1, 2)), true, false);
							if case == 0 && weight == 0 && sep == 0 {
								judge(&format!("/tiles/{}/3/4/4", s.id), aev, None, true, false);
							}
						}
					}
				}
			}
			// 1b. a zero-length tile that the source holds
			if s.tiles.contains(&EMPTY_TILE) {
				for ae in [None, Some("gzip"), Some("br"), Some("identity"), Some("br, gzip"), Some("zstd")] {
					judge(&format!("/tiles/{}/{}", s.id, tf(EMPTY_TILE)), ae.map(|a| a.to_string()), Some(EMPTY_TILE), true, false);
				}
			}
			// 2. coordinate classes x extension
			let m32 = u32::MAX.to_string();
			let coords: Vec<(String, Option<Key>, bool, bool)> = vec![
				(tf((0, 0, 0)), Some((0, 0, 0)), true, false),
				(tf((3, 7, 7)), Some((3, 7, 7)), true, false),
				(tf((9, 255, 256)), Some((9, 255, 256)), true, false),
				(tf((14, 8800, 5370)), Some((14, 8800, 5370)), true, false),
				(tf((30, 5, (1 << 30) - 2)), Some((30, 5, (1 << 30) - 2)), true, false),
				(tf((31, (1u32 << 31) - 1, 6)), Some((31, (1u32 << 31) - 1, 6)), true, false),
				("30/5/5".into(), None, true, false),
				("3/3/3".into(), None, true, false),
				("9/100/100".into(), None, true, false),
				("2/1/1".into(), None, true, false),
				("3/8/2".into(), None, true, false),
				("3/1/8".into(), None, true, false),
				("3/1/9".into(), None, true, false),
				("0/0/1".into(), None, true, false),
				("0/1/0".into(), None, true, false),
				(format!("3/{m32}/2"), None, true, false),
				(format!("3/1/{m32}"), None, true, false),
				(format!("3/{m32}/{m32}"), None, true, false),
				("3/4294967296/2".into(), None, false, true),
				("31/0/0".into(), None, true, false),
				("31/2147483647/2147483647".into(), None, true, false),
				("32/0/0".into(), None, true, true),
				("255/0/0".into(), None, true, true),
				("256/0/0".into(), None, false, true),
				("a/1/2".into(), None, false, false),
				("3/a/2".into(), None, false, false),
				("3/1/a".into(), None, false, false),
				("-1/1/2".into(), None, false, false),
				("3/-1/2".into(), None, false, false),
				("3/ 1/2".into(), None, false, false),
				("3/1e2/2".into(), None, false, false),
				("3/1.5/2".into(), None, false, false),
				("3/%31/2".into(), None, false, true),
				// parts that start like the stored coordinate 3/1/2 but are not numbers, and surplus parts
				("3/1/2abc".into(), None, false, true),
				("3/1/2e1".into(), None, false, true),
				("3/1/2 ".into(), None, false, true),
				("3/1/2%zz".into(), None, false, true),
				("+3/1/2".into(), None, false, true),
				("3/+1/2".into(), None, false, true),
				("3/1/+2".into(), None, false, true),
				("03x/1/2".into(), None, false, true),
				("3/1/2/7/7".into(), None, false, true),
				("3/1/2/x".into(), None, false, true),
			];
			for (c, expect, numeric, either) in &coords {
				for ext in ["", ".png", ".pbf", ".x"] {
					for ae in [None, Some("gzip".to_string()), Some("br, gzip".to_string())] {
						judge(&format!("/tiles/{}/{c}{ext}", s.id), ae, *expect, *numeric, *either);
					}
				}
			}
			// 3. degenerate paths: always a complete response
			for t in [format!("/tiles/{}/", s.id), format!("/tiles/{}//", s.id), format!("/tiles/{}///", s.id), format!("/tiles/{}/3", s.id), format!("/tiles/{}/3/1", s.id), format!("/tiles/{}/3/1/", s.id), format!("/tiles/{}//1/2", s.id), format!("/tiles/{}/3//2", s.id), format!("/tiles/{}/3/1/2/4", s.id)] {
				ctxr.eval();
				let case = json!({"mode": mode, "source": s.id, "container": s.kind, "target": t});
				if let Reply::Dropped(why) = cl.request(&t, &[]).unwrap_or_else(|e| Reply::Dropped(e)) {
					ctxr.violation(&format!("tile request is answered by a dropped connection ({}, empty or missing path part)", s.kind), &format!("{mode} GET {t}: {why}"), case);
				}
			}
			ctxr.trace(1);
		});
		if !server.alive() {
			ctx.violation("the server process died during the requests", &std::fs::read_to_string(&server.log).unwrap_or_default().lines().rev().take(3).collect::<Vec<_>>().join(" | "), json!({"mode": mode}));
		}
		ctx.state(1);
	}
	ctx.sample(json!({"request": "GET /tiles/vpbf2/3/1/2 HTTP/1.1", "accept_encoding": "GZIP;q=0.5, Br;q=0.5", "sources": srcs.iter().map(|s| format!("{} ({}, {:?})", s.id, s.kind, s.format)).collect::<Vec<_>>()}));
	ctx.extra("accept_encoding_values", json!(aes.len()));
	c05_remote(&ctx, &work.0, &rt);
	c05_odd_ids(&ctx, &work.0, &rt);
	c05_merged(&ctx, &work.0);
	ctx.exhaustive(true);
	let _ = (Tier::Quick, &srcs[0].tiles);
	drop(work);
}

// ---------------------------------------------------------------------------------------------
// C07

/// Resolution of root/<segments> the way the file system does it (lexically; the fixture has no
/// symlinks): Some(path below the root) if the result lies inside the root - a path may leave the
/// root and come back - and None if it names something outside.
fn normalize(root: &[String], segs: &[&str]) -> Option<Vec<String>> {
	let mut out: Vec<String> = root.to_vec();
	for s in segs {
		match *s {
			"" | "." => {}
			".." => {
				out.pop();
			}
			other => out.push(other.to_string()),
		}
	}
	if out.len() >= root.len() && out[..root.len()] == *root {
		Some(out[root.len()..].to_vec())
	} else {
		None
	}
}

pub fn c07(ctx: Arc<Ctx>) {
	ctx.rule(
		"real `versatiles serve` binary with a folder root and the equivalent tar root, mounted at / and under a URL prefix, tar roots with symbolic/hard link members naming outside files (one archive above 32 MiB), a folder root spelled through a symbolic link followed by '..' (relative and absolute, with and without prefix), folder roots whose names contain '#' ',' ' ' '=' ';' '[' ']' (next to directories named like the pieces), near-duplicate 20 KiB files requested one after the other behind a tile of the same shape, and relative roots next to a pipeline-file tile source that lives in another directory; canary files next to the root, above it and at an absolute path; \
		 requests: every sequence of <= 4 segments over {a.txt, d, e.txt, canary.txt, ., .., empty, %2e%2e, %2E., ..%2f, %5c.., <root name>, <sibling name>, secret.txt and backup (which exist outside the root only as .gz/.br)} with and without trailing slash, plus absolute-path smuggling targets; raw request targets (no client-side normalisation). \
		 oracle: a 200 body (decoded) equals the file inside the root that the path resolves to and never contains a canary; plain paths to existing files are served. non-trivial = request targets containing a dot, empty or encoded segment",
	);
	let work = ct::WorkDir::new("c07");
	let base = work.0.join("site");
	let root = base.join("www");
	let sibling = base.join("www-internal");
	std::fs::create_dir_all(root.join("d")).unwrap();
	std::fs::create_dir_all(&sibling).unwrap();
	let files: Vec<(&str, Vec<u8>)> = vec![("a.txt", b"content of a.txt".to_vec()), ("d/index.html", b"<html>index of d</html>".to_vec()), ("d/e.txt", b"content of d/e.txt".to_vec()), ("x.html.br", codec::brotli_enc(b"<html>brotli variant</html>"))];
	for (p, c) in &files {
		std::fs::write(root.join(p), c).unwrap();
	}
	let canaries: Vec<(PathBuf, &str)> = vec![(base.join("canary.txt"), "CANARY-NEXT-TO-ROOT"), (sibling.join("canary.txt"), "CANARY-IN-SIBLING"), (sibling.join("a.txt"), "CANARY-SIBLING-A"), (work.0.join("canary.txt"), "CANARY-ABOVE"), (base.join("www.txt"), "CANARY-PREFIX-NAME"), (base.join("index.html"), "CANARY-INDEX-NEXT-TO-ROOT"), (work.0.join("index.html"), "CANARY-INDEX-ABOVE"), (sibling.join("index.html"), "CANARY-INDEX-IN-SIBLING")];
	for (p, c) in &canaries {
		std::fs::write(p, c).unwrap();
	}
	// files outside the root that exist only in pre-compressed form (the handler falls back to <name>.br / <name>.gz)
	std::fs::write(base.join("secret.txt.gz"), codec::gzip(b"CANARY-PRECOMPRESSED-GZ")).unwrap();
	std::fs::write(sibling.join("secret.txt.br"), codec::brotli_enc(b"CANARY-PRECOMPRESSED-BR")).unwrap();
	std::fs::create_dir_all(base.join("backup")).unwrap();
	std::fs::write(base.join("backup/index.html.br"), codec::brotli_enc(b"CANARY-PRECOMPRESSED-INDEX")).unwrap();
	// equivalent tar
	let members: Vec<(String, Vec<u8>)> = files.iter().map(|(p, c)| (p.to_string(), c.clone())).collect();
	std::fs::write(base.join("www.tar"), codec::tar_write(&members, codec::TarLayout { dot_prefix: false, dir_entries: false, gnu: false, reversed: false, meta_last: false })).unwrap();
	// tar archives that also carry link members (symbolic and hard) naming files outside the archive; one of them
	// above 32 MiB (plausible size threshold for another loading strategy)
	let mut linked = codec::tar_write(&members, codec::TarLayout { dot_prefix: false, dir_entries: false, gnu: false, reversed: false, meta_last: false });
	linked.truncate(linked.len() - 1024);
	for (name, target, flag) in [("link.txt", base.join("canary.txt").to_string_lossy().to_string(), b'2'), ("rel.txt", "../canary.txt".to_string(), b'2'), ("d/up.txt", "../../www-internal/canary.txt".to_string(), b'2'), ("hard.txt", "../canary.txt".to_string(), b'1'), ("canary.txt", base.join("canary.txt").to_string_lossy().to_string(), b'2')] {
		linked.extend(codec::tar_link_header(name, &target, flag));
	}
	linked.extend(std::iter::repeat(0u8).take(1024));
	std::fs::write(base.join("wwwlinks.tar"), &linked).unwrap();
	{
		// 34 MiB archives: one with symbolic link members only, one with a hard link member as well
		let pad = vec![b'p'; 34 * 1024 * 1024];
		let m = vec![("big.bin".to_string(), pad)];
		let tail = codec::tar_write(&m, codec::TarLayout { dot_prefix: false, dir_entries: false, gnu: false, reversed: false, meta_last: false });
		let mut head = codec::tar_write(&members, codec::TarLayout { dot_prefix: false, dir_entries: false, gnu: false, reversed: false, meta_last: false });
		head.truncate(head.len() - 1024);
		let mut sym = head.clone();
		for (name, target) in [("link.txt", base.join("canary.txt").to_string_lossy().to_string()), ("d/up.txt", sibling.join("canary.txt").to_string_lossy().to_string()), ("rel.txt", "a.txt".to_string())] {
			sym.extend(codec::tar_link_header(name, &target, b'2'));
		}
		let mut hard = sym.clone();
		hard.extend(codec::tar_link_header("hard.txt", "../canary.txt", b'1'));
		sym.extend_from_slice(&tail);
		hard.extend_from_slice(&tail);
		std::fs::write(base.join("wwwbig.tar"), &sym).unwrap();
		std::fs::write(base.join("wwwbighard.tar"), &hard).unwrap();
	}
	// a root spelled through a symbolic link and '..': app/current -> ../releases/42, --static current/../shared
	// names releases/shared (a copy of the root), while the lexically shortened app/shared holds canaries
	let app = base.join("app");
	let shared_real = base.join("releases/shared");
	std::fs::create_dir_all(base.join("releases/42")).unwrap();
	std::fs::create_dir_all(shared_real.join("d")).unwrap();
	std::fs::create_dir_all(app.join("shared/d")).unwrap();
	for (p, c) in &files {
		std::fs::write(shared_real.join(p), c).unwrap();
	}
	for (p, c) in [("a.txt", "CANARY-LEXICAL-ROOT-A"), ("canary.txt", "CANARY-LEXICAL-ROOT"), ("d/e.txt", "CANARY-LEXICAL-ROOT-E"), ("d/index.html", "CANARY-LEXICAL-ROOT-INDEX")] {
		std::fs::write(app.join("shared").join(p), c).unwrap();
	}
	std::os::unix::fs::symlink("../releases/42", app.join("current")).unwrap();
	std::fs::write(base.join("releases/canary.txt"), "CANARY-RELEASES").unwrap();
	// a root whose name contains '#' (a form only tile-source arguments give a meaning to), next to a directory
	// named like the part before the '#'
	let hash_root = base.join("wwx#pre");
	std::fs::create_dir_all(hash_root.join("d")).unwrap();
	std::fs::create_dir_all(base.join("wwx/d")).unwrap();
	for (p, c) in &files {
		std::fs::write(hash_root.join(p), c).unwrap();
	}
	for (p, c) in [("a.txt", "CANARY-BEFORE-HASH-A"), ("canary.txt", "CANARY-BEFORE-HASH"), ("d/e.txt", "CANARY-BEFORE-HASH-E")] {
		std::fs::write(base.join("wwx").join(p), c).unwrap();
	}
	let hash_comps: Vec<String> = hash_root.canonicalize().unwrap().components().filter_map(|c| match c {
		std::path::Component::Normal(s) => Some(s.to_string_lossy().to_string()),
		_ => None,
	}).collect();
	// roots whose names contain characters that option parsers like to give a meaning to (',' ' ' '=' ';' '[' ']'),
	// each next to directories named like the pieces such a name would fall into
	let odd_names = ["ww,x", "w w", "a=b", "p;q", "br[ack]et"];
	for name in odd_names {
		let r = base.join(name);
		std::fs::create_dir_all(r.join("d")).unwrap();
		for (p, c) in &files {
			std::fs::write(r.join(p), c).unwrap();
		}
		for piece in name.split([',', ' ', '=', ';', '[', ']']).filter(|p| !p.is_empty()) {
			let d = base.join(piece);
			if std::fs::create_dir_all(d.join("d")).is_ok() {
				let _ = std::fs::write(d.join("a.txt"), "CANARY-NAME-PIECE-A");
				let _ = std::fs::write(d.join("canary.txt"), "CANARY-NAME-PIECE");
				let _ = std::fs::write(d.join("d/e.txt"), "CANARY-NAME-PIECE-E");
			}
		}
	}
	// three files of 20 KiB that agree in their first and last 6 KiB, inside the root; a tile of the same shape in the tile source
	let near = |mid: &str| -> Vec<u8> {
		let mut v: Vec<u8> = (0..20 * 1024).map(|i| b"shared head and tail of near-duplicate files. "[i % 46]).collect();
		v[10_000..10_000 + mid.len()].copy_from_slice(mid.as_bytes());
		v
	};
	let near_files: Vec<(&str, Vec<u8>)> = vec![("near1.json", near("<<< file one >>>")), ("near2.json", near("<<< file two >>>")), ("d/near3.json", near("<<< file three >>>"))];
	for (p, c) in &near_files {
		std::fs::write(root.join(p), c).unwrap();
	}
	// a pipeline file as tile source that lives in another directory, which also has a 'www' of its own
	let maps = base.join("maps");
	std::fs::create_dir_all(maps.join("www/d")).unwrap();
	for (p, c) in [("a.txt", "CANARY-VPL-DIR-A"), ("canary.txt", "CANARY-VPL-DIR"), ("d/e.txt", "CANARY-VPL-DIR-E"), ("d/index.html", "CANARY-VPL-DIR-INDEX")] {
		std::fs::write(maps.join("www").join(p), c).unwrap();
	}
	std::fs::write(maps.join("www.tar"), codec::tar_write(&[("a.txt".to_string(), b"CANARY-VPL-DIR-TAR".to_vec())], codec::TarLayout { dot_prefix: false, dir_entries: false, gnu: false, reversed: false, meta_last: false })).unwrap();
	// a tile source is required by the CLI
	let rt = crate::memsource::runtime(1);
	let mut tiles = TileMap::new();
	tiles.insert((0, 0, 0), b"t".to_vec());
	tiles.insert((1, 0, 0), near("CANARY-TILE-CONTENT"));
	let mut src = MemSource::new("m", tiles, TileFormat::JSON, TileCompression::Uncompressed);
	let tfile = write_container(&rt, Cont::Versatiles, &base, "t", &mut src).expect("tile file");
	let abs_canary = base.join("canary.txt").to_string_lossy().to_string();
	let abs_sibling = sibling.join("canary.txt").to_string_lossy().to_string();
	let root_comps: Vec<String> = root.canonicalize().unwrap().components().filter_map(|c| match c {
		std::path::Component::Normal(s) => Some(s.to_string_lossy().to_string()),
		_ => None,
	}).collect();
	let segs: Vec<&str> = vec!["a.txt", "d", "e.txt", "canary.txt", ".", "..", "", "%2e%2e", "%2E.", "..%2f", "%5c..", "www", "www-internal", "secret.txt", "backup"];
	let maxlen = ctx.tier.pick(4usize, 5usize);
	let mut seqs: Vec<Vec<usize>> = vec![vec![]];
	let mut frontier: Vec<Vec<usize>> = vec![vec![]];
	for _ in 0..maxlen {
		let mut next = vec![];
		for f in &frontier {
			for i in 0..segs.len() {
				let mut n = f.clone();
				n.push(i);
				next.push(n);
			}
		}
		seqs.extend(next.iter().cloned());
		frontier = next;
	}
	let tabs = base.join(&tfile).to_string_lossy().to_string();
	std::fs::copy(base.join(&tfile), maps.join("t.versatiles")).unwrap();
	std::fs::write(maps.join("osm.vpl"), "from_container filename=\"t.versatiles\"").unwrap();
	let shared_comps: Vec<String> = shared_real.canonicalize().unwrap().components().filter_map(|c| match c {
		std::path::Component::Normal(s) => Some(s.to_string_lossy().to_string()),
		_ => None,
	}).collect();
	// (name, arguments (empty = same server as before), URL prefix, tar?, working directory, root for the oracle)
	let mounts: Vec<(&str, Vec<String>, &str, bool, PathBuf, Vec<String>)> = vec![
		("folder at /", vec![tfile.clone(), "--static".into(), "www".into()], "", false, base.clone(), root_comps.clone()),
		("tar at /", vec![tfile.clone(), "--static".into(), "www.tar".into()], "", true, base.clone(), root_comps.clone()),
		("folder and tar under prefixes", vec![tfile.clone(), "--static".into(), "[/assets]www".into(), "--static".into(), "[/tarassets]www.tar".into()], "/assets", false, base.clone(), root_comps.clone()),
		("folder and tar under prefixes", vec![], "/tarassets", true, base.clone(), root_comps.clone()),
		("tar with link members at /, 34 MiB tar with link members under a prefix", vec![tfile.clone(), "--static".into(), "wwwlinks.tar".into(), "--static".into(), "[/big]wwwbig.tar".into()], "", true, base.clone(), root_comps.clone()),
		("tar with link members at /, 34 MiB tar with link members under a prefix", vec![], "/big", true, base.clone(), root_comps.clone()),
		("34 MiB tar with symbolic and hard link members", vec![tfile.clone(), "--static".into(), "[/bighard]wwwbighard.tar".into()], "/bighard", true, base.clone(), root_comps.clone()),
		("folder spelled through a symbolic link and '..'", vec![tabs.clone(), "--static".into(), "current/../shared".into()], "", false, app.clone(), shared_comps.clone()),
		("folder spelled through a symbolic link and '..' under a prefix", vec![tabs.clone(), "--static".into(), format!("[/assets]{}/current/../shared", app.to_string_lossy())], "/assets", false, base.clone(), shared_comps.clone()),
	];
	let mut mounts = mounts;
	for name in odd_names {
		let comps: Vec<String> = base.join(name).canonicalize().unwrap().components().filter_map(|c| match c {
			std::path::Component::Normal(s) => Some(s.to_string_lossy().to_string()),
			_ => None,
		}).collect();
		mounts.push(("folder whose name contains a character option parsers give a meaning to", vec![tfile.clone(), "--static".into(), name.to_string()], "", false, base.clone(), comps));
	}
	mounts.push(("folder whose name contains '#'", vec![tfile.clone(), "--static".into(), "wwx#pre".into()], "", false, base.clone(), hash_comps.clone()));
	mounts.push(("folder and tar given by relative names, tile source = a pipeline file in another directory", vec!["maps/osm.vpl".into(), "--static".into(), "www".into(), "--static".into(), "[/tarassets]www.tar".into()], "", false, base.clone(), root_comps.clone()));
	mounts.push(("folder and tar given by relative names, tile source = a pipeline file in another directory", vec![], "/tarassets", true, base.clone(), root_comps.clone()));
	// the root is the server's own working directory, spelled '.', by its absolute path, and under a prefix
	mounts.push(("folder that is the server's working directory, given as '.'", vec![tabs.clone(), "--static".into(), ".".into()], "", false, root.clone(), root_comps.clone()));
	mounts.push(("folder that is the server's working directory, given by its absolute path", vec![tabs.clone(), "--static".into(), root.to_string_lossy().to_string()], "", false, root.clone(), root_comps.clone()));
	mounts.push(("folder that is the server's working directory, given as '.' under a prefix", vec![tabs.clone(), "--static".into(), "[/assets].".into()], "/assets", false, root.clone(), root_comps.clone()));
	let link_names = ["link.txt", "rel.txt", "hard.txt", "d/up.txt"];
	let mut server: Option<Server> = None;
	for (mi, (mname, args, prefix, is_tar, cwd, root_comps)) in mounts.iter().enumerate() {
		if !args.is_empty() {
			server = Some(match Server::start(cwd, args, &format!("c07-{mi}")) {
				Ok(s) => s,
				Err(e) if mname.contains("hard link") => {
					// a server that refuses such an archive at start serves nothing from it: not a violation
					ctx.outcome(&format!("{mname}: server refuses to start with this archive ({})", e.chars().take(80).collect::<String>()));
					server = None;
					continue;
				}
				Err(e) => {
					eprintln!("MACHINERY: {e}");
					std::process::exit(2);
				}
			});
		}
		let port = server.as_ref().unwrap().port;
		let (ctxr, sq, sg, fr, rc): (&Ctx, _, _, _, _) = (&ctx, &seqs, &segs, &files, &root_comps);
		let nfr = &near_files;
		let chunks = 64usize;
		let (absc, abss) = (&abs_canary, &abs_sibling);
		par_for(chunks, |ci| {
			let mut cl = Client::connect(port).expect("connect");
			let mut check = |target: &str, resolved: Option<Vec<String>>, plain: bool| {
				ctxr.eval();
				ctxr.transition(1);
				let case = json!({"mount": mname, "target": target});
				match cl.request(target, &[("Accept-Encoding", "br, gzip")]).unwrap_or_else(|e| Reply::Dropped(e)) {
					Reply::Dropped(why) => ctxr.violation("static request is answered by a dropped connection", &format!("{mname}: GET {target}: {why}"), case),
					Reply::Response(r) => {
						// which file inside the root does the path name?
						let inside: Option<Vec<u8>> = resolved.as_ref().and_then(|p| {
							let key = p.join("/");
							let cands = [key.clone(), if key.is_empty() { "index.html".to_string() } else { format!("{key}/index.html") }];
							cands.iter().find_map(|c| fr.iter().find(|f| f.0 == c || f.0 == format!("{c}.br")).map(|f| if f.0.ends_with(".br") && !c.ends_with(".br") { codec::brotli_dec(&f.1).unwrap() } else { f.1.clone() }))
						});
						if r.status == 200 {
							let body = decode_body(&r).unwrap_or_else(|_| r.body.clone());
							let text = String::from_utf8_lossy(&body).to_string();
							if text.contains("CANARY") {
								ctxr.violation(&format!("static handler returns a file outside the configured root ({})", if *is_tar { "tar root" } else { "folder root" }), &format!("{mname}: GET {target} -> 200 {text:?}"), case);
							} else if inside.as_ref() != Some(&body) {
								// a 200 for a path that does not resolve to this in-root file
								if !fr.iter().any(|f| f.1 == body || codec::brotli_dec(&f.1).ok().as_ref() == Some(&body)) {
									ctxr.violation("static handler returns content that is no file of the root", &format!("{mname}: GET {target} -> 200 {text:?}"), case);
								} else {
									ctxr.violation("static handler returns another file of the root than the path names", &format!("{mname}: GET {target} -> 200 {text:?}, path resolves to {resolved:?}"), case);
								}
							}
						} else if r.status == 404 {
							if plain && inside.is_some() {
								ctxr.violation("a plain path to an existing file of the root is not served", &format!("{mname}: GET {target} -> 404"), case);
							}
						} else {
							ctxr.violation(&format!("static request answered with status {}", r.status), &format!("{mname}: GET {target}"), case);
						}
					}
				}
			};
			for (qi, q) in sq.iter().enumerate() {
				if qi % chunks != ci {
					continue;
				}
				// (the working-directory mounts repeat the first mount with another spelling of the root: sequences of
				// up to three segments there)
				if mname.contains("working directory") && q.len() > 3 {
					continue;
				}
				let parts: Vec<&str> = q.iter().map(|i| sg[*i]).collect();
				let plain = parts.iter().all(|p| ["a.txt", "d", "e.txt"].contains(p));
				// the server does not percent-decode: encoded segments are literal names
				let resolved = normalize(rc, &parts);
				for slash in [false, true] {
					if parts.is_empty() && !slash {
						continue;
					}
					let target = format!("{prefix}/{}{}", parts.join("/"), if slash && !parts.is_empty() { "/" } else { "" });
					check(&target, resolved.clone(), plain && !parts.is_empty() && !slash);
					if !parts.iter().all(|p| ["a.txt", "d", "e.txt", "canary.txt", "www", "www-internal"].contains(p)) {
						ctxr.nontrivial(fnv_str(&format!("{mi}{target}")));
					}
				}
			}
			if ci == 0 {
				// absolute-path smuggling through empty segments
				// a tile of the same shape first, then the near-duplicate files one after the other under the same
				// Accept-Encoding: each answer is the file's own content (what an answer leaves behind in the
				// server must not leak into the next)
				if mi == 0 {
					let mut cl2 = Client::connect(port).expect("connect");
					for ae in ["gzip", "br", "br, gzip"] {
						let _ = cl2.request("/tiles/t/1/0/0", &[("Accept-Encoding", ae)]);
						for (p, c) in nfr.iter() {
							ctxr.eval();
							let target = format!("/{p}");
							if let Ok(Reply::Response(r)) = cl2.request(&target, &[("Accept-Encoding", ae)]) {
								let body = decode_body(&r).unwrap_or_else(|_| r.body.clone());
								if r.status != 200 || &body != c {
									let what = if String::from_utf8_lossy(&body).contains("CANARY") { "static handler returns a file outside the configured root (folder root)" } else { "static handler returns another file of the root than the path names" };
									ctxr.violation(what, &format!("{mname}: GET {target} (Accept-Encoding: {ae}) after other answers of the same shape: status {}, {} bytes, middle {:?}", r.status, body.len(), String::from_utf8_lossy(&body[body.len().min(10_000)..body.len().min(10_030)])), json!({"mount": mname, "target": target, "accept_encoding": ae}));
								}
							}
						}
					}
				}
				// link members of a tar root name files outside the archive: never served as those files
				for n in link_names {
					check(&format!("{prefix}/{n}"), None, false);
				}
				for t in [format!("{prefix}//{}", absc.trim_start_matches('/')), format!("{prefix}///{}", absc.trim_start_matches('/')), format!("{prefix}//{}", abss.trim_start_matches('/')), format!("{prefix}///{}", abss.trim_start_matches('/')), format!("{prefix}/d//{}", absc.trim_start_matches('/')), format!("{prefix}/../www.txt"), format!("{prefix}/%2e%2e/canary.txt"), format!("{prefix}/..%2fcanary.txt"), format!("{prefix}/d/%2e%2e/%2e%2e/canary.txt"), format!("{prefix}/.%2e/canary.txt"), format!("{prefix}/%2E%2E/www-internal/canary.txt")] {
					check(&t, None, false);
				}
			}
		});
		ctx.outcome_n(&format!("{mname} ({prefix}/): request targets"), (seqs.len() * 2) as u64);
		ctx.state(1);
		ctx.trace(1);
	}
	ctx.sample(json!({"raw_request_target": "/d/../../canary.txt", "segments": segs, "max_segments": maxlen}));
	ctx.exhaustive(true);
	drop(server);
	drop(work);
}

// ---------------------------------------------------------------------------------------------
// C17: served tiles.json

pub fn c17_tilesjson(ctx: &Arc<Ctx>) -> Result<(), String> {
	let work = ct::WorkDir::new("c17h");
	let rt = crate::memsource::runtime(1);
	let docs: Vec<(&str, &str, TileFormat)> = vec![
		("vec", r#"{"tilejson":"3.0.0","attribution":"a \"b\" \\ ü","description":"d","minzoom":0,"maxzoom":14,"bounds":[-180,-85,180,85],"vector_layers":[{"id":"roads","fields":{"kind":"String"},"minzoom":2,"maxzoom":9}],"custom":"kept"}"#, TileFormat::PBF),
		("ras", r#"{"tilejson":"3.0.0","attribution":"x","legend":"l\n2"}"#, TileFormat::PNG),
	];
	let mut tiles = TileMap::new();
	for k in [(2u8, 1u32, 1u32), (3, 2, 3), (3, 3, 3), (5, 9, 12)] {
		tiles.insert(k, format!("t{k:?}").into_bytes());
	}
	let mut args = vec![];
	for (id, doc, f) in &docs {
		let mut src = MemSource::new("m", tiles.clone(), *f, TileCompression::Uncompressed).with_tilejson(TileJSON::try_from(*doc).map_err(|e| e.to_string())?);
		for cont in [Cont::Versatiles, Cont::Pmtiles, Cont::Directory, Cont::Tar] {
			let name = format!("{id}{}", match cont { Cont::Versatiles => "v", Cont::Pmtiles => "p", Cont::Directory => "d", _ => "t" });
			let file = write_container(&rt, cont, &work.0, &name, &mut src)?;
			args.push(format!("[{name}]{file}"));
		}
		// the same container behind a pipeline file: an overlay of two zoom ranges of it, the wider one first (the served
		// zoom range and bounds are those of the union)
		std::fs::write(work.0.join(format!("{id}o.vpl")), format!("from_overlayed [ from_container filename=\"{id}v.versatiles\" | filter_zoom min=2 max=5, from_container filename=\"{id}v.versatiles\" | filter_zoom min=3 max=4 ]")).map_err(|e| e.to_string())?;
		args.push(format!("[{id}o]{id}o.vpl"));
	}
	// the served bounds describe the served coordinates, also when the server flips / swaps them
	for (fi, (flags, top)) in [(vec![], (9u32, 12u32)), (vec!["--flip-y"], (9, 19)), (vec!["--swap-xy"], (12, 9)), (vec!["--flip-y", "--swap-xy"], (19, 9))].into_iter().enumerate() {
	let mut sargs = args.clone();
	sargs.extend(flags.iter().map(|s| s.to_string()));
	let mut server = Server::start(&work.0, &sargs, &format!("c17f{fi}"))?;
	let mut cl = Client::connect(server.port)?;
	for (id, doc, f) in &docs {
		for suffix in ["v", "p", "d", "t", "o"] {
			let sid = format!("{id}{suffix}");
			for file in ["tiles.json", "meta.json"] {
				let target = format!("/tiles/{sid}/{file}");
				ctx.eval();
				let case = json!({"kind": "tiles.json", "target": target, "flags": flags});
				let target = &format!("{target} (server flags {flags:?})")[..];
				let path = target.split(' ').next().unwrap();
				match cl.request(path, &[("Accept-Encoding", "gzip")])? {
					Reply::Dropped(why) => ctx.violation("tiles.json request is answered by a dropped connection", &format!("{target}: {why}"), case),
					Reply::Response(r) => {
						if r.status != 200 {
							ctx.violation("tiles.json is not served", &format!("{target}: status {}", r.status), case);
							continue;
						}
						let body = decode_body(&r).unwrap_or_default();
						let v: Value = match serde_json::from_slice(&body) {
							Ok(v) => v,
							Err(e) => {
								ctx.violation("served tiles.json is not valid JSON", &format!("{target}: {e}: {:?}", String::from_utf8_lossy(&body)), case);
								continue;
							}
						};
						let given: Value = serde_json::from_str(doc).unwrap();
						for (k, gv) in given.as_object().unwrap() {
							if ["minzoom", "maxzoom", "bounds"].contains(&k.as_str()) {
								continue;
							}
							if v.get(k) != Some(gv) {
								ctx.violation("served tiles.json does not carry the container's metadata", &format!("{target}: key {k:?}: given {gv}, served {:?}", v.get(k)), case.clone());
							}
						}
						let tmpl = format!("/tiles/{sid}/{{z}}/{{x}}/{{y}}");
						if !v["tiles"].as_array().is_some_and(|a| a.iter().any(|t| t.as_str().is_some_and(|s| s.ends_with(&tmpl)))) {
							ctx.violation("served tiles.json lacks a tiles URL template for the source", &format!("{target}: tiles = {}", v["tiles"]), case.clone());
						}
						// coverage: zoom 2..5, bounds inside the bounding box of the stored tiles (one tile margin)
						let (minz, maxz) = (v["minzoom"].as_f64(), v["maxzoom"].as_f64());
						if minz != Some(2.0) || maxz != Some(5.0) {
							ctx.violation("served tiles.json zoom range is not the stored coverage", &format!("{target}: minzoom {minz:?} maxzoom {maxz:?}, tiles stored at zoom 2..5"), case.clone());
						}
						match v["bounds"].as_array().map(|a| a.iter().filter_map(|x| x.as_f64()).collect::<Vec<_>>()) {
							Some(b) if b.len() == 4 && b[0] >= -180.0 && b[2] <= 180.0 && b[1] >= -90.0 && b[3] <= 90.0 && b[0] < b[2] && b[1] < b[3] => {
								// every stored tile at the highest zoom lies inside the bounds
								let t = TileCoord3 { x: top.0, y: top.1, z: 5 }.as_geo_bbox();
								let (w, s, e, n) = (t.0.min(t.2), t.1.min(t.3), t.0.max(t.2), t.1.max(t.3));
								if b[0] > w + 1e-6 || b[2] < e - 1e-6 || b[1] > s + 1e-6 || b[3] < n - 1e-6 {
									ctx.violation("served tiles.json bounds do not contain the stored coverage", &format!("{target}: bounds {b:?}, tile (5,{},{}) spans [{w},{s},{e},{n}]", top.0, top.1), case.clone());
								}
							}
							other => ctx.violation("served tiles.json has no valid bounds", &format!("{target}: {other:?}"), case.clone()),
						}
						let _ = f;
					}
				}
			}
		}
	}
	if !server.alive() {
		return Err("server died".into());
	}
	drop(cl);
	drop(server);
	}
	ctx.outcome_n("tiles.json / meta.json requests", (docs.len() * 4 * 2 * 4) as u64);
	Ok(())
}

// ---------------------------------------------------------------------------------------------
// C06: the server's coordinate mapping with --flip-y / --swap-xy (used by c06.rs)

pub fn server_mapping(work: &Path, file: &str, flags: &[&str], probes: &[Key], tag: &str) -> Result<Vec<(Key, Reply)>, String> {
	let mut args = vec![format!("[s]{file}")];
	args.extend(flags.iter().map(|s| s.to_string()));
	let mut server = Server::start(work, &args, tag)?;
	let mut cl = Client::connect(server.port)?;
	let mut out = vec![];
	for k in probes {
		let r = cl.request(&format!("/tiles/s/{}/{}/{}", k.0, k.1, k.2), &[])?;
		out.push((*k, r));
	}
	if !server.alive() {
		return Err("server died".into());
	}
	Ok(out)
}

pub fn decode(r: &Response) -> Result<Vec<u8>, String> {
	decode_body(r)
}
