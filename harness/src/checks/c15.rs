//! C15 — tile bounding boxes and pyramids behave as the sets of tiles they denote.
//!
//! Part 1 (E-state): stateright BFS to closure over the raw field tuples of `TileBBox` per level
//! (z <= 2 quick, z <= 3 thorough), transitions = the mutating methods with every argument box /
//! coordinate of the level; in every reachable state the query methods are compared with a set
//! model (a u64 bit mask: a level z <= 3 has at most 64 tiles), and every ordered pair of
//! reachable states is checked for intersect / bounding union / overlaps.
//! Part 2 (bounded-exhaustive): pyramids by per-level application, high-zoom border boxes with an
//! interval model, tile box -> geo -> tile box identity, valid geographic boxes.

use crate::ctx::{fnv_str, Ctx};
use crate::par::{catch, panic_site, par_for};
use serde_json::{json, Value};
use stateright::{Checker, Model, Property};
use std::collections::BTreeSet;
use std::sync::{Arc, Mutex};
use versatiles_core::types::{GeoBBox, TileBBox, TileBBoxPyramid, TileCoord2, TileCoord3};
use versatiles_core::utils::TransformCoord;

pub type Raw = (u8, u32, u32, u32, u32);

fn raw(b: &TileBBox) -> Raw {
	(b.level, b.x_min, b.y_min, b.x_max, b.y_max)
}
fn from_raw(r: Raw) -> TileBBox {
	TileBBox { level: r.0, x_min: r.1, y_min: r.2, x_max: r.3, y_max: r.4, max: (1u32 << r.0) - 1 }
}

/// Set model: bit (y*n + x) for each denoted tile, n = 2^z <= 8.
fn denote(r: Raw) -> u64 {
	let n = 1u32 << r.0;
	let mut m = 0u64;
	for y in 0..n {
		for x in 0..n {
			if x >= r.1 && x <= r.3 && y >= r.2 && y <= r.4 {
				m |= 1u64 << (y * n + x);
			}
		}
	}
	m
}
fn hull(set: u64, z: u8) -> Option<(u32, u32, u32, u32)> {
	if set == 0 {
		return None;
	}
	let n = 1u32 << z;
	let (mut x0, mut y0, mut x1, mut y1) = (u32::MAX, u32::MAX, 0, 0);
	for y in 0..n {
		for x in 0..n {
			if set >> (y * n + x) & 1 == 1 {
				x0 = x0.min(x);
				y0 = y0.min(y);
				x1 = x1.max(x);
				y1 = y1.max(y);
			}
		}
	}
	Some((x0, y0, x1, y1))
}
fn rect(z: u8, h: Option<(u32, u32, u32, u32)>) -> u64 {
	match h {
		None => 0,
		Some((x0, y0, x1, y1)) => denote((z, x0, y0, x1, y1)),
	}
}
fn flip_set(set: u64, z: u8) -> u64 {
	let n = 1u32 << z;
	let mut m = 0;
	for y in 0..n {
		for x in 0..n {
			if set >> (y * n + x) & 1 == 1 {
				m |= 1u64 << ((n - 1 - y) * n + x);
			}
		}
	}
	m
}
fn swap_set(set: u64, z: u8) -> u64 {
	let n = 1u32 << z;
	let mut m = 0;
	for y in 0..n {
		for x in 0..n {
			if set >> (y * n + x) & 1 == 1 {
				m |= 1u64 << (x * n + y);
			}
		}
	}
	m
}
fn coords_of(set: u64, z: u8) -> Vec<(u32, u32)> {
	let n = 1u32 << z;
	let mut v = vec![];
	for y in 0..n {
		for x in 0..n {
			if set >> (y * n + x) & 1 == 1 {
				v.push((x, y));
			}
		}
	}
	v
}

#[derive(Clone, Debug, PartialEq, Eq, Hash, serde::Serialize, serde::Deserialize)]
pub enum Act {
	Intersect(Raw),
	Include(Raw),
	IncludeCoord(u32, u32),
	FlipY,
	SwapXY,
	SetEmpty,
	AddBorder(u32, u32, u32, u32),
}

fn init_boxes(z: u8) -> Vec<Raw> {
	let n = 1u32 << z;
	let mut v = vec![];
	for x0 in 0..n {
		for y0 in 0..n {
			for x1 in x0..n {
				for y1 in y0..n {
					v.push(raw(&TileBBox::new(z, x0, y0, x1, y1).unwrap()));
				}
			}
		}
	}
	v.push(raw(&TileBBox::new_full(z).unwrap()));
	v.push(raw(&TileBBox::new_empty(z).unwrap()));
	let mut e = TileBBox::new_full(z).unwrap();
	e.set_empty();
	v.push(raw(&e));
	v.sort();
	v.dedup();
	v
}

/// Applies a transition to the real object; checks the clauses that belong to the transition.
fn apply(ctx: &Ctx, r: Raw, a: &Act) -> Option<Raw> {
	let z = r.0;
	let mut b = from_raw(r);
	let d = denote(r);
	let case = || json!({"kind": "bbox-transition", "state": r, "action": a});
	let res = catch(|| {
		match a {
			Act::Intersect(o) => {
				b.intersect_bbox(&from_raw(*o)).map_err(|e| e.to_string())?;
				Ok::<Option<u64>, String>(Some(d & denote(*o)))
			}
			Act::Include(o) => {
				b.include_bbox(&from_raw(*o)).map_err(|e| e.to_string())?;
				Ok(Some(rect(z, hull(d | denote(*o), z))))
			}
			Act::IncludeCoord(x, y) => {
				b.include_coord(*x, *y);
				Ok(Some(rect(z, hull(d | 1u64 << (y * (1 << z) + x), z))))
			}
			Act::FlipY => {
				b.flip_y();
				Ok(Some(flip_set(d, z)))
			}
			Act::SwapXY => {
				b.swap_xy();
				Ok(Some(swap_set(d, z)))
			}
			// state generators only: nothing asserted about their result
			Act::SetEmpty => {
				b.set_empty();
				Ok(None)
			}
			Act::AddBorder(a0, a1, a2, a3) => {
				b.add_border(*a0, *a1, *a2, *a3);
				Ok(None)
			}
		}
	});
	ctx.transition(1);
	ctx.trace(1);
	ctx.eval();
	let name = match a {
		Act::Intersect(_) => "intersect_bbox",
		Act::Include(_) => "include_bbox",
		Act::IncludeCoord(..) => "include_coord",
		Act::FlipY => "flip_y",
		Act::SwapXY => "swap_xy",
		Act::SetEmpty => "set_empty",
		Act::AddBorder(..) => "add_border",
	};
	match res {
		Err(p) => {
			ctx.violation(&format!("bbox {name} panics at {}", panic_site(&p)), &format!("{name} on {r:?} with {a:?} panicked: {p}"), case());
			None
		}
		Ok(Err(e)) => {
			ctx.violation(&format!("bbox {name} fails on same-level argument"), &format!("{name} on {r:?} with {a:?}: {e}"), case());
			None
		}
		Ok(Ok(expect)) => {
			let nr = raw(&b);
			if let Some(exp) = expect {
				if denote(nr) != exp {
					ctx.violation(
						&format!("bbox {name} disagrees with set model"),
						&format!("{name} on {r:?} with {a:?} gives {nr:?} denoting {:?}, set model {:?}", coords_of(denote(nr), z), coords_of(exp, z)),
						case(),
					);
				}
			}
			Some(nr)
		}
	}
}

/// Query methods of one state against the set model.
fn check_state(ctx: &Ctx, r: Raw) {
	let z = r.0;
	let n = 1u32 << z;
	let d = denote(r);
	let b = from_raw(r);
	let cs = coords_of(d, z);
	let case = json!({"kind": "bbox-state", "state": r});
	let bad = |clause: &str, desc: String| ctx.violation(&format!("bbox query {clause} disagrees with set model"), &format!("state {r:?}: {desc}"), case.clone());
	let res = catch(|| {
		if b.is_empty() != (d == 0) {
			bad("is_empty", format!("is_empty={} but denotes {} tiles", b.is_empty(), cs.len()));
		}
		if b.count_tiles() != cs.len() as u64 {
			bad("count_tiles", format!("count_tiles={} set has {}", b.count_tiles(), cs.len()));
		}
		if (b.width() as u64) * (b.height() as u64) != cs.len() as u64 {
			bad("width*height", format!("{}x{} vs {}", b.width(), b.height(), cs.len()));
		}
		for y in 0..n {
			for x in 0..n {
				let inside = d >> (y * n + x) & 1 == 1;
				if b.contains2(&TileCoord2::new(x, y)) != inside {
					bad("contains2", format!("contains2({x},{y}) != {inside}"));
				}
				if b.contains3(&TileCoord3::new(x, y, z).unwrap()) != inside {
					bad("contains3", format!("contains3({x},{y},{z}) != {inside}"));
				}
				if b.contains3(&TileCoord3::new(x, y, z + 1).unwrap()) {
					bad("contains3-other-level", format!("contains3({x},{y},{}) is true", z + 1));
				}
				let i2 = b.get_tile_index2(&TileCoord2::new(x, y)).ok();
				let i3 = b.get_tile_index3(&TileCoord3::new(x, y, z).unwrap()).ok();
				let want = cs.iter().position(|c| *c == (x, y));
				if i2 != want || i3 != want {
					bad("get_tile_index", format!("index of ({x},{y}) = {i2:?}/{i3:?}, row-major position {want:?}"));
				}
			}
		}
		let it: Vec<(u32, u32)> = b.iter_coords().map(|c| (c.x, c.y)).collect();
		if it != cs {
			bad("iter_coords", format!("iter_coords={it:?} set(row-major)={cs:?}"));
		}
		let it2: Vec<(u32, u32)> = b.clone().into_iter_coords().map(|c| (c.x, c.y)).collect();
		if it2 != cs {
			bad("into_iter_coords", format!("{it2:?} vs {cs:?}"));
		}
		for i in 0..(cs.len() as u32 + 2) {
			let c2 = b.get_coord2_by_index(i).ok().map(|c| (c.x, c.y));
			let c3 = b.get_coord3_by_index(i).ok().map(|c| (c.x, c.y));
			let want = cs.get(i as usize).copied();
			if c2 != want || c3 != want {
				bad("get_coord_by_index", format!("coord at index {i} = {c2:?}/{c3:?}, set {want:?}"));
			}
		}
		for size in (1u32..=9).chain([256]) {
			let cells: Vec<TileBBox> = b.iter_bbox_grid(size).collect();
			let mut union = 0u64;
			for c in &cells {
				let cd = denote(raw(c));
				if c.level != z || cd == 0 {
					bad("iter_bbox_grid-empty-cell", format!("grid {size}: cell {:?}", raw(c)));
				}
				if union & cd != 0 {
					bad("iter_bbox_grid-overlap", format!("grid {size}: cells overlap"));
				}
				union |= cd;
				let cc = coords_of(cd, z);
				if cc.iter().any(|p| p.0 / size != cc[0].0 / size || p.1 / size != cc[0].1 / size) {
					bad("iter_bbox_grid-unaligned", format!("grid {size}: cell {:?} crosses a grid line", raw(c)));
				}
			}
			if union != d {
				bad("iter_bbox_grid-not-partition", format!("grid {size}: union of cells {:?} != box {:?}", coords_of(union, z), cs));
			}
		}
		// involutions
		let mut f = b.clone();
		f.flip_y();
		f.flip_y();
		if denote(raw(&f)) != d {
			bad("flip_y-involution", format!("flip twice gives {:?}", raw(&f)));
		}
		let mut s = b.clone();
		s.swap_xy();
		s.swap_xy();
		if denote(raw(&s)) != d {
			bad("swap_xy-involution", format!("swap twice gives {:?}", raw(&s)));
		}
		if d != 0 {
			let g = b.as_geo_bbox();
			match TileBBox::from_geo(z, &g) {
				Ok(b2) => {
					if denote(raw(&b2)) != d {
						bad("geo-roundtrip", format!("as_geo_bbox {g:?} -> from_geo gives {:?}", raw(&b2)));
					}
				}
				Err(e) => bad("geo-roundtrip-err", format!("from_geo({g:?}) failed: {e}")),
			}
		}
	});
	ctx.eval();
	if let Err(p) = res {
		ctx.violation(&format!("bbox query panics at {}", panic_site(&p)), &format!("state {r:?}: {p}"), case.clone());
	}
}

fn check_pair(ctx: &Ctx, a: Raw, b: Raw) {
	let z = a.0;
	let (da, db) = (denote(a), denote(b));
	let case = || json!({"kind": "bbox-pair", "a": a, "b": b});
	let res = catch(|| {
		let mut i = from_raw(a);
		i.intersect_bbox(&from_raw(b)).unwrap();
		if denote(raw(&i)) != da & db {
			ctx.violation("bbox pair intersect disagrees with set model", &format!("{a:?} ∩ {b:?} = {:?}", raw(&i)), case());
		}
		let mut u = from_raw(a);
		u.include_bbox(&from_raw(b)).unwrap();
		if denote(raw(&u)) != rect(z, hull(da | db, z)) {
			ctx.violation("bbox pair include_bbox disagrees with set model", &format!("hull({a:?} ∪ {b:?}) = {:?}", raw(&u)), case());
		}
		let o = from_raw(a).overlaps_bbox(&from_raw(b)).unwrap();
		if o != (da & db != 0) {
			ctx.violation("bbox pair overlaps disagrees with set model", &format!("{a:?} overlaps {b:?} = {o}"), case());
		}
	});
	if let Err(p) = res {
		ctx.violation(&format!("bbox pair op panics at {}", panic_site(&p)), &format!("{a:?} / {b:?}: {p}"), case());
	}
}

#[derive(Clone, Debug, PartialEq, Eq, Hash)]
struct St(Raw);

struct BoxModel {
	z: u8,
	args: Vec<Raw>,
	ctx: Arc<Ctx>,
	reached: Arc<Mutex<BTreeSet<Raw>>>,
}

impl Model for BoxModel {
	type State = St;
	type Action = Act;
	fn init_states(&self) -> Vec<St> {
		init_boxes(self.z).into_iter().map(St).collect()
	}
	fn actions(&self, _s: &St, out: &mut Vec<Act>) {
		let n = 1u32 << self.z;
		for a in &self.args {
			out.push(Act::Intersect(*a));
			out.push(Act::Include(*a));
		}
		for y in 0..n {
			for x in 0..n {
				out.push(Act::IncludeCoord(x, y));
			}
		}
		out.push(Act::FlipY);
		out.push(Act::SwapXY);
		out.push(Act::SetEmpty);
		for b in [(0, 0, 0, 0), (1, 0, 0, 0), (0, 1, 0, 0), (0, 0, 1, 0), (0, 0, 0, 1), (1, 1, 1, 1)] {
			out.push(Act::AddBorder(b.0, b.1, b.2, b.3));
		}
	}
	fn next_state(&self, s: &St, a: Act) -> Option<St> {
		self.reached.lock().unwrap().insert(s.0);
		let r = apply(&self.ctx, s.0, &a)?;
		self.reached.lock().unwrap().insert(r);
		Some(St(r))
	}
	fn properties(&self) -> Vec<Property<Self>> {
		vec![Property::<Self>::always("search runs to closure", |_, _| true)]
	}
}

fn part1_closure(ctx: &Arc<Ctx>, zmax: u8) {
	for z in 0..=zmax {
		let reached = Arc::new(Mutex::new(BTreeSet::new()));
		let m = BoxModel { z, args: init_boxes(z), ctx: ctx.clone(), reached: reached.clone() };
		let ch = m.checker().threads(crate::par::threads()).spawn_bfs().join();
		let mut states: Vec<Raw> = reached.lock().unwrap().iter().copied().collect();
		if ch.unique_state_count() != states.len() {
			eprintln!("MACHINERY: stateright unique states {} != collected {}", ch.unique_state_count(), states.len());
			std::process::exit(2);
		}
		// closure under *reachable* arguments too: fixpoint over R x R
		let mut rounds = 0;
		loop {
			rounds += 1;
			let set: BTreeSet<Raw> = states.iter().copied().collect();
			let new: Mutex<BTreeSet<Raw>> = Mutex::new(BTreeSet::new());
			par_for(states.len(), |i| {
				let a = states[i];
				for b in &states {
					for act in [Act::Intersect(*b), Act::Include(*b)] {
						if let Some(r) = apply(ctx, a, &act) {
							if !set.contains(&r) {
								new.lock().unwrap().insert(r);
							}
						}
					}
				}
			});
			let new = new.into_inner().unwrap();
			if new.is_empty() {
				break;
			}
			// extend by single-step successors of the new states (unary actions)
			for r in new {
				states.push(r);
			}
			states.sort();
			states.dedup();
		}
		ctx.state(states.len() as u64);
		let empties = states.iter().filter(|r| denote(**r) == 0).count();
		ctx.sample(json!({"level": z, "reachable_raw_states": states.len(), "of_which_empty_encodings": empties, "stateright_generated": ch.state_count(), "fixpoint_rounds": rounds, "example_state": states[states.len() / 2]}));
		ctx.outcome_n(&format!("closure z={z}: reachable raw states"), states.len() as u64);
		ctx.outcome_n(&format!("closure z={z}: distinct empty encodings"), empties as u64);
		par_for(states.len(), |i| {
			check_state(ctx, states[i]);
			ctx.nontrivial(fnv_str(&format!("{:?}", states[i])));
		});
		par_for(states.len(), |i| {
			for b in &states {
				check_pair(ctx, states[i], *b);
			}
			ctx.evals(states.len() as u64);
		});
		// level mismatch must be an error, not a wrong answer
		if z > 0 {
			let other = TileBBox::new_full(z - 1).unwrap();
			for r in states.iter().take(50) {
				let mut b = from_raw(*r);
				if b.intersect_bbox(&other).is_ok() || b.include_bbox(&other).is_ok() || b.overlaps_bbox(&other).is_ok() {
					ctx.violation("bbox ops accept argument of another level", &format!("{r:?} with full level {}", z - 1), json!({"kind":"bbox-level-mismatch","state":r}));
				}
			}
		}
	}
}

// ---------------------------------------------------------------------------------------------
// Part 2a: pyramids by per-level application

fn pyr_from(levels: &[(u8, Raw)]) -> TileBBoxPyramid {
	let mut p = TileBBoxPyramid::new_empty();
	for (_, r) in levels {
		p.set_level_bbox(from_raw(*r));
	}
	p
}
fn pyr_sets(p: &TileBBoxPyramid) -> Vec<u64> {
	(0..=3u8).map(|z| denote(raw(p.get_level_bbox(z)))).collect()
}

fn part2_pyramids(ctx: &Arc<Ctx>) {
	// per-level alphabets (a few boxes incl. both empty encodings) at levels 0..3
	let mut alpha: Vec<Vec<Raw>> = vec![];
	for z in 0..=3u8 {
		let n = (1u32 << z) - 1;
		let mut v = vec![raw(&TileBBox::new_empty(z).unwrap()), raw(&TileBBox::new_full(z).unwrap()), raw(&TileBBox::new(z, 0, 0, 0, n).unwrap()), raw(&TileBBox::new(z, n, n / 2, n, n).unwrap())];
		let mut e = TileBBox::new_full(z).unwrap();
		e.set_empty();
		v.push(raw(&e));
		if z >= 2 {
			v.push(raw(&TileBBox::new(z, 1, 1, 2, 1).unwrap()));
		}
		v.sort();
		v.dedup();
		alpha.push(v);
	}
	let mut pyrs: Vec<Vec<(u8, Raw)>> = vec![vec![]];
	for z in 0..=3u8 {
		let mut next = vec![];
		for p in &pyrs {
			for r in &alpha[z as usize] {
				let mut q = p.clone();
				q.push((z, *r));
				next.push(q);
			}
		}
		pyrs = next;
	}
	let ctx2 = ctx.clone();
	let pyrs_ref = &pyrs;
	par_for(pyrs.len(), move |i| {
		let ctx = &ctx2;
		let pa = pyr_from(&pyrs_ref[i]);
		let sa = pyr_sets(&pa);
		let case = |j: Option<usize>| json!({"kind":"pyramid","a": pyrs_ref[i], "b": j.map(|j| pyrs_ref[j].clone())});
		let r = catch(|| {
			let total: u64 = sa.iter().map(|s| s.count_ones() as u64).sum();
			if pa.count_tiles() != total {
				ctx.violation("pyramid count_tiles disagrees with set model", &format!("{pa:?}: {} vs {total}", pa.count_tiles()), case(None));
			}
			if pa.is_empty() != (total == 0) {
				ctx.violation("pyramid is_empty disagrees with set model", &format!("{pa:?}"), case(None));
			}
			let zmin = sa.iter().position(|s| *s != 0).map(|z| z as u8);
			let zmax = sa.iter().rposition(|s| *s != 0).map(|z| z as u8);
			if pa.get_zoom_min() != zmin || pa.get_zoom_max() != zmax {
				ctx.violation("pyramid zoom_min/max disagrees with set model", &format!("{pa:?}: {:?}/{:?} vs {zmin:?}/{zmax:?}", pa.get_zoom_min(), pa.get_zoom_max()), case(None));
			}
			let lv: Vec<u8> = pa.iter_levels().map(|b| b.level).collect();
			let want: Vec<u8> = (0..=3u8).filter(|z| sa[*z as usize] != 0).collect();
			if lv != want {
				ctx.violation("pyramid iter_levels disagrees with set model", &format!("{pa:?}: {lv:?} vs {want:?}"), case(None));
			}
			for z in 0..=3u8 {
				let n = 1u32 << z;
				for y in 0..n {
					for x in 0..n {
						let inside = sa[z as usize] >> (y * n + x) & 1 == 1;
						if pa.contains_coord(&TileCoord3::new(x, y, z).unwrap()) != inside {
							ctx.violation("pyramid contains_coord disagrees with set model", &format!("{pa:?} contains ({x},{y},{z}) != {inside}"), case(None));
						}
					}
				}
			}
			for zlim in 0..=4u8 {
				let mut p = pa.clone();
				p.set_zoom_min(zlim);
				let mut q = pa.clone();
				q.set_zoom_max(zlim);
				for z in 0..=3u8 {
					let keep_min = if z >= zlim { sa[z as usize] } else { 0 };
					let keep_max = if z <= zlim { sa[z as usize] } else { 0 };
					if pyr_sets(&p)[z as usize] != keep_min || pyr_sets(&q)[z as usize] != keep_max {
						ctx.violation("pyramid set_zoom_min/max disagrees with set model", &format!("{pa:?} limit {zlim} level {z}"), case(None));
					}
				}
			}
			let mut f = pa.clone();
			f.flip_y();
			let mut s = pa.clone();
			s.swap_xy();
			for z in 0..=3u8 {
				if pyr_sets(&f)[z as usize] != flip_set(sa[z as usize], z) || pyr_sets(&s)[z as usize] != swap_set(sa[z as usize], z) {
					ctx.violation("pyramid flip/swap disagrees with set model", &format!("{pa:?} level {z}"), case(None));
				}
			}
			f.flip_y();
			s.swap_xy();
			if f != pa || s != pa {
				ctx.violation("pyramid flip/swap not an involution", &format!("{pa:?}"), case(None));
			}
		});
		ctx.eval();
		if let Err(p) = r {
			ctx.violation(&format!("pyramid op panics at {}", panic_site(&p)), &format!("{:?}: {p}", pyrs_ref[i]), case(None));
		}
		// pairs (every 7th partner plus self, to keep quick small; all partners in thorough)
		let step = if ctx.tier == crate::ctx::Tier::Quick { 7 } else { 1 };
		let mut j = i % step;
		while j < pyrs_ref.len() {
			let pb = pyr_from(&pyrs_ref[j]);
			let sb = pyr_sets(&pb);
			let r = catch(|| {
				let mut x = pa.clone();
				x.intersect(&pb);
				let mut u = pa.clone();
				u.include_bbox_pyramid(&pb);
				for z in 0..=3usize {
					if pyr_sets(&x)[z] != sa[z] & sb[z] {
						ctx.violation("pyramid intersect disagrees with set model", &format!("{pa:?} ∩ {pb:?} level {z}"), case(Some(j)));
					}
					if pyr_sets(&u)[z] != rect(z as u8, hull(sa[z] | sb[z], z as u8)) {
						ctx.violation("pyramid include_bbox_pyramid disagrees with set model", &format!("{pa:?} ∪ {pb:?} level {z}"), case(Some(j)));
					}
					let o = pa.overlaps_bbox(pb.get_level_bbox(z as u8));
					if o != (sa[z] & sb[z] != 0) {
						ctx.violation("pyramid overlaps_bbox disagrees with set model", &format!("{pa:?} / {pb:?} level {z}"), case(Some(j)));
					}
				}
				let eq = pa == pb;
				if eq != (sa == sb) {
					ctx.violation("pyramid equality disagrees with set model", &format!("{pa:?} == {pb:?} is {eq}"), case(Some(j)));
				}
			});
			ctx.eval();
			if let Err(p) = r {
				ctx.violation(&format!("pyramid pair op panics at {}", panic_site(&p)), &format!("{:?} / {:?}: {p}", pyrs_ref[i], pyrs_ref[j]), case(Some(j)));
			}
			j += step;
		}
	});
	ctx.outcome_n("pyramids enumerated (levels 0..3)", pyrs.len() as u64);
	ctx.sample(json!({"pyramid_levels": pyrs[pyrs.len() / 3]}));
}

// ---------------------------------------------------------------------------------------------
// Part 2b: high-zoom border boxes against an interval model

fn part2_border(ctx: &Arc<Ctx>) {
	let levels: Vec<u8> = ctx.tier.pick(vec![4, 8, 9, 15, 16, 17, 30, 31], (4..=31).collect());
	// geo round trip of every single tile in the 600 rows next to each pole and around the equator (where the Mercator
	// latitude changes least / most per tile), at every level of the list
	for &z in &levels {
		if z < 10 {
			continue;
		}
		let max = ((1u64 << z) - 1) as u32;
		let rows: Vec<u32> = (0..600u32).chain(max - 599..=max).chain(max / 2 - 300..max / 2 + 300).collect();
		let mut n = 0u64;
		for &y in &rows {
			for x in [0u32, 5, max] {
				let r = (z, x, y, x, y);
				let b = TileBBox::new(z, x, y, x, y).unwrap();
				let g = b.as_geo_bbox();
				n += 1;
				match TileBBox::from_geo(z, &g) {
					Ok(b2) if raw(&b2) == r => {}
					Ok(b2) => ctx.violation(&format!("tile box -> geo -> tile box is not the identity at z={z}"), &format!("{r:?} -> {g:?} -> {:?}", raw(&b2)), json!({"kind":"border-box","state": r})),
					Err(e) => ctx.violation("tile box -> geo -> tile box fails", &format!("{r:?} -> {g:?}: {e}"), json!({"kind":"border-box","state": r})),
				}
			}
		}
		ctx.outcome_n(&format!("single tiles next to the poles and the equator, geo round trip, z={z}"), n);
	}
	for z in levels {
		let max = ((1u64 << z) - 1) as u32;
		let mid = max / 2;
		let mut al: Vec<u32> = vec![0, 1, mid, mid + 1, max - 1, max];
		if z >= 9 {
			al.extend([255, 256, 511]);
		}
		al.sort();
		al.dedup();
		let mut boxes = vec![];
		for &x0 in &al {
			for &x1 in al.iter().filter(|v| **v >= x0) {
				for &y0 in &al {
					for &y1 in al.iter().filter(|v| **v >= y0) {
						boxes.push((z, x0, y0, x1, y1));
					}
				}
			}
		}
		let al_ref = &al;
		let boxes_ref = &boxes;
		par_for(boxes.len(), |i| {
			let r = boxes_ref[i];
			let case = json!({"kind":"border-box","state": r});
			let res = catch(|| {
				let b = TileBBox::new(r.0, r.1, r.2, r.3, r.4).unwrap();
				let w = (r.3 - r.1) as u64 + 1;
				let h = (r.4 - r.2) as u64 + 1;
				if b.count_tiles() != w * h || b.is_empty() {
					ctx.violation("border box count_tiles/is_empty disagrees with interval model", &format!("{r:?}: {}", b.count_tiles()), case.clone());
				}
				for &x in al_ref {
					for &y in al_ref {
						let inside = x >= r.1 && x <= r.3 && y >= r.2 && y <= r.4;
						if b.contains2(&TileCoord2::new(x, y)) != inside {
							ctx.violation("border box contains disagrees with interval model", &format!("{r:?} contains ({x},{y})"), case.clone());
						}
						let want = if inside { Some((y - r.2) as u64 * w + (x - r.1) as u64) } else { None };
						let got = b.get_tile_index2(&TileCoord2::new(x, y)).ok().map(|v| v as u64);
						if got != want {
							ctx.violation(
								if w * h > u32::MAX as u64 { "border box index of coordinate wrong (box with >= 2^32 tiles)" } else { "border box index of coordinate wrong" },
								&format!("{r:?}: index of ({x},{y}) = {got:?}, row-major {want:?}"),
								case.clone(),
							);
						}
						if let Some(idx) = want {
							if idx <= u32::MAX as u64 {
								let c = b.get_coord3_by_index(idx as u32).ok().map(|c| (c.x, c.y));
								let c2 = b.get_coord2_by_index(idx as u32).ok().map(|c| (c.x, c.y));
								if c != Some((x, y)) || c2 != Some((x, y)) {
									ctx.violation(
										if w * h > u32::MAX as u64 { "border box coordinate of index wrong (box with >= 2^32 tiles)" } else { "border box coordinate of index wrong" },
										&format!("{r:?}: coord at index {idx} = {c:?}/{c2:?}, expected ({x},{y})"),
										case.clone(),
									);
								}
							}
						}
					}
				}
				if w * h <= u32::MAX as u64 && b.get_coord3_by_index((w * h) as u32).is_ok() {
					ctx.violation("border box accepts index == count", &format!("{r:?}"), case.clone());
				}
				// first coordinates in row-major order
				let first: Vec<(u32, u32)> = b.iter_coords().take(3).map(|c| (c.x, c.y)).collect();
				let mut want = vec![];
				'o: for y in r.2..=r.4 {
					for x in r.1..=r.3 {
						want.push((x, y));
						if want.len() == 3 {
							break 'o;
						}
					}
				}
				if first != want {
					ctx.violation("border box iter_coords order disagrees", &format!("{r:?}: {first:?} vs {want:?}"), case.clone());
				}
				// the consuming enumeration: the same first coordinates, and the element behind one full row is the first of
				// the second row (lazily: the boxes here hold up to 2^62 tiles)
				let first2: Vec<(u32, u32)> = b.clone().into_iter_coords().take(3).map(|c| (c.x, c.y)).collect();
				if first2 != want {
					ctx.violation("border box into_iter_coords order disagrees", &format!("{r:?}: {first2:?} vs {want:?}"), case.clone());
				}
				if w <= 70_000 && h >= 2 {
					for (name, got) in [("iter_coords", b.iter_coords().nth(w as usize).map(|c| (c.x, c.y))), ("into_iter_coords", b.clone().into_iter_coords().nth(w as usize).map(|c| (c.x, c.y)))] {
						if got != Some((r.1, r.2 + 1)) {
							ctx.violation(&format!("border box {name}: element behind the first row disagrees"), &format!("{r:?}: element {w} is {got:?}, row-major enumeration has ({}, {})", r.1, r.2 + 1), case.clone());
						}
					}
				}
				// flip / swap
				let mut f = b.clone();
				f.flip_y();
				if raw(&f) != (r.0, r.1, max - r.4, r.3, max - r.2) {
					ctx.violation("border box flip_y disagrees with interval model", &format!("{r:?} -> {:?}", raw(&f)), case.clone());
				}
				let mut s = b.clone();
				s.swap_xy();
				if raw(&s) != (r.0, r.2, r.1, r.4, r.3) {
					ctx.violation("border box swap_xy disagrees with interval model", &format!("{r:?} -> {:?}", raw(&s)), case.clone());
				}
				// grid with a cell size that yields few cells
				let size = (w.max(h).div_ceil(3).max(1)).next_power_of_two().min(1 << 31) as u32;
				let cells: Vec<TileBBox> = b.iter_bbox_grid(size).collect();
				let mut total = 0u64;
				for c in &cells {
					total += c.count_tiles();
					if c.x_min / size != c.x_max / size || c.y_min / size != c.y_max / size || c.x_min < r.1 || c.x_max > r.3 || c.y_min < r.2 || c.y_max > r.4 {
						ctx.violation("border box grid cell unaligned or outside", &format!("{r:?} size {size}: {:?}", raw(c)), case.clone());
					}
				}
				for (i, c) in cells.iter().enumerate() {
					for d in cells.iter().skip(i + 1) {
						if c.overlaps_bbox(d).unwrap() {
							ctx.violation("border box grid cells overlap", &format!("{r:?} size {size}"), case.clone());
						}
					}
				}
				if total != w * h {
					ctx.violation("border box grid is not a partition", &format!("{r:?} size {size}: cells hold {total} of {}", w * h), case.clone());
				}
				// geo round trip
				let g = b.as_geo_bbox();
				match TileBBox::from_geo(r.0, &g) {
					Ok(b2) if raw(&b2) == r => {}
					Ok(b2) => ctx.violation(&format!("tile box -> geo -> tile box is not the identity at z={}", r.0), &format!("{r:?} -> {g:?} -> {:?}", raw(&b2)), case.clone()),
					Err(e) => ctx.violation("tile box -> geo -> tile box fails", &format!("{r:?} -> {g:?}: {e}"), case.clone()),
				}
			});
			ctx.eval();
			ctx.nontrivial(fnv_str(&format!("{r:?}")));
			if let Err(p) = res {
				ctx.violation(&format!("border box op panics at {}", panic_site(&p)), &format!("{r:?}: {p}"), case.clone());
			}
		});
		if z == 16 {
			ctx.sample(json!({"border_boxes_at_level": z, "count": boxes.len(), "alphabet": al}));
		}
		ctx.outcome_n("border boxes checked", boxes.len() as u64);
	}
}

// ---------------------------------------------------------------------------------------------
// Part 2c: geo round trip for all boxes at low zoom; valid geographic boxes

fn part2_geo_roundtrip(ctx: &Arc<Ctx>) {
	let zmax = ctx.tier.pick(5u8, 6u8);
	for z in 0..=zmax {
		let n = 1u32 << z;
		let count = std::sync::atomic::AtomicU64::new(0);
		par_for(n as usize, |x0| {
			let x0 = x0 as u32;
			let r = catch(|| {
				for x1 in x0..n {
					for y0 in 0..n {
						for y1 in y0..n {
							let b = TileBBox::new(z, x0, y0, x1, y1).unwrap();
							let g = b.as_geo_bbox();
							match TileBBox::from_geo(z, &g) {
								Ok(b2) if b2 == b => {}
								Ok(b2) => ctx.violation(&format!("tile box -> geo -> tile box is not the identity at z={z}"), &format!("{:?} -> {g:?} -> {:?}", raw(&b), raw(&b2)), json!({"kind":"geo-roundtrip","state": raw(&b)})),
								Err(e) => ctx.violation("tile box -> geo -> tile box fails", &format!("{:?} -> {g:?}: {e}", raw(&b)), json!({"kind":"geo-roundtrip","state": raw(&b)})),
							}
							count.fetch_add(1, std::sync::atomic::Ordering::Relaxed);
						}
					}
				}
			});
			if let Err(p) = r {
				ctx.violation(&format!("geo round trip panics at {}", panic_site(&p)), &p, json!({"kind":"geo-roundtrip","level": z, "x0": x0}));
			}
		});
		let c = count.into_inner();
		ctx.evals(c);
		ctx.nontrivial_distinct(c);
		ctx.outcome_n(&format!("geo round trip: all boxes at z={z}"), c);
	}
}

/// Independent Web-Mercator projection (fractional tile coordinates).
pub fn tile_x(lon: f64, z: u8) -> f64 {
	(1u64 << z) as f64 * (lon / 360.0 + 0.5)
}
pub fn tile_y(lat: f64, z: u8) -> f64 {
	let n = (1u64 << z) as f64;
	let lat = lat.clamp(-89.999999, 89.999999);
	let s = (lat.to_radians() / 2.0 + std::f64::consts::FRAC_PI_4).tan().ln();
	(n * (0.5 - s / (2.0 * std::f64::consts::PI))).clamp(-1.0, n + 1.0)
}

pub const GUARD: f64 = 1.0e-6;

/// Selection model for one axis with the documented rounding guard as a don't-care band:
/// tiles must_lo..=must_hi are definitely inside (overlap the interval by more than the band;
/// empty if must_lo > must_hi), tiles outside may_lo..=may_hi are definitely outside.
#[derive(Debug, Clone, Copy)]
pub struct SelInterval {
	pub may_lo: i64,
	pub must_lo: i64,
	pub must_hi: i64,
	pub may_hi: i64,
}
pub fn sel_interval(t0: f64, t1: f64, z: u8, mercator: bool) -> SelInterval {
	let n = (1u64 << z) as f64;
	// guard + float slack of the projection at this zoom (tile coordinates carry ~n*2^-52 error;
	// the mercator latitude formula a few ulp more)
	let band = GUARD * 1.01 + n * if mercator { 4e-14 } else { 4e-15 };
	let last = (1i64 << z) - 1;
	let may_lo = ((t0 - 1.0 - band).ceil() as i64).clamp(0, last);
	let may_hi = ((t1 + band).floor() as i64).clamp(0, last);
	let must_lo = ((t0 - 1.0 + band).floor() as i64 + 1).max(0);
	let must_hi = ((t1 - band).ceil() as i64 - 1).min(last);
	SelInterval { may_lo, must_lo, must_hi, may_hi }
}

pub fn lon_alphabet() -> Vec<f64> {
	vec![-180.0, -179.9999999, -90.0000001, -90.0, -1e-7, 0.0, 1e-7, 22.5 - 1e-7, 22.5, 22.5 + 1e-7, 90.0, 179.9999999, 180.0]
}
pub fn lat_alphabet() -> Vec<f64> {
	vec![-90.0, -85.05112878, -85.0511, -66.51326044311186, -1e-7, 0.0, 1e-7, 40.97989806962013, 66.51326044311186, 85.0511, 85.05112878, 90.0]
}

fn check_geo_box(ctx: &Ctx, z: u8, g: [f64; 4], origin: &str) {
	let case = json!({"kind":"geo-box","level": z, "bbox": g});
	let gb = GeoBBox(g[0], g[1], g[2], g[3]);
	let res = catch(|| TileBBox::from_geo(z, &gb));
	ctx.eval();
	match res {
		Err(p) => ctx.violation(&format!("from_geo panics at {}", panic_site(&p)), &format!("z={z} {g:?}: {p}"), case),
		Ok(Err(e)) => {
			let degenerate = g[0] == g[2] || g[1] == g[3];
			ctx.violation(
				&format!("from_geo rejects a valid geographic box ({})", if degenerate { "zero-area box" } else { "sliver / small box" }),
				&format!("{origin}: from_geo(z={z}, {g:?}) = Err({e})"),
				case,
			)
		}
		Ok(Ok(b)) => {
			let n = (1u64 << z) as f64;
			if b.is_empty() {
				ctx.violation("from_geo yields an empty tile box for a valid geographic box", &format!("z={z} {g:?} -> {:?}", raw(&b)), case.clone());
				return;
			}
			let (tw, te) = (tile_x(g[0], z).clamp(0.0, n), tile_x(g[2], z).clamp(0.0, n));
			let (tn, ts) = (tile_y(g[3], z).clamp(0.0, n), tile_y(g[1], z).clamp(0.0, n));
			let ix = sel_interval(tw, te, z, false);
			let iy = sel_interval(tn, ts, z, true);
			for (axis, iv, lo, hi, t0, t1) in [("x", ix, b.x_min, b.x_max, tw, te), ("y", iy, b.y_min, b.y_max, tn, ts)] {
				if iv.must_lo <= iv.must_hi && ((lo as i64) > iv.must_lo || (hi as i64) < iv.must_hi) {
					ctx.violation(
						"from_geo tile box does not cover the geographic box (beyond the 1e-6 guard)",
						&format!("z={z} {g:?} -> {:?}; {axis}: projected {t0}..{t1}, tiles {}..={} must be inside", raw(&b), iv.must_lo, iv.must_hi),
						case.clone(),
					);
				}
				if (lo as i64) < iv.may_lo || (hi as i64) > iv.may_hi {
					ctx.violation(
						"from_geo tile box contains a row/column the geographic box does not touch",
						&format!("z={z} {g:?} -> {:?}; {axis}: projected {t0}..{t1}, only tiles {}..={} may be inside", raw(&b), iv.may_lo, iv.may_hi),
						case.clone(),
					);
				}
			}
		}
	}
}

fn part2_geo_boxes(ctx: &Arc<Ctx>) {
	let lons = lon_alphabet();
	let lats = lat_alphabet();
	let levels: Vec<u8> = ctx.tier.pick(vec![0, 1, 2, 4, 9, 16, 31], (0..=31).collect());
	let mut cases: Vec<(u8, [f64; 4])> = vec![];
	for &z in &levels {
		for (i, &w) in lons.iter().enumerate() {
			for &e in &lons[i..] {
				for (j, &s) in lats.iter().enumerate() {
					for &nn in &lats[j..] {
						cases.push((z, [w, s, e, nn]));
					}
				}
			}
		}
	}
	let n_alpha = cases.len();
	// zero-area boxes and slivers at every tile corner of z <= 5 (quick: 4)
	let zc = ctx.tier.pick(4u8, 5u8);
	for z in 0..=zc {
		let n = 1u32 << z;
		for x in 0..=n {
			for y in 0..=n {
				let c = TileCoord3 { x, y, z };
				let p = c.as_geo();
				let (lon, lat) = (p[0], p[1]);
				for zz in [z, z + 1, (z + 3).min(31)] {
					cases.push((zz, [lon, lat, lon, lat]));
					if lon + 1e-9 <= 180.0 && lat + 1e-9 <= 90.0 {
						cases.push((zz, [lon, lat, lon + 1e-9, lat + 1e-9]));
					}
					if lon - 1e-9 >= -180.0 && lat - 1e-9 >= -90.0 {
						cases.push((zz, [lon - 1e-9, lat - 1e-9, lon, lat]));
					}
				}
			}
		}
	}
	let cases_ref = &cases;
	par_for(cases.len(), |i| {
		let (z, g) = cases_ref[i];
		check_geo_box(ctx, z, g, if i < n_alpha { "alphabet box" } else { "tile-corner box" });
	});
	ctx.nontrivial_distinct((cases.len() - n_alpha) as u64);
	ctx.outcome_n("valid geographic boxes from the lon/lat alphabet", n_alpha as u64);
	ctx.outcome_n("zero-area / sliver boxes at tile corners", (cases.len() - n_alpha) as u64);
	ctx.sample(json!({"geo_box_case": {"level": cases[n_alpha].0, "bbox": cases[n_alpha].1}}));
	// invalid boxes must be rejected
	for g in [[10.0, 0.0, 5.0, 1.0], [0.0, 10.0, 1.0, 5.0], [-181.0, 0.0, 0.0, 1.0], [0.0, 0.0, 181.0, 1.0], [0.0, -91.0, 1.0, 0.0], [0.0, 0.0, 1.0, 91.0], [f64::NAN, 0.0, 1.0, 1.0]] {
		let r = catch(|| TileBBox::from_geo(3, &GeoBBox(g[0], g[1], g[2], g[3])));
		match r {
			Ok(Err(_)) => {}
			Ok(Ok(b)) => {
				if !g[0].is_nan() {
					ctx.violation("from_geo accepts an invalid geographic box", &format!("{g:?} -> {:?}", raw(&b)), json!({"kind":"geo-box","level":3,"bbox":g.iter().map(|v| if v.is_nan() { json!("nan") } else { json!(v) }).collect::<Vec<_>>()}))
				}
			}
			Err(p) => ctx.violation(&format!("from_geo panics at {}", panic_site(&p)), &format!("{g:?}: {p}"), json!({"kind":"geo-box-invalid"})),
		}
	}
}

pub fn run(ctx: Arc<Ctx>) {
	ctx.rule(
		"part 1: stateright BFS to closure over raw TileBBox field tuples per level (all new/new_full/new_empty boxes as initial states and arguments, plus fixpoint over reachable x reachable arguments), \
		 set model = u64 bit mask; every state: queries; every ordered pair: intersect/union/overlaps. part 2: pyramids over per-level alphabets (all combinations, levels 0..3), border boxes at high zoom (interval model), \
		 all boxes z<=5/6 geo round trip, geographic boxes from a lon/lat alphabet + zero-area boxes at all tile corners. non-trivial = distinct raw states / boxes / corner cases",
	);
	ctx.assume("the set denoted by raw fields is {(x,y) | x_min<=x<=x_max, y_min<=y<=y_max} within the level; both empty encodings and half-empty boxes denote the empty set");
	let zmax = 3u8;
	part1_closure(&ctx, zmax);
	part2_pyramids(&ctx);
	part2_border(&ctx);
	part2_geo_roundtrip(&ctx);
	part2_geo_boxes(&ctx);
	ctx.extra("closure_levels", json!((0..=zmax).collect::<Vec<u8>>()));
	ctx.exhaustive(true);
}

pub fn replay(ctx: Arc<Ctx>, case: &Value) {
	for _ in 0..2 {
		match case["kind"].as_str().unwrap_or("") {
			"bbox-transition" => {
				let r: Raw = serde_json::from_value(case["state"].clone()).unwrap();
				let a: Act = serde_json::from_value(case["action"].clone()).unwrap();
				let n = apply(&ctx, r, &a);
				println!("  {r:?} --{a:?}--> {n:?}");
			}
			"bbox-state" | "border-box" | "geo-roundtrip" => {
				let r: Raw = serde_json::from_value(case["state"].clone()).unwrap();
				if r.0 <= 3 {
					check_state(&ctx, r);
				}
				let b = from_raw(r);
				if !b.is_empty() {
					let g = b.as_geo_bbox();
					let back = TileBBox::from_geo(r.0, &g).map(|b| raw(&b)).map_err(|e| e.to_string());
					println!("  {r:?} as_geo_bbox {g:?} -> from_geo {back:?}");
					match back {
						Ok(b2) if b2 == r => {}
						Ok(b2) => ctx.violation(&format!("tile box -> geo -> tile box is not the identity at z={}", r.0), &format!("{r:?} -> {g:?} -> {b2:?}"), case.clone()),
						Err(e) => ctx.violation("tile box -> geo -> tile box fails", &format!("{r:?} -> {g:?}: {e}"), case.clone()),
					}
					println!("  count_tiles={} index(x_max,y_max)={:?}", b.count_tiles(), catch(|| b.get_tile_index2(&TileCoord2::new(r.3, r.4)).map_err(|e| e.to_string())));
				}
			}
			"bbox-pair" => {
				let a: Raw = serde_json::from_value(case["a"].clone()).unwrap();
				let b: Raw = serde_json::from_value(case["b"].clone()).unwrap();
				check_pair(&ctx, a, b);
			}
			"geo-box" => {
				let z = case["level"].as_u64().unwrap() as u8;
				let g: Vec<f64> = case["bbox"].as_array().unwrap().iter().map(|v| v.as_f64().unwrap_or(f64::NAN)).collect();
				println!("  from_geo(z={z}, {g:?}) = {:?}", catch(|| TileBBox::from_geo(z, &GeoBBox(g[0], g[1], g[2], g[3])).map(|b| raw(&b)).map_err(|e| e.to_string())));
				check_geo_box(&ctx, z, [g[0], g[1], g[2], g[3]], "replay");
			}
			k => {
				println!("  replay of case kind '{k}' re-runs the whole part; use ./check C15 quick");
			}
		}
	}
}
