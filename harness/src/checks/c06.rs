//! C06 — conversion selects and relocates tiles exactly as the options say.

use super::c15::{lat_alphabet, lon_alphabet, sel_interval, tile_x, tile_y};
use crate::codec;
use crate::containers::{self as ct, Cont};
use crate::ctx::{fnv_str, Ctx, Tier};
use crate::memsource::{Key, MemSource, TileMap};
use crate::par::{catch, panic_site, par_for};
use serde_json::{json, Value};
use std::collections::BTreeMap;
use std::sync::Arc;
use versatiles_container::{TilesConvertReader, TilesConverterParameters};
use versatiles_core::types::*;

fn payload(k: Key) -> Vec<u8> {
	format!("src {}/{}/{}", k.0, k.1, k.2).into_bytes()
}

#[derive(Clone, Debug)]
pub struct Opts {
	pub flip: bool,
	pub swap: bool,
	pub zoom: Option<(Option<u8>, Option<u8>)>,
	pub bbox: Option<[f64; 4]>,
	pub border: Option<u32>,
}

/// forward transform: flip applied first, then swap
fn t_fwd(k: Key, o: &Opts) -> Key {
	let (z, mut x, mut y) = k;
	if o.flip {
		y = ((1u64 << z) - 1 - y as u64) as u32;
	}
	if o.swap {
		std::mem::swap(&mut x, &mut y);
	}
	(z, x, y)
}

/// Some(true) definitely selected, Some(false) definitely not, None = inside the rounding guard
fn selected(k: Key, o: &Opts) -> Option<bool> {
	if let Some((a, b)) = o.zoom {
		if a.is_some_and(|a| k.0 < a) || b.is_some_and(|b| k.0 > b) {
			return Some(false);
		}
	}
	let Some(g) = o.bbox else { return Some(true) };
	let n = (1u64 << k.0) as f64;
	let border = o.border.unwrap_or(0) as i64;
	let last = (1i64 << k.0) - 1;
	let ix = sel_interval(tile_x(g[0], k.0).clamp(0.0, n), tile_x(g[2], k.0).clamp(0.0, n), k.0, false);
	let iy = sel_interval(tile_y(g[3], k.0).clamp(0.0, n), tile_y(g[1], k.0).clamp(0.0, n), k.0, true);
	let mut res = Some(true);
	for (iv, v) in [(ix, k.1 as i64), (iy, k.2 as i64)] {
		let (may_lo, may_hi) = ((iv.may_lo - border).max(0), (iv.may_hi + border).min(last));
		if v < may_lo || v > may_hi {
			return Some(false);
		}
		// definitely inside: inside the must interval widened by the border (an empty must interval is widened
		// from the may interval's inner edge, which is not determined -> don't care)
		if iv.must_lo <= iv.must_hi {
			let (must_lo, must_hi) = ((iv.must_lo - border).max(0), (iv.must_hi + border).min(last));
			if !(v >= must_lo && v <= must_hi) {
				res = None;
			}
		} else {
			res = None;
		}
	}
	res
}

fn source_sets() -> Vec<(&'static str, TileMap)> {
	let mut full = TileMap::new();
	for z in 0..=3u8 {
		for x in 0..(1u32 << z) {
			for y in 0..(1u32 << z) {
				full.insert((z, x, y), payload((z, x, y)));
			}
		}
	}
	let mut sparse = TileMap::new();
	for k in [(0u8, 0u32, 0u32), (1, 1, 0), (2, 0, 3), (2, 3, 1), (3, 1, 0), (3, 6, 5), (3, 7, 7), (3, 0, 7), (4, 9, 3), (4, 15, 0)] {
		sparse.insert(k, payload(k));
	}
	vec![("full pyramid z0..3", full), ("sparse asymmetric set z0..4", sparse)]
}

fn pyramid_for(o: &Opts) -> Option<TileBBoxPyramid> {
	// the same construction the CLI documents: full pyramid, zoom limits, geographic box, border
	if o.zoom.is_none() && o.bbox.is_none() {
		return None;
	}
	let mut p = TileBBoxPyramid::new_full(31);
	if let Some((a, b)) = o.zoom {
		if let Some(a) = a {
			p.set_zoom_min(a);
		}
		if let Some(b) = b {
			p.set_zoom_max(b);
		}
	}
	if let Some(g) = o.bbox {
		p.intersect_geo_bbox(&GeoBBox(g[0], g[1], g[2], g[3]));
		if let Some(b) = o.border {
			p.add_border(b, b, b, b);
		}
	}
	Some(p)
}

fn all_coords() -> Vec<Key> {
	let mut v = vec![];
	for z in 0..=4u8 {
		for x in 0..(1u32 << z) {
			for y in 0..(1u32 << z) {
				v.push((z, x, y));
			}
		}
	}
	v
}

fn check_config(ctx: &Ctx, rt: &tokio::runtime::Runtime, sname: &str, tiles: &TileMap, o: &Opts, with_conversion: bool, work: &std::path::Path, tag: &str) {
	check_config_src(ctx, rt, sname, tiles, o, with_conversion, work, tag, None)
}

/// `open_src`: the source as a real container file (None = an in-memory source holding `tiles`)
#[allow(clippy::too_many_arguments)]
fn check_config_src(ctx: &Ctx, rt: &tokio::runtime::Runtime, sname: &str, tiles: &TileMap, o: &Opts, with_conversion: bool, work: &std::path::Path, tag: &str, open_src: Option<&(dyn Fn() -> Option<Box<dyn TilesReaderTrait>> + Sync)>) {
	let case = json!({"source": sname, "flip_y": o.flip, "swap_xy": o.swap, "zoom": o.zoom.map(|z| json!([z.0, z.1])), "bbox": o.bbox, "border": o.border});
	let label = format!("{sname}, {o:?}");
	ctx.eval();
	let pyramid = match catch(|| pyramid_for(o)) {
		Ok(p) => p,
		Err(p) => {
			ctx.violation(&format!("selection pyramid construction panics at {}", panic_site(&p)), &format!("{label}: {p}"), case);
			return;
		}
	};
	let mut cp = TilesConverterParameters::new_default();
	cp.flip_y = o.flip;
	cp.swap_xy = o.swap;
	cp.bbox_pyramid = pyramid;
	let src: Box<dyn TilesReaderTrait> = match open_src {
		Some(f) => match f() {
			Some(r) => r,
			None => {
				ctx.violation("source container cannot be opened", &label, case);
				return;
			}
		},
		None => Box::new(MemSource::new("m", tiles.clone(), TileFormat::BIN, TileCompression::Uncompressed)),
	};
	let mut conv = match TilesConvertReader::new_from_reader(src, cp) {
		Ok(c) => c,
		Err(e) => {
			ctx.violation("converting reader cannot be built", &format!("{label}: {e}"), case);
			return;
		}
	};
	// expected output
	let mut must: BTreeMap<Key, Vec<u8>> = BTreeMap::new();
	let mut may: BTreeMap<Key, Vec<u8>> = BTreeMap::new();
	for (k, v) in tiles {
		let c = t_fwd(*k, o);
		match selected(c, o) {
			Some(true) => {
				must.insert(c, v.clone());
				may.insert(c, v.clone());
			}
			None => {
				may.insert(c, v.clone());
			}
			Some(false) => {}
		}
	}
	let full_source = sname.starts_with("full");
	let judge = |got: &BTreeMap<Key, Vec<u8>>, path: &str| {
		// a non-empty closed geographic box meets at least one tile of every level: over a source that has
		// every tile, each level inside the zoom limits keeps at least one (which neighbour of an edge is free)
		if full_source {
			let levels: std::collections::BTreeSet<u8> = may.keys().map(|k| k.0).collect();
			for z in levels {
				if !got.keys().any(|k| k.0 == z) {
					ctx.violation(&format!("{path}: a valid geographic box selects no tile at all on a level inside the zoom limits"), &format!("{label}: level {z} is empty, candidates {:?}", may.keys().filter(|k| k.0 == z).take(4).collect::<Vec<_>>()), case.clone());
				}
			}
		}
		for (c, v) in &must {
			match got.get(c) {
				None => ctx.violation(&format!("{path}: a selected tile is missing"), &format!("{label}: no tile at {c:?} although the source has {:?} and it is selected", String::from_utf8_lossy(v)), case.clone()),
				Some(g) if g != v => ctx.violation(&format!("{path}: a tile carries another source tile's payload"), &format!("{label}: {c:?} holds {:?}, expected {:?}", String::from_utf8_lossy(g), String::from_utf8_lossy(v)), case.clone()),
				_ => {}
			}
		}
		for (c, g) in got {
			match may.get(c) {
				None => ctx.violation(&format!("{path}: a tile outside the selection (or without source tile at the pre-image) is present"), &format!("{label}: {c:?} holds {:?}", String::from_utf8_lossy(g)), case.clone()),
				Some(v) if g != v => ctx.violation(&format!("{path}: a tile carries another source tile's payload"), &format!("{label}: {c:?} holds {:?}, expected {:?}", String::from_utf8_lossy(g), String::from_utf8_lossy(v)), case.clone()),
				_ => {}
			}
		}
	};
	// lookups over all coordinates z <= 4
	let mut looked: BTreeMap<Key, Vec<u8>> = BTreeMap::new();
	let advertised = conv.get_parameters().bbox_pyramid.clone();
	for k in all_coords() {
		match catch(|| rt.block_on(conv.get_tile_data(&TileCoord3 { x: k.1, y: k.2, z: k.0 }))) {
			Ok(Ok(Some(b))) => {
				looked.insert(k, b.into_vec());
			}
			Ok(Ok(None)) => {}
			Ok(Err(e)) => ctx.violation("converting reader lookup fails", &format!("{label} {k:?}: {e}"), case.clone()),
			Err(p) => ctx.violation(&format!("converting reader lookup panics at {}", panic_site(&p)), &format!("{label} {k:?}: {p}"), case.clone()),
		}
	}
	judge(&looked, "lookups of the converting reader");
	for k in looked.keys() {
		if !advertised.contains_coord(&TileCoord3 { x: k.1, y: k.2, z: k.0 }) {
			ctx.violation("converting reader returns a tile by lookup outside its advertised coverage", &format!("{label}: lookup {k:?} returns a tile, advertised level box {:?}", advertised.get_level_bbox(k.0)), case.clone());
			break;
		}
	}
	// streams over the advertised levels
	let mut streamed: BTreeMap<Key, Vec<u8>> = BTreeMap::new();
	for b in advertised.iter_levels() {
		if b.level > 6 {
			continue;
		}
		match catch(|| crate::memsource::stream(rt, &conv, b.clone())) {
			Ok(v) => {
				for (k, d) in v {
					if streamed.insert(k, d).is_some() {
						ctx.violation("converting reader stream delivers a coordinate twice", &format!("{label} {k:?}"), case.clone());
					}
				}
			}
			Err(p) => ctx.violation(&format!("converting reader stream panics at {}", panic_site(&p)), &format!("{label} box {b:?}: {p}"), case.clone()),
		}
	}
	judge(&streamed, "streams of the converting reader");
	let inside: BTreeMap<Key, Vec<u8>> = looked.iter().filter(|(k, _)| advertised.contains_coord(&TileCoord3 { x: k.1, y: k.2, z: k.0 })).map(|(k, v)| (*k, v.clone())).collect();
	if inside != streamed {
		ctx.violation("lookup and stream paths of the converting reader disagree inside the advertised coverage", &format!("{label}: lookups {:?}.. streams {:?}..", inside.keys().take(5).collect::<Vec<_>>(), streamed.keys().take(5).collect::<Vec<_>>()), case.clone());
	}
	// the conversion itself (walks the advertised coverage and writes a container)
	if with_conversion && !must.is_empty() {
		match ct::write(rt, Cont::Versatiles, &mut conv, work, tag) {
			Ok(ct::Written::Bytes(b)) => match codec::vt_decode(&b) {
				Ok(d) => {
					judge(&d.tiles, "converted container");
					ctx.trace(1);
				}
				Err(e) => ctx.violation("converted container does not decode", &format!("{label}: {e}"), case.clone()),
			},
			Ok(_) => {}
			Err(e) => ctx.violation(&format!("conversion fails: {}", super::c01::norm_msg(&e)), &format!("{label}: {e}"), case.clone()),
		}
	}
	if o.flip || o.swap || o.bbox.is_some() {
		ctx.nontrivial(fnv_str(&format!("{label}")));
	}
}

fn cli_part(ctx: &Arc<Ctx>) {
	let bin = super::http::versatiles_bin();
	if !bin.exists() {
		eprintln!("MACHINERY: versatiles binary not found at {bin:?}");
		std::process::exit(2);
	}
	let work = ct::WorkDir::new("c06cli");
	let rt = crate::memsource::runtime(1);
	let (_, tiles) = &source_sets()[1];
	let mut src = MemSource::new("m", tiles.clone(), TileFormat::BIN, TileCompression::Uncompressed);
	let w = ct::write(&rt, Cont::Versatiles, &mut src, &work.0, "in").expect("input container");
	if let ct::Written::Bytes(b) = w {
		std::fs::write(work.0.join("in.versatiles"), b).unwrap();
	}
	let mut runs: Vec<(Vec<String>, Opts)> = vec![];
	let boxes: Vec<Option<[f64; 4]>> = vec![None, Some([-180.0, -85.0, 0.0, 85.0]), Some([0.0, 0.0, 180.0, 66.51326044311186]), Some([22.5, 10.0, 22.5, 10.0])];
	for flags in 0..4u8 {
		for zoom in [None, Some((Some(1u8), Some(3u8))), Some((None, Some(2))), Some((Some(3), None))] {
			for (bi, bbox) in boxes.iter().enumerate() {
				if ctx.tier == Tier::Quick && (flags as usize + bi + zoom.map(|z| z.0.unwrap_or(0) as usize).unwrap_or(7)) % 3 != 0 {
					continue;
				}
				for border in [None, Some(1u32)] {
					if border.is_some() && bbox.is_none() {
						continue;
					}
					let o = Opts { flip: flags & 1 != 0, swap: flags & 2 != 0, zoom, bbox: *bbox, border };
					let mut a: Vec<String> = vec![];
					if o.flip {
						a.push("--flip-y".into());
					}
					if o.swap {
						a.push("--swap-xy".into());
					}
					if let Some((mi, ma)) = zoom {
						if let Some(v) = mi {
							a.push(format!("--min-zoom={v}"));
						}
						if let Some(v) = ma {
							a.push(format!("--max-zoom={v}"));
						}
					}
					if let Some(g) = bbox {
						a.push(format!("--bbox={},{},{},{}", g[0], g[1], g[2], g[3]));
					}
					if let Some(b) = border {
						a.push(format!("--bbox-border={b}"));
					}
					runs.push((a, o));
				}
			}
		}
	}
	let (ctxr, rr, wpath): (&Ctx, _, _) = (ctx, &runs, work.0.clone());
	par_for(runs.len(), |i| {
		let (args, o) = &rr[i];
		let out = format!("out{i}.versatiles");
		ctxr.eval();
		let case = json!({"kind": "cli", "args": args});
		let r = std::process::Command::new(&bin).current_dir(&wpath).arg("convert").args(args).arg("in.versatiles").arg(&out).output();
		let label = format!("versatiles convert {}", args.join(" "));
		let Ok(r) = r else {
			ctxr.violation("the convert command cannot be started", &label, case);
			return;
		};
		let mut must = BTreeMap::new();
		let mut may = BTreeMap::new();
		for (k, v) in tiles {
			let c = t_fwd(*k, o);
			match selected(c, o) {
				Some(true) => {
					must.insert(c, v.clone());
					may.insert(c, v.clone());
				}
				None => {
					may.insert(c, v.clone());
				}
				_ => {}
			}
		}
		if !r.status.success() {
			if !must.is_empty() {
				ctxr.violation("the convert command fails although tiles are selected", &format!("{label}: {}", String::from_utf8_lossy(&r.stderr).lines().last().unwrap_or("")), case);
			}
			return;
		}
		ctxr.trace(1);
		match std::fs::read(wpath.join(&out)).map_err(|e| e.to_string()).and_then(|b| codec::vt_decode(&b)) {
			Err(e) => {
				if !must.is_empty() {
					ctxr.violation("the convert command's output cannot be decoded", &format!("{label}: {e}"), case)
				}
			}
			Ok(d) => {
				for (c, v) in &must {
					if d.tiles.get(c) != Some(v) {
						ctxr.violation("CLI conversion: a selected tile is missing or carries another payload", &format!("{label}: {c:?} = {:?}, expected {:?}", d.tiles.get(c).map(|b| String::from_utf8_lossy(b).to_string()), String::from_utf8_lossy(v)), case.clone());
					}
				}
				for (c, g) in &d.tiles {
					if may.get(c) != Some(g) {
						ctxr.violation("CLI conversion: a tile outside the selection or with another payload is present", &format!("{label}: {c:?} = {:?}", String::from_utf8_lossy(g)), case.clone());
					}
				}
			}
		}
		let _ = std::fs::remove_file(wpath.join(&out));
	});
	ctx.outcome_n("CLI convert runs", runs.len() as u64);
	// a second conversion into a file that already holds the result of an earlier one with another selection: the
	// file then holds the second selection (directories merge by design of the writer: a recorded C01 finding)
	for ext in ["versatiles", "pmtiles", "tar", "mbtiles"] {
		let out = format!("again.{ext}");
		let src_name = if ext == "mbtiles" { "in_png.versatiles" } else { "in.versatiles" };
		if ext == "mbtiles" {
			let mut psrc = MemSource::new("m", tiles.clone(), TileFormat::PNG, TileCompression::Uncompressed);
			if let Ok(ct::Written::Bytes(b)) = ct::write(&rt, Cont::Versatiles, &mut psrc, &work.0, "in_png") {
				std::fs::write(work.0.join("in_png.versatiles"), b).unwrap();
			}
		}
		let first = std::process::Command::new(&bin).current_dir(&work.0).arg("convert").arg(src_name).arg(&out).output();
		let second = std::process::Command::new(&bin).current_dir(&work.0).arg("convert").args(["--max-zoom=1", "--flip-y"]).arg(src_name).arg(&out).output();
		ctx.eval();
		let case = json!({"kind": "cli-again", "target": ext});
		let (Ok(a), Ok(b)) = (first, second) else { continue };
		if !a.status.success() || !b.status.success() {
			ctx.violation("the convert command fails", &format!("two conversions into {out}: {}", String::from_utf8_lossy(if a.status.success() { &b.stderr } else { &a.stderr }).lines().last().unwrap_or("")), case);
			continue;
		}
		let o = Opts { flip: true, swap: false, zoom: Some((None, Some(1))), bbox: None, border: None };
		let want: BTreeMap<Key, Vec<u8>> = tiles.iter().filter_map(|(k, v)| { let c = t_fwd(*k, &o); (selected(c, &o) == Some(true)).then(|| (c, v.clone())) }).collect();
		let path = work.0.join(&out);
		let cont = match ext { "versatiles" => Cont::Versatiles, "pmtiles" => Cont::Pmtiles, "tar" => Cont::Tar, _ => Cont::Mbtiles };
		let w = if matches!(cont, Cont::Versatiles | Cont::Pmtiles) { ct::Written::Bytes(std::fs::read(&path).unwrap_or_default()) } else { ct::Written::Path(path.clone()) };
		match ct::independent_decode(cont, &w) {
			Err(e) => ctx.violation("the convert command's output cannot be decoded", &format!("second conversion into {out}: {e}"), case),
			Ok(d) => {
				let got: BTreeMap<Key, Vec<u8>> = d.tiles.iter().map(|(k, v)| (*k, v.clone())).collect();
				if got != want {
					let extra: Vec<&Key> = got.keys().filter(|k| !want.contains_key(*k)).take(5).collect();
					let missing: Vec<&Key> = want.keys().filter(|k| !got.contains_key(*k)).take(5).collect();
					ctx.violation("CLI conversion: a tile outside the selection or with another payload is present", &format!("second conversion (--max-zoom=1 --flip-y) into {out}, which held an unrestricted conversion: tiles outside the selection {extra:?}, missing {missing:?}"), case);
				}
			}
		}
		let _ = std::fs::remove_file(&path);
	}
	// server with the same transform flags exposes the same mapping as the conversion
	let probes: Vec<Key> = all_coords().into_iter().filter(|k| k.0 <= 4 && (k.0 <= 3 || (k.1 % 3 == 0 && k.2 % 3 == 0) || tiles.keys().any(|t| t_fwd(*t, &Opts { flip: true, swap: true, zoom: None, bbox: None, border: None }) == *k || t_fwd(*t, &Opts { flip: true, swap: false, zoom: None, bbox: None, border: None }) == *k || t_fwd(*t, &Opts { flip: false, swap: true, zoom: None, bbox: None, border: None }) == *k))).collect();
	for flags in 0..4u8 {
		let o = Opts { flip: flags & 1 != 0, swap: flags & 2 != 0, zoom: None, bbox: None, border: None };
		let mut f: Vec<&str> = vec![];
		if o.flip {
			f.push("--flip-y");
		}
		if o.swap {
			f.push("--swap-xy");
		}
		match super::http::server_mapping(&work.0, "in.versatiles", &f, &probes, &format!("c06-{flags}")) {
			Err(e) => {
				eprintln!("MACHINERY: server for C06: {e}");
				std::process::exit(2);
			}
			Ok(replies) => {
				let expect: BTreeMap<Key, Vec<u8>> = tiles.iter().map(|(k, v)| (t_fwd(*k, &o), v.clone())).collect();
				for (k, r) in replies {
					ctx.eval();
					let case = json!({"kind": "server", "flags": f, "coord": k});
					match r {
						super::http::Reply::Dropped(why) => ctx.violation("server with transform flags drops the connection", &format!("serve {f:?} GET {k:?}: {why}"), case),
						super::http::Reply::Response(resp) => {
							let body = super::http::decode(&resp).unwrap_or_default();
							match (expect.get(&k), resp.status) {
								(Some(v), 200) if &body == v => {}
								(None, 404) => {}
								(e, s) => ctx.violation("server with transform flags exposes another coordinate mapping than the conversion", &format!("serve {f:?} GET {k:?}: status {s} body {:?}, conversion has {:?}", String::from_utf8_lossy(&body), e.map(|v| String::from_utf8_lossy(v).to_string())), case),
							}
						}
					}
				}
				ctx.trace(1);
			}
		}
		// the same for a source whose tiles lie on the two deepest levels (zoom 30 and 31 are ordinary levels for every
		// container and for a conversion)
		{
			let m = (1u32 << 31) - 1;
			let mut deep = TileMap::new();
			// (tiles of one level close together: the versatiles writer walks every 256-block of a level's bounding box)
			for k in [(31u8, m, m - 1), (31, m - 3, m), (30, 5, 7), (30, 2, 6), (0, 0, 0)] {
				deep.insert(k, format!("deep {}/{}/{}", k.0, k.1, k.2).into_bytes());
			}
			if flags == 0 {
				let mut dsrc = MemSource::new("m", deep.clone(), TileFormat::BIN, TileCompression::Uncompressed);
				if let Ok(ct::Written::Bytes(b)) = ct::write(&rt, Cont::Versatiles, &mut dsrc, &work.0, "in31") {
					std::fs::write(work.0.join("in31.versatiles"), b).unwrap();
				}
			}
			let expect: BTreeMap<Key, Vec<u8>> = deep.iter().map(|(k, v)| (t_fwd(*k, &o), v.clone())).collect();
			let mut dprobes: Vec<Key> = expect.keys().copied().collect();
			dprobes.extend(deep.keys().copied());
			dprobes.extend([(31, 0, 0), (31, m, m), (30, 7, 5), (31, 0, 3)]);
			dprobes.sort();
			dprobes.dedup();
			match super::http::server_mapping(&work.0, "in31.versatiles", &f, &dprobes, &format!("c06-deep-{flags}")) {
				Err(e) => {
					eprintln!("MACHINERY: server for C06 (deep levels): {e}");
					std::process::exit(2);
				}
				Ok(replies) => {
					for (k, r) in replies {
						ctx.eval();
						let case = json!({"kind": "server-deep", "flags": f, "coord": k});
						match r {
							super::http::Reply::Dropped(why) => ctx.violation("server with transform flags drops the connection", &format!("serve {f:?} GET {k:?}: {why}"), case),
							super::http::Reply::Response(resp) => {
								let body = super::http::decode(&resp).unwrap_or_default();
								match (expect.get(&k), resp.status) {
									(Some(v), 200) if &body == v => {}
									(None, 404) => {}
									(e, s) => ctx.violation("server with transform flags exposes another coordinate mapping than the conversion", &format!("serve {f:?} GET {k:?} (levels 30/31): status {s} body {:?}, conversion has {:?}", String::from_utf8_lossy(&body), e.map(|v| String::from_utf8_lossy(v).to_string())), case),
								}
							}
						}
					}
					ctx.trace(1);
				}
			}
		}
	}
	drop(work);
}

/// Boxes whose edges are tile boundaries (the geographic box of a tile box, as the library itself reports it): the
/// selection is exact at every level - the same tile box at its own level, its children below, the covering
/// parents above (integer arithmetic, no rounding guard involved).
fn part_aligned(ctx: &Arc<Ctx>) {
	let full = &source_sets()[0].1;
	let mut boxes: Vec<(u8, u32, u32, u32, u32)> = vec![];
	for z in 1..=5u8 {
		let n = 1u32 << z;
		let vals: Vec<u32> = if z <= 3 { (0..n).collect() } else { vec![0, 1, n / 2 - 1, n / 2, n / 2 + 1, n - 2, n - 1, 3, n / 4, 3 * n / 4 - 1] };
		for &x0 in &vals {
			for &x1 in &vals {
				for &y0 in &vals {
					for &y1 in &vals {
						if x0 <= x1 && y0 <= y1 && (z <= 2 || (x0 + x1 + y0 + y1) % ctx.tier.pick(5, 1) == 0) {
							boxes.push((z, x0, y0, x1, y1));
						}
					}
				}
			}
		}
	}
	boxes.sort();
	boxes.dedup();
	let (ctxr, br): (&Ctx, _) = (ctx, &boxes);
	par_for(boxes.len(), |bi| {
		let (z, x0, y0, x1, y1) = br[bi];
		let tb = TileBBox::new(z, x0, y0, x1, y1).unwrap();
		let g = tb.as_geo_bbox();
		let o = Opts { flip: false, swap: false, zoom: None, bbox: Some([g.0, g.1, g.2, g.3]), border: None };
		let case = json!({"kind": "aligned", "tile_box": [z, x0, y0, x1, y1], "bbox": o.bbox});
		ctxr.eval();
		ctxr.transition(1);
		let p = match catch(|| pyramid_for(&o)) {
			Ok(Some(p)) => p,
			Ok(None) => return,
			Err(pn) => return ctxr.violation(&format!("selection pyramid construction panics at {}", panic_site(&pn)), &format!("tile box {:?}: {pn}", br[bi]), case),
		};
		// expected per level, exact
		let expect = |lv: u8| -> (u32, u32, u32, u32) {
			if lv >= z {
				let s = lv - z;
				(x0 << s, y0 << s, ((x1 + 1) << s) - 1, ((y1 + 1) << s) - 1)
			} else {
				let s = z - lv;
				(x0 >> s, y0 >> s, x1 >> s, y1 >> s)
			}
		};
		for lv in 0..=7u8 {
			let b = p.get_level_bbox(lv);
			let got = if b.is_empty() { None } else { Some((b.x_min, b.y_min, b.x_max, b.y_max)) };
			if got != Some(expect(lv)) {
				ctxr.violation("a box with tile-aligned edges does not select exactly the tiles it names", &format!("tile box {:?} as geographic box {:?}: level {lv} selects {got:?}, expected {:?}", br[bi], o.bbox.unwrap(), expect(lv)), case.clone());
				break;
			}
		}
		// through the converting reader (every 7th box): lookups over the source's coordinates
		if bi % 7 == 0 {
			let rt = tokio::runtime::Builder::new_current_thread().build().unwrap();
			let mut cp = TilesConverterParameters::new_default();
			cp.bbox_pyramid = Some(p);
			let src = MemSource::new("full", full.clone(), TileFormat::BIN, TileCompression::Uncompressed);
			if let Ok(conv) = TilesConvertReader::new_from_reader(Box::new(src), cp) {
				for k in full.keys() {
					let e = expect(k.0);
					let want = k.1 >= e.0 && k.1 <= e.2 && k.2 >= e.1 && k.2 <= e.3;
					let got = catch(|| rt.block_on(conv.get_tile_data(&TileCoord3 { x: k.1, y: k.2, z: k.0 }))).ok().and_then(|r| r.ok()).flatten().is_some();
					if got != want {
						ctxr.violation("a box with tile-aligned edges does not select exactly the tiles it names", &format!("tile box {:?}: converting reader {} {k:?}", br[bi], if got { "returns" } else { "lacks" }), case.clone());
						break;
					}
				}
			}
		}
		ctxr.nontrivial(fnv_str(&format!("aligned{:?}", br[bi])));
	});
	ctx.outcome_n("tile-aligned boxes", boxes.len() as u64);
}

/// Sources that are real container files of every format (written by the repository's writers): an irregular set
/// (diamond / peninsula shaped levels, zoom gap) in which a third of the tiles share one payload.
fn part_file_sources(ctx: &Arc<Ctx>, work: &std::path::Path) {
	let mut tiles = TileMap::new();
	for (z, pts) in [(1u8, vec![(0u32, 0u32), (1, 1)]), (3, vec![(1, 2), (2, 1), (2, 2), (2, 3), (3, 2), (2, 7), (5, 0), (5, 3), (6, 6)]), (4, vec![(3, 2), (4, 1), (4, 2), (4, 3), (5, 2), (5, 15), (6, 2), (7, 2), (8, 2), (9, 0), (9, 9), (12, 3), (2, 7)])] {
		for (x, y) in pts {
			tiles.insert((z, x, y), if (x + 2 * y) % 3 == 0 { b"ocean".to_vec() } else { payload((z, x, y)) });
		}
	}
	// overview tiles far away from everything the deeper levels cover (a world-wide overview above a regional extract)
	for k in [(2u8, 3u32, 0u32), (3, 7, 0), (1, 1, 0)] {
		tiles.insert(k, payload(k));
	}
	let rt0 = crate::memsource::runtime(2);
	let mut files = vec![];
	for cont in ct::ALL_CONT {
		let mut src = MemSource::new("m", tiles.clone(), TileFormat::PNG, TileCompression::Uncompressed);
		match ct::write(&rt0, cont, &mut src, work, &format!("fsrc_{}", cont.name())) {
			Ok(w) => files.push((cont, w)),
			Err(e) => {
				eprintln!("MACHINERY: cannot write the {} source container: {e}", cont.name());
				std::process::exit(2);
			}
		}
	}
	let boxes: Vec<Option<[f64; 4]>> = vec![None, Some([-100.0, -60.0, 120.0, 70.0]), Some([-90.0, -66.51326044311186, 90.0, 66.51326044311186]), Some([-180.0, -85.0, 0.0, 0.0])];
	let mut cfgs = vec![];
	for fi in 0..files.len() {
		for flags in 0..4u8 {
			for (bi, b) in boxes.iter().enumerate() {
				for zoom in [None, Some((Some(3u8), Some(4u8)))] {
					if zoom.is_some() && bi % 2 == 1 {
						continue;
					}
					cfgs.push((fi, Opts { flip: flags & 1 != 0, swap: flags & 2 != 0, zoom, bbox: *b, border: if bi == 1 { Some(1) } else { None } }));
				}
			}
		}
	}
	let (ctxr, cr, fr, tr): (&Ctx, _, _, _) = (ctx, &cfgs, &files, &tiles);
	par_for(cfgs.len(), |i| {
		let (fi, o) = &cr[i];
		let (cont, w) = &fr[*fi];
		let rt = tokio::runtime::Builder::new_multi_thread().worker_threads(1).enable_all().build().unwrap();
		let open = || ct::open(&tokio::runtime::Builder::new_current_thread().build().unwrap(), *cont, w).ok();
		check_config_src(ctxr, &rt, &format!("{} file, irregular set with shared payloads", cont.name()), tr, o, i % 3 == 0, work, &format!("fs{i}"), Some(&open));
		ctxr.transition(1);
		ctxr.nontrivial(fnv_str(&format!("filesrc{i}")));
	});
	for (_, w) in &files {
		ct::cleanup(w);
	}
	ctx.outcome_n("configurations over real container files as sources (5 formats)", cfgs.len() as u64);
}

/// A source above the sizes at which writers change strategy (21845 tiles: PMTiles leaf directories, several
/// versatiles blocks per level from z=9 on are C01's) converted with and without flags into three target formats.
fn part_large(ctx: &Arc<Ctx>, work: &std::path::Path) {
	let mut full = TileMap::new();
	for z in 0..=7u8 {
		for x in 0..(1u32 << z) {
			for y in 0..(1u32 << z) {
				full.insert((z, x, y), payload((z, x, y)));
			}
		}
	}
	let mut jobs = vec![];
	for cont in [Cont::Pmtiles, Cont::Versatiles, Cont::Mbtiles] {
		for flags in [0u8, 3, 1] {
			for boxed in [false, true] {
				if ctx.tier == Tier::Quick && cont != Cont::Pmtiles && (flags == 1 || boxed) {
					continue;
				}
				jobs.push((cont, flags, boxed));
			}
		}
	}
	let (ctxr, jr, fr): (&Ctx, _, _) = (ctx, &jobs, &full);
	par_for(jobs.len(), |ji| {
		let (cont, flags, boxed) = jr[ji];
		let o = Opts { flip: flags & 1 != 0, swap: flags & 2 != 0, zoom: None, bbox: if boxed { Some([-100.0, -60.0, 120.0, 70.0]) } else { None }, border: None };
		let rt = tokio::runtime::Builder::new_current_thread().build().unwrap();
		let mut cp = TilesConverterParameters::new_default();
		cp.flip_y = o.flip;
		cp.swap_xy = o.swap;
		cp.bbox_pyramid = pyramid_for(&o);
		let case = json!({"kind": "large", "cont": cont, "flip_y": o.flip, "swap_xy": o.swap, "bbox": o.bbox});
		let label = format!("21845-tile pyramid -> {} {o:?}", cont.name());
		ctxr.eval();
		let (f, c) = if cont == Cont::Mbtiles { (TileFormat::PNG, TileCompression::Uncompressed) } else { (TileFormat::BIN, TileCompression::Uncompressed) };
		let src = MemSource::new("full7", fr.clone(), f, c).with_fast_stream();
		let mut conv = match TilesConvertReader::new_from_reader(Box::new(src), cp) {
			Ok(c) => c,
			Err(e) => return ctxr.violation("converting reader cannot be built", &format!("{label}: {e}"), case),
		};
		let w = match ct::write(&rt, cont, &mut conv, work, &format!("large{ji}")) {
			Ok(w) => w,
			Err(e) => return ctxr.violation(&format!("conversion fails: {}", super::c01::norm_msg(&e)), &format!("{label}: {e}"), case),
		};
		ctxr.trace(1);
		match ct::independent_decode(cont, &w) {
			Err(e) => ctxr.violation("converted container does not follow the layout", &format!("{label}: {e}"), case.clone()),
			Ok(d) => {
				let (mut missing, mut wrong, mut extra) = (0u64, 0u64, 0u64);
				let mut first = None;
				let mut musts = 0u64;
				for (k, v) in fr.iter() {
					let c = t_fwd(*k, &o);
					match (selected(c, &o), d.tiles.get(&c)) {
						(Some(true), None) => {
							missing += 1;
							first.get_or_insert(c);
						}
						(Some(true), Some(g)) | (None, Some(g)) => {
							musts += 1;
							if g != v {
								wrong += 1;
								first.get_or_insert(c);
							}
						}
						(Some(false), Some(_)) => {
							extra += 1;
							first.get_or_insert(c);
						}
						_ => {}
					}
				}
				if missing + wrong + extra > 0 {
					ctxr.violation("converted container: a selected tile is missing, carries another payload, or an unselected one is present (large source)", &format!("{label}: {missing} missing, {wrong} with another payload, {extra} outside the selection; first {first:?}"), case.clone());
				}
				if d.tiles.len() as u64 > musts + 10_000 {
					ctxr.violation("converted container holds tiles without a source tile at the pre-image", &format!("{label}: {} tiles", d.tiles.len()), case.clone());
				}
			}
		}
		ct::cleanup(&w);
		ctxr.nontrivial(fnv_str(&format!("large{ji}")));
	});
	ctx.outcome_n("large-source conversions", jobs.len() as u64);
}

pub fn run(ctx: Arc<Ctx>) {
	ctx.rule(
		"library: 2 sources (full pyramid z0..3; sparse asymmetric set) whose payloads spell their coordinate x 4 flag combinations x zoom limits {none,(0,0),(1,2),(2,1),(3,9)} x geographic boxes from the C15 lon/lat alphabet (every 9th in quick, all in thorough; incl. points, antimeridian/pole touching) x border {none,0,1,3,2^31+1,2^32-1}; \
		 TilesConvertReader lookups over every coordinate z<=4, streams over every advertised level, and (for a stride) a full conversion into a versatiles container decoded independently. Boxes with tile-aligned edges (all tile boxes of levels 1..3, border values at levels 4..5; as the library's as_geo_bbox reports them) must select exactly the named tiles at every level. Sources that are real container files of all five formats holding an irregular set with shared payloads x flags x boxes x zoom limits. A 21845-tile pyramid converted with and without flags / a box into pmtiles, versatiles and mbtiles. CLI: `versatiles convert` over option combinations and `versatiles serve --flip-y/--swap-xy` mapping vs the conversion's. \
		 oracle: tile at c iff c selected (1e-6 tile don't-care band, border widens per level) and the source has T^-1(c), payload names T^-1(c); lookups, streams and advertised coverage agree. non-trivial = configurations with a flag or a box",
	);
	let sets = source_sets();
	let zooms: Vec<Option<(Option<u8>, Option<u8>)>> = vec![None, Some((Some(0), Some(0))), Some((Some(1), Some(2))), Some((Some(2), Some(1))), Some((Some(3), Some(9)))];
	let (lons, lats) = (lon_alphabet(), lat_alphabet());
	let mut boxes: Vec<Option<[f64; 4]>> = vec![None];
	let stride = ctx.tier.pick(9usize, 1usize);
	let mut bi = 0usize;
	for (i, &w) in lons.iter().enumerate() {
		for &e in &lons[i..] {
			for (j, &s) in lats.iter().enumerate() {
				for &n in &lats[j..] {
					if bi % stride == 0 {
						boxes.push(Some([w, s, e, n]));
					}
					bi += 1;
				}
			}
		}
	}
	// degenerate and hair-thin boxes lying exactly on tile edges of levels 1..3 (always, not strided)
	let n_strided = boxes.len();
	{
		let e2 = 66.51326044311186f64;
		let (e3a, e3b) = (40.97989806962013f64, 79.17133464081945f64);
		for (x, y) in [(0.0, 0.0), (45.0, 0.0), (-135.0, e2), (90.0, -e2), (0.0, e3a), (-45.0, -e3b), (180.0, 0.0), (-180.0, e2), (0.0, 85.0511287798066), (0.0, -85.0511287798066), (11.25, 0.0)] {
			boxes.push(Some([x, y, x, y]));
			boxes.push(Some([(x - 1e-9f64).max(-180.0), (y - 1e-9f64).max(-90.0), (x + 1e-9f64).min(180.0), (y + 1e-9f64).min(90.0)]));
		}
		for g in [[-10.0, 0.0, 10.0, 0.0], [0.0, -10.0, 0.0, 10.0], [-180.0, e2, 180.0, e2], [90.0, -85.0, 90.0, 85.0], [-170.0, -1e-12, 170.0, 1e-12], [45.0 - 1e-12, -80.0, 45.0 + 1e-12, 80.0]] {
			boxes.push(Some(g));
		}
	}
	let mut cfgs: Vec<(usize, Opts)> = vec![];
	for si in 0..sets.len() {
		for flags in 0..4u8 {
			for (zi, z) in zooms.iter().enumerate() {
				for (bxi, b) in boxes.iter().enumerate() {
					// zoom x box: all zoom variants on every 4th box, the unrestricted zoom on all
					if zi > 0 && bxi % 4 != 0 && bxi < n_strided {
						continue;
					}
					let borders: Vec<Option<u32>> = if b.is_some() { vec![None, Some(0), Some(1), Some(2), Some(3), Some(4), Some(5), Some(2147483649), Some(u32::MAX)] } else { vec![None] };
					for border in borders {
						if border.is_some() && (bxi + flags as usize) % 3 != 0 {
							continue;
						}
						cfgs.push((si, Opts { flip: flags & 1 != 0, swap: flags & 2 != 0, zoom: *z, bbox: *b, border }));
					}
				}
			}
		}
	}
	ctx.state(cfgs.len() as u64);
	let work = ct::WorkDir::new("c06");
	let (ctxr, cr, sr, wpath): (&Ctx, _, _, _) = (&ctx, &cfgs, &sets, work.0.clone());
	par_for(cfgs.len(), |i| {
		let (si, o) = &cr[i];
		let rt = tokio::runtime::Builder::new_multi_thread().worker_threads(1).enable_all().build().unwrap();
		check_config(ctxr, &rt, sr[*si].0, &sr[*si].1, o, i % 5 == 0, &wpath, &format!("c{i}"));
		ctxr.transition(1);
	});
	ctx.outcome_n("library configurations", cfgs.len() as u64);
	ctx.sample(json!({"options": {"flip_y": true, "swap_xy": true, "zoom": [1, 2], "bbox": boxes[boxes.len() / 2], "border": 1}, "source": sets[1].0}));
	part_aligned(&ctx);
	part_large(&ctx, &work.0);
	part_file_sources(&ctx, &work.0);
	cli_part(&ctx);
	ctx.exhaustive(ctx.tier == Tier::Thorough);
	if ctx.tier == Tier::Quick {
		ctx.extra("quick_tier_note", json!("every 9th geographic box of the alphabet; thorough runs all 8190"));
	}
	drop(work);
}

pub fn replay(_ctx: Arc<Ctx>, case: &Value) {
	println!("  case: {case}");
	println!("  re-run ./check C06 quick (deterministic) to reproduce");
}
