//! C14 — parallel stream transformations keep every tile paired with its own result.
//!
//! E-order: completion-order explorer. The real operator is built and consumed on the harness
//! thread inside a real multi-thread tokio runtime. The per-tile callback (harness supplied, as the
//! API intends) parks at gate i; the consumer side is polled manually with a flag waker. A decision
//! is `Release(i)` for a parked task or `Poll`. After `Release(i)` the controller waits until the
//! runtime's alive-task count has dropped (tokio stores the output and wakes the JoinHandle before
//! it releases the task); after `Poll` it waits until every newly spawned task is parked. So every
//! decision sequence is deterministic, and a DFS over decision sequences enumerates all completion
//! orders and all placements of consumer polls between them.

use crate::ctx::{fnv_str, Ctx, Tier};
use futures::stream::{self, StreamExt};
use futures::Stream;
use serde_json::{json, Value};
use std::collections::BTreeMap;
use std::future::Future;
use std::pin::Pin;
use std::sync::atomic::{AtomicBool, AtomicUsize, Ordering};
use std::sync::{Arc, Condvar, Mutex};
use std::task::{Context, Poll, Wake, Waker};
use std::time::{Duration, Instant};
use versatiles_core::types::{Blob, TileCoord3, TileStream};

#[derive(Clone, Copy, Debug, PartialEq, Eq, serde::Serialize, serde::Deserialize)]
pub enum Op {
	Map,
	FilterMap,
	FromCoords,
	MapBuffered(usize),
	FilterMapThenMap,
}

#[derive(Clone, Copy, Debug, PartialEq, Eq, serde::Serialize, serde::Deserialize)]
pub enum Dec {
	Poll,
	Release(usize),
}

struct Gates {
	n: usize,
	state: Mutex<Vec<u8>>, // 0 = not arrived, 1 = parked, 2 = released, 3 = gate opened before arrival, 4 = passed an open gate
	cv: Condvar,
	arrived: AtomicUsize,
	foreign_blob: AtomicBool,
}

impl Gates {
	fn new(n: usize) -> Arc<Gates> {
		Arc::new(Gates { n, state: Mutex::new(vec![0; n]), cv: Condvar::new(), arrived: AtomicUsize::new(0), foreign_blob: AtomicBool::new(false) })
	}
	fn park(&self, i: usize) {
		let mut g = self.state.lock().unwrap();
		if i >= self.n || (g[i] != 0 && g[i] != 3) {
			// callback invoked twice for one item, or for an unknown item
			self.foreign_blob.store(true, Ordering::SeqCst);
			return;
		}
		self.arrived.fetch_add(1, Ordering::SeqCst);
		if g[i] == 3 {
			// gate already opened by release_all (free-running drain)
			g[i] = 4;
			return;
		}
		g[i] = 1;
		self.cv.notify_all();
		while g[i] != 2 {
			g = self.cv.wait(g).unwrap();
		}
	}
	fn release(&self, i: usize) {
		let mut g = self.state.lock().unwrap();
		g[i] = 2;
		self.cv.notify_all();
	}
	fn parked(&self) -> Vec<usize> {
		self.state.lock().unwrap().iter().enumerate().filter(|(_, s)| **s == 1).map(|(i, _)| i).collect()
	}
	fn release_all(&self) {
		let mut g = self.state.lock().unwrap();
		for s in g.iter_mut() {
			*s = match *s {
				0 => 3, // not arrived yet: open gate
				1 => 2, // parked: release
				x => x,
			};
		}
		// late arrivals must not block either
		self.cv.notify_all();
	}
}

struct FlagWaker(AtomicBool);
impl Wake for FlagWaker {
	fn wake(self: Arc<Self>) {
		self.0.store(true, Ordering::SeqCst);
	}
}

fn coord_of(i: usize) -> TileCoord3 {
	TileCoord3 { x: (i as u32) * 3 + 1, y: (i as u32) * 7 + 2, z: 12 }
}
fn blob_of(i: usize) -> Blob {
	Blob::from(format!("in-{i}"))
}
fn index_of(b: &Blob) -> Option<usize> {
	std::str::from_utf8(b.as_slice()).ok()?.strip_prefix("in-")?.parse().ok()
}
fn retained(i: usize) -> bool {
	i % 3 != 1
}

fn set_affinity(cpus: Option<usize>) -> bool {
	unsafe {
		let mut set: libc::cpu_set_t = std::mem::zeroed();
		libc::CPU_ZERO(&mut set);
		let total = libc::sysconf(libc::_SC_NPROCESSORS_CONF) as usize;
		let k = cpus.unwrap_or(total).min(total);
		for c in 0..k {
			libc::CPU_SET(c, &mut set);
		}
		libc::sched_setaffinity(0, std::mem::size_of::<libc::cpu_set_t>(), &set) == 0
	}
}

pub struct Outcome {
	pub decisions: Vec<Dec>,
	pub menu: Vec<Vec<Dec>>, // enabled decisions at each step
	pub outputs: Vec<(TileCoord3, Vec<u8>)>,
	pub chunks: Vec<usize>,
	pub observed_window: usize,
	pub timeouts: usize,
	/// the controller lost step-wise control (a wait timed out or no decision was enabled): all gates
	/// were opened and the rest of the stream was drained free-running; only the output oracle applies
	pub degraded: bool,
	pub error: Option<String>,
}

const WAIT: Duration = Duration::from_millis(1500);

/// One execution of operator `op` over `n` items with concurrency window `window`, following
/// `prefix` and then the default decision (index 0 of the menu).
pub fn execute(rt: &tokio::runtime::Runtime, op: Op, n: usize, window: usize, prefix: &[usize]) -> Outcome {
	let _enter = rt.enter();
	let gates = Gates::new(n);
	let pulled = Arc::new(AtomicUsize::new(0));
	let alive0 = rt.metrics().num_alive_tasks();
	// build the operator with the requested window
	if !set_affinity(Some(window)) {
		return Outcome { decisions: vec![], menu: vec![], outputs: vec![], chunks: vec![], observed_window: 0, timeouts: 0, degraded: false, error: Some("sched_setaffinity failed".into()) };
	}
	let g2 = gates.clone();
	let gate_blob = move |b: &Blob| -> Option<usize> {
		match index_of(b) {
			Some(i) => {
				g2.park(i);
				Some(i)
			}
			None => {
				g2.foreign_blob.store(true, Ordering::SeqCst);
				None
			}
		}
	};
	let p2 = pulled.clone();
	let input = stream::iter((0..n).map(move |i| {
		p2.fetch_add(1, Ordering::SeqCst);
		(coord_of(i), blob_of(i))
	}));
	let chunks_seen: Arc<Mutex<Vec<Vec<(TileCoord3, Vec<u8>)>>>> = Arc::new(Mutex::new(vec![]));
	enum Driver<'a> {
		S(TileStream<'a>),
		F(Pin<Box<dyn Future<Output = ()> + 'a>>),
	}
	let mut driver = match op {
		Op::Map => Driver::S(TileStream::from_stream(input.boxed()).map_blob_parallel(move |b| {
			let i = gate_blob(&b);
			Blob::from(i.map(|i| result_bytes("out", i)).unwrap_or_else(|| b"out-?".to_vec()))
		})),
		Op::FilterMap => Driver::S(TileStream::from_stream(input.boxed()).filter_map_blob_parallel(move |b| {
			let i = gate_blob(&b)?;
			if retained(i) {
				Some(Blob::from(result_bytes("out", i)))
			} else {
				None
			}
		})),
		Op::FilterMapThenMap => {
			// a second parallel stage downstream (ungated): pairing must survive both stages
			Driver::S(
				TileStream::from_stream(input.boxed())
					.filter_map_blob_parallel(move |b| {
						let i = gate_blob(&b)?;
						if retained(i) {
							Some(Blob::from(result_bytes("mid", i)))
						} else {
							None
						}
					})
					.map_coord(|c| c),
			)
		}
		Op::FromCoords => {
			let g3 = gates.clone();
			let p3 = pulled.clone();
			let coords = (0..n).map(move |i| {
				p3.fetch_add(1, Ordering::SeqCst);
				coord_of(i)
			});
			Driver::S(TileStream::from_coord_iter_parallel(coords, move |c| {
				let i = (0..g3.n).find(|i| coord_of(*i) == c);
				match i {
					Some(i) => {
						g3.park(i);
						if retained(i) {
							Some(Blob::from(result_bytes("out", i)))
						} else {
							None
						}
					}
					None => {
						g3.foreign_blob.store(true, Ordering::SeqCst);
						None
					}
				}
			}))
		}
		Op::MapBuffered(size) => {
			let s = TileStream::from_stream(input.boxed()).map_blob_parallel(move |b| {
				let i = gate_blob(&b);
				Blob::from(i.map(|i| result_bytes("out", i)).unwrap_or_else(|| b"out-?".to_vec()))
			});
			let cs = chunks_seen.clone();
			Driver::F(Box::pin(s.for_each_buffered(size, move |chunk| {
				cs.lock().unwrap().push(chunk.into_iter().map(|(c, b)| (c, b.into_vec())).collect());
			})))
		}
	};
	set_affinity(None);

	let flag = Arc::new(FlagWaker(AtomicBool::new(true)));
	let waker = Waker::from(flag.clone());
	let mut cx = Context::from_waker(&waker);
	let mut out = Outcome { decisions: vec![], menu: vec![], outputs: vec![], chunks: vec![], observed_window: 0, timeouts: 0, degraded: false, error: None };
	let mut done = false;
	let mut poll_useful = true; // first poll
	let mut first_release_seen = false;
	let horizon = 6 * n + 12;
	let wait_until = |cond: &dyn Fn() -> bool, timeouts: &mut usize| {
		let t0 = Instant::now();
		while !cond() {
			if t0.elapsed() > WAIT {
				*timeouts += 1;
				return;
			}
			std::thread::yield_now();
		}
	};
	while !done {
		if out.decisions.len() > horizon {
			out.degraded = true;
			break;
		}
		let parked = gates.parked();
		let mut menu: Vec<Dec> = vec![];
		if poll_useful {
			menu.push(Dec::Poll);
		}
		for &i in &parked {
			menu.push(Dec::Release(i));
		}
		if menu.is_empty() || out.timeouts > 0 {
			// nothing parked and a poll would be idempotent, or a wait timed out: this implementation
			// does not follow the one-task-per-item discipline the controller assumes. That is not
			// a verdict: open all gates and drain free-running, then judge the outputs only.
			out.degraded = true;
			break;
		}
		let step = out.decisions.len();
		let choice = if step < prefix.len() { prefix[step] } else { 0 };
		if choice >= menu.len() {
			out.error = Some(format!("REPLAY-DIVERGENCE at step {step}: choice {choice} of {menu:?}"));
			break;
		}
		let d = menu[choice];
		out.menu.push(menu);
		out.decisions.push(d);
		match d {
			Dec::Release(i) => {
				if !first_release_seen {
					first_release_seen = true;
					out.observed_window = out.observed_window.max(parked.len());
				}
				let alive_before = rt.metrics().num_alive_tasks();
				let arrived_before = gates.arrived.load(Ordering::SeqCst);
				gates.release(i);
				wait_until(&|| rt.metrics().num_alive_tasks() < alive_before || gates.arrived.load(Ordering::SeqCst) > arrived_before, &mut out.timeouts);
				poll_useful = true;
			}
			Dec::Poll => {
				let r = match &mut driver {
					Driver::S(s) => match Pin::new(&mut s.stream).poll_next(&mut cx) {
						Poll::Ready(Some((c, b))) => Some(Some((c, b.into_vec()))),
						Poll::Ready(None) => Some(None),
						Poll::Pending => None,
					},
					Driver::F(f) => match f.as_mut().poll(&mut cx) {
						Poll::Ready(()) => Some(None),
						Poll::Pending => None,
					},
				};
				match r {
					Some(Some(item)) => {
						out.outputs.push(item);
						poll_useful = true;
					}
					Some(None) => done = true,
					None => poll_useful = false,
				}
				// every task spawned by this poll must reach its gate before the next decision
				if !done {
					wait_until(&|| gates.arrived.load(Ordering::SeqCst) >= pulled.load(Ordering::SeqCst), &mut out.timeouts);
					out.observed_window = out.observed_window.max(gates.parked().len());
				}
			}
		}
	}
	gates.release_all();
	if out.degraded {
		let drained = match driver {
			Driver::S(st) => rt.block_on(async { tokio::time::timeout(Duration::from_secs(20), st.collect()).await.ok() }),
			Driver::F(f) => rt.block_on(async { tokio::time::timeout(Duration::from_secs(20), f).await.ok().map(|_| vec![]) }),
		};
		match drained {
			Some(items) => out.outputs.extend(items.into_iter().map(|(c, b)| (c, b.into_vec()))),
			None => out.error = Some("stream does not end within 20 s after all per-tile callbacks were released".into()),
		}
	} else {
		drop(driver);
	}
	// let detached tasks drain so that the next execution starts from a quiet runtime
	let mut t = 0;
	wait_until(&|| rt.metrics().num_alive_tasks() <= alive0, &mut t);
	if let Op::MapBuffered(_) = op {
		for ch in chunks_seen.lock().unwrap().iter() {
			out.chunks.push(ch.len());
			out.outputs.extend(ch.iter().cloned());
		}
	}
	if gates.foreign_blob.load(Ordering::SeqCst) && out.error.is_none() {
		out.error = Some("callback was invoked with a blob/coordinate that is not an input item, or twice for one item".into());
	}
	out
}

/// What the callback yields for item i: "<tag>-<i>", except that every fourth item (i % 4 == 2) yields a
/// zero-length result - a retained item whose result happens to be empty must still come out.
fn result_bytes(tag: &str, i: usize) -> Vec<u8> {
	if i % 4 == 2 {
		vec![]
	} else {
		format!("{tag}-{i}").into_bytes()
	}
}

fn expected(op: Op, n: usize) -> Vec<(TileCoord3, Vec<u8>)> {
	let mut v = vec![];
	for i in 0..n {
		let keep = match op {
			Op::Map | Op::MapBuffered(_) => true,
			_ => retained(i),
		};
		if keep {
			let tag = if op == Op::FilterMapThenMap { "mid" } else { "out" };
			v.push((coord_of(i), result_bytes(tag, i)));
		}
	}
	v
}

/// Oracle for one execution; returns (clause, description).
fn judge(op: Op, n: usize, o: &Outcome) -> Option<(String, String)> {
	if let Some(e) = &o.error {
		if e.starts_with("REPLAY-DIVERGENCE") || e.starts_with("sched_setaffinity") {
			eprintln!("MACHINERY: {e}");
			std::process::exit(2);
		}
		return Some((if e.starts_with("stream does not end") { "stream never ends".into() } else { "callback invoked for a foreign item or twice".into() }, e.clone()));
	}
	let mut got = o.outputs.clone();
	let mut want = expected(op, n);
	let key = |e: &(TileCoord3, Vec<u8>)| (e.0.z, e.0.x, e.0.y, e.1.clone());
	got.sort_by_key(key);
	want.sort_by_key(key);
	if got != want {
		let show = |v: &Vec<(TileCoord3, Vec<u8>)>| v.iter().map(|(c, b)| format!("({},{})={}", c.x, c.y, String::from_utf8_lossy(b))).collect::<Vec<_>>().join(" ");
		let clause = if got.len() < want.len() {
			"tile lost"
		} else if got.len() > want.len() {
			"tile duplicated"
		} else {
			"result attached to another coordinate"
		};
		return Some((clause.to_string(), format!("outputs [{}] expected (as a multiset) [{}]", show(&o.outputs), show(&expected(op, n)))));
	}
	if let Op::MapBuffered(size) = op {
		let total: usize = o.chunks.iter().sum();
		let ok = total == n && o.chunks.iter().rev().skip(1).all(|c| *c == size) && o.chunks.last().map(|c| *c >= 1 && *c <= size).unwrap_or(n == 0);
		if !ok {
			return Some(("buffered consumer chunks wrong".into(), format!("chunk sizes {:?} for {n} items and buffer size {size}", o.chunks)));
		}
	}
	None
}

struct Dfs<'a> {
	rt: &'a tokio::runtime::Runtime,
	op: Op,
	n: usize,
	window: usize,
	executions: u64,
	decisions: u64,
	orders: BTreeMap<Vec<usize>, u64>,
	out_of_order: u64,
	timeouts: u64,
	degraded: u64,
	window_seen: usize,
	bad: Vec<(Vec<usize>, Vec<Dec>, String, String)>,
	cap: u64,
	capped: bool,
}

impl Dfs<'_> {
	fn explore(&mut self, prefix: Vec<usize>) {
		if self.executions >= self.cap || self.bad.len() >= 5 {
			self.capped = self.executions >= self.cap;
			return;
		}
		let o = execute(self.rt, self.op, self.n, self.window, &prefix);
		self.executions += 1;
		self.decisions += o.decisions.len() as u64;
		self.timeouts += o.timeouts as u64;
		self.degraded += o.degraded as u64;
		self.window_seen = self.window_seen.max(o.observed_window);
		let order: Vec<usize> = o.outputs.iter().filter_map(|(c, _)| (0..self.n).find(|i| coord_of(*i) == *c)).collect();
		if order.windows(2).any(|w| w[0] > w[1]) {
			self.out_of_order += 1;
		}
		*self.orders.entry(order).or_insert(0) += 1;
		let choices: Vec<usize> = o.decisions.iter().zip(o.menu.iter()).map(|(d, m)| m.iter().position(|x| x == d).unwrap()).collect();
		if let Some((clause, desc)) = judge(self.op, self.n, &o) {
			self.bad.push((choices.clone(), o.decisions.clone(), clause, desc));
		}
		for i in prefix.len()..o.menu.len() {
			for alt in 1..o.menu[i].len() {
				let mut np = choices[..i].to_vec();
				np.push(alt);
				self.explore(np);
			}
		}
	}
}

fn family_run(rt: &tokio::runtime::Runtime, op: Op, n: usize, window: usize, discipline: &str) -> Outcome {
	// deterministic adversarial release discipline for large streams: poll until Pending, then
	// release one parked task chosen by the discipline; a fixed family, not exhaustive
	execute_with(rt, op, n, window, &mut |menu: &[Dec], step: usize| -> usize {
		if menu[0] == Dec::Poll {
			return 0;
		}
		let k = menu.len();
		match discipline {
			"reverse" => k - 1,
			"rotate" => step % k,
			"evens-then-odds" => menu.iter().position(|d| matches!(d, Dec::Release(i) if i % 2 == 0)).unwrap_or(0),
			_ => 0,
		}
	})
}

/// Variant of `execute` whose decisions come from a callback (used by the large-stream families).
fn execute_with(rt: &tokio::runtime::Runtime, op: Op, n: usize, window: usize, decide: &mut dyn FnMut(&[Dec], usize) -> usize) -> Outcome {
	// implemented by iterative deepening of a prefix: each step re-queries `decide` online
	// through a thread-local trampoline in `execute`; simplest correct implementation is to run
	// execute() with a growing prefix, which would be quadratic. Instead we run the loop here.
	let _enter = rt.enter();
	let gates = Gates::new(n);
	let pulled = Arc::new(AtomicUsize::new(0));
	let alive0 = rt.metrics().num_alive_tasks();
	set_affinity(Some(window));
	let g2 = gates.clone();
	let p2 = pulled.clone();
	let input = stream::iter((0..n).map(move |i| {
		p2.fetch_add(1, Ordering::SeqCst);
		(coord_of(i), blob_of(i))
	}));
	let mut s = match op {
		Op::Map => TileStream::from_stream(input.boxed()).map_blob_parallel(move |b| {
			let i = index_of(&b);
			if let Some(i) = i {
				g2.park(i);
			} else {
				g2.foreign_blob.store(true, Ordering::SeqCst);
			}
			Blob::from(i.map(|i| result_bytes("out", i)).unwrap_or_else(|| b"out-?".to_vec()))
		}),
		Op::FilterMap => TileStream::from_stream(input.boxed()).filter_map_blob_parallel(move |b| {
			let i = index_of(&b)?;
			g2.park(i);
			if retained(i) {
				Some(Blob::from(result_bytes("out", i)))
			} else {
				None
			}
		}),
		_ => {
			let g3 = gates.clone();
			let p3 = pulled.clone();
			let coords = (0..n).map(move |i| {
				p3.fetch_add(1, Ordering::SeqCst);
				coord_of(i)
			});
			TileStream::from_coord_iter_parallel(coords, move |c| {
				// coord_of is injective and monotone in x: recover i
				let i = ((c.x - 1) / 3) as usize;
				if i >= g3.n || coord_of(i) != c {
					g3.foreign_blob.store(true, Ordering::SeqCst);
					return None;
				}
				g3.park(i);
				if retained(i) {
					Some(Blob::from(result_bytes("out", i)))
				} else {
					None
				}
			})
		}
	};
	set_affinity(None);
	let flag = Arc::new(FlagWaker(AtomicBool::new(true)));
	let waker = Waker::from(flag.clone());
	let mut cx = Context::from_waker(&waker);
	let mut out = Outcome { decisions: vec![], menu: vec![], outputs: vec![], chunks: vec![], observed_window: 0, timeouts: 0, degraded: false, error: None };
	let mut poll_useful = true;
	let mut done = false;
	let wait_until = |cond: &dyn Fn() -> bool, timeouts: &mut usize| {
		let t0 = Instant::now();
		while !cond() {
			if t0.elapsed() > WAIT {
				*timeouts += 1;
				return;
			}
			std::thread::yield_now();
		}
	};
	let mut step = 0usize;
	while !done {
		if step > 6 * n + 12 || out.timeouts > 0 {
			out.degraded = true;
			break;
		}
		let parked = gates.parked();
		let mut menu = vec![];
		if poll_useful {
			menu.push(Dec::Poll);
		}
		for &i in &parked {
			menu.push(Dec::Release(i));
		}
		if menu.is_empty() {
			out.degraded = true;
			break;
		}
		let d = menu[decide(&menu, step).min(menu.len() - 1)];
		step += 1;
		match d {
			Dec::Release(i) => {
				out.observed_window = out.observed_window.max(parked.len());
				let alive_before = rt.metrics().num_alive_tasks();
				let arrived_before = gates.arrived.load(Ordering::SeqCst);
				gates.release(i);
				wait_until(&|| rt.metrics().num_alive_tasks() < alive_before || gates.arrived.load(Ordering::SeqCst) > arrived_before, &mut out.timeouts);
				poll_useful = true;
			}
			Dec::Poll => {
				match Pin::new(&mut s.stream).poll_next(&mut cx) {
					Poll::Ready(Some((c, b))) => {
						out.outputs.push((c, b.into_vec()));
						poll_useful = true;
					}
					Poll::Ready(None) => done = true,
					Poll::Pending => poll_useful = false,
				}
				if !done {
					wait_until(&|| gates.arrived.load(Ordering::SeqCst) >= pulled.load(Ordering::SeqCst), &mut out.timeouts);
				}
			}
		}
	}
	gates.release_all();
	if out.degraded {
		match rt.block_on(async { tokio::time::timeout(Duration::from_secs(60), s.collect()).await.ok() }) {
			Some(items) => out.outputs.extend(items.into_iter().map(|(c, b)| (c, b.into_vec()))),
			None => out.error = Some("stream does not end within 60 s after all per-tile callbacks were released".into()),
		}
	} else {
		drop(s);
	}
	let mut t = 0;
	wait_until(&|| rt.metrics().num_alive_tasks() <= alive0, &mut t);
	if gates.foreign_blob.load(Ordering::SeqCst) && out.error.is_none() {
		out.error = Some("callback was invoked with a blob/coordinate that is not an input item, or twice for one item".into());
	}
	out
}

fn op_name(op: Op) -> String {
	match op {
		Op::Map => "map_blob_parallel".into(),
		Op::FilterMap => "filter_map_blob_parallel".into(),
		Op::FromCoords => "from_coord_iter_parallel".into(),
		Op::MapBuffered(s) => format!("map_blob_parallel -> for_each_buffered({s})"),
		Op::FilterMapThenMap => "filter_map_blob_parallel -> map_coord".into(),
	}
}

/// "Everything in one chunk" is asked for with a huge buffer size: the consumer must see every item once, in one
/// chunk, for stream lengths 0..=3 (free-running: the chunking does not depend on the completion order).
fn huge_buffers(ctx: &Arc<Ctx>, rt: &tokio::runtime::Runtime) {
	for size in [usize::MAX, usize::MAX / 2, 1usize << 60] {
		for n in 0..=3u32 {
			ctx.eval();
			let items: Vec<(TileCoord3, Blob)> = (0..n).map(|i| (TileCoord3 { x: i, y: 0, z: 5 }, Blob::from(vec![i as u8]))).collect();
			let seen = Arc::new(std::sync::Mutex::new(Vec::<Vec<u32>>::new()));
			let s2 = seen.clone();
			let r = crate::par::catch(|| {
				rt.block_on(async move {
					TileStream::from_vec(items).for_each_buffered(size, move |chunk| s2.lock().unwrap().push(chunk.iter().map(|(c, _)| c.x).collect())).await;
				})
			});
			let case = json!({"kind": "huge buffer", "buffer_size": size.to_string(), "items": n});
			match r {
				Err(p) => ctx.violation(&format!("for_each_buffered panics at {}", crate::par::panic_site(&p)), &format!("buffer size {size}, {n} items: {p}"), case),
				Ok(()) => {
					let got = seen.lock().unwrap().clone();
					let want: Vec<Vec<u32>> = if n == 0 { vec![] } else { vec![(0..n).collect()] };
					if got != want {
						ctx.violation("buffered consumer chunks wrong", &format!("buffer size {size}, {n} items: chunks {got:?}"), case);
					}
				}
			}
		}
	}
	ctx.outcome_n("huge buffer sizes x stream lengths 0..=3", 12);
}

pub fn run(ctx: Arc<Ctx>) {
	ctx.rule(
		"DFS over all decision sequences (Release(i) of a parked per-tile task | consumer Poll) of the real operator in a real multi-thread tokio runtime; \
		 exhaustive per (operator, N items, window); non-trivial = executions whose output order differs from the input order; large streams: three fixed adversarial release disciplines (labelled, not exhaustive)",
	);
	ctx.assume("completion order of the per-tile tasks and the placement of consumer polls are the only schedule nondeterminism that can affect pairing; reorderings of individual atomics inside tokio/futures are not explored");
	ctx.assume("the concurrency window is num_cpus::get() on the constructing thread and follows its CPU affinity; the observed window is asserted per configuration");
	let rt = tokio::runtime::Builder::new_multi_thread().worker_threads(10).enable_all().build().unwrap();
	let nmax = ctx.tier.pick(5usize, 6usize);
	let mut configs: Vec<(Op, usize, usize)> = vec![];
	for op in [Op::Map, Op::FilterMap, Op::FromCoords] {
		for n in 0..=nmax {
			let mut ws = vec![1usize, 2, 3, n.max(1)];
			ws.sort();
			ws.dedup();
			for w in ws {
				if w <= n.max(1) {
					configs.push((op, n, w));
				}
			}
		}
	}
	huge_buffers(&ctx, &rt);
	for size in [1usize, 2, 3] {
		configs.push((Op::MapBuffered(size), 3, 2));
		configs.push((Op::MapBuffered(size), 4, 3));
	}
	configs.push((Op::FilterMapThenMap, 4, 2));
	if ctx.tier == Tier::Thorough {
		configs.push((Op::Map, 7, 3));
		configs.push((Op::Map, 8, 2));
		configs.push((Op::FilterMap, 7, 3));
		configs.push((Op::FromCoords, 8, 2));
		configs.push((Op::MapBuffered(2), 5, 3));
	}
	let mut all_exhaustive = true;
	for (op, n, w) in configs {
		let mut d = Dfs { rt: &rt, op, n, window: w, executions: 0, decisions: 0, orders: BTreeMap::new(), out_of_order: 0, timeouts: 0, degraded: 0, window_seen: 0, bad: vec![], cap: ctx.tier.pick(30_000, 2_000_000), capped: false };
		d.explore(vec![]);
		if d.capped {
			ctx.cap(&format!("{} N={n} window={w}: execution cap hit", op_name(op)));
			all_exhaustive = false;
		}
		if n > 0 && d.window_seen != w.min(n) && d.bad.is_empty() {
			// cannot reach the requested window (e.g. a CPU quota overrides affinity): not a verdict
			ctx.cap(&format!("{} N={n}: requested window {w}, observed {}", op_name(op), d.window_seen));
			all_exhaustive = false;
		}
		ctx.evals(d.executions);
		ctx.trace(d.executions);
		ctx.state(d.decisions);
		ctx.transition(d.decisions);
		ctx.nontrivial_distinct(d.out_of_order);
		ctx.outcome_n(&format!("{} N={n} window={w}: executions", op_name(op)), d.executions);
		ctx.outcome_n(&format!("{} N={n} window={w}: distinct output orders", op_name(op)), d.orders.len() as u64);
		if d.degraded > 0 {
			ctx.outcome_n(&format!("{} N={n} window={w}: executions in which the controller lost step-wise control", op_name(op)), d.degraded);
			ctx.cap(&format!("{} N={n} window={w}: {} executions drained free-running (controller lost control; output oracle still applied)", op_name(op), d.degraded));
			all_exhaustive = false;
		}
		if std::env::var_os("VERIF_VERBOSE").is_some() {
			eprintln!("{} N={n} w={w}: executions={} orders={} out_of_order={} timeouts={} bad={}", op_name(op), d.executions, d.orders.len(), d.out_of_order, d.timeouts, d.bad.len());
		}
		if n == nmax && w == 3 {
			ctx.sample(json!({"operator": op_name(op), "items": n, "window": w, "executions": d.executions, "distinct_output_orders": d.orders.len(), "out_of_order_executions": d.out_of_order}));
		}
		if let Some((choices, decs, clause, desc)) = d.bad.first() {
			// replay twice before believing it
			let a = execute(&rt, op, n, w, choices);
			let b = execute(&rt, op, n, w, choices);
			if a.outputs != b.outputs {
				eprintln!("MACHINERY: violating decision sequence does not reproduce deterministically");
				std::process::exit(2);
			}
			ctx.violation(
				&format!("{}: {clause}", op_name(op).split(' ').next().unwrap()),
				&format!("{} N={n} window={w}, decisions {decs:?}: {desc}", op_name(op)),
				json!({"op": op, "n": n, "window": w, "choices": choices, "decisions": decs}),
			);
		}
	}
	// large streams, fixed adversarial families
	let big: Vec<usize> = ctx.tier.pick(vec![100, 1000], vec![1000, 10_000]);
	for &n in &big {
		for op in [Op::Map, Op::FilterMap, Op::FromCoords] {
			for disc in ["reverse", "rotate", "evens-then-odds"] {
				let o = family_run(&rt, op, n, 8, disc);
				ctx.eval();
				ctx.trace(1);
				let order: Vec<u32> = o.outputs.iter().map(|(c, _)| c.x).collect();
				if order.windows(2).any(|w| w[0] > w[1]) {
					ctx.nontrivial(fnv_str(&format!("{op:?}{n}{disc}")));
				}
				ctx.outcome(&format!("large stream family: {} items", n));
				if o.degraded {
					ctx.outcome("large stream family: executions drained free-running (controller lost control)");
				}
				if let Some((clause, desc)) = judge(op, n, &o) {
					let short: String = desc.chars().take(400).collect();
					ctx.violation(&format!("{}: {clause}", op_name(op)), &format!("{} N={n} window=8 discipline={disc}: {short}", op_name(op)), json!({"op": op, "n": n, "window": 8, "discipline": disc}));
				}
			}
		}
	}
	// supplementary, labelled sample (sound, not exhaustive): the in-tree user TileConverter::process_stream
	// under real concurrency; its per-tile closure is not harness-supplied, so it cannot be gated
	{
		use versatiles_container::tile_converter::TileConverter;
		use versatiles_core::types::TileCompression;
		let mut mismatches = 0u64;
		let mut total = 0u64;
		let mut first: Option<String> = None;
		for (src, dst, force) in [(TileCompression::Uncompressed, TileCompression::Gzip, false), (TileCompression::Uncompressed, TileCompression::Brotli, false), (TileCompression::Gzip, TileCompression::Brotli, true)] {
			let conv = TileConverter::new_tile_recompressor(&src, &dst, force).unwrap();
			for round in 0..3usize {
				// one distinct tile, then several byte-identical big tiles, then distinct ones again
				let mut items: Vec<(TileCoord3, Vec<u8>)> = vec![];
				let big: Vec<u8> = (0..(400_000 + round * 1000)).map(|i| (i % 251) as u8).collect();
				items.push((coord_of(0), format!("first tile of round {round}").into_bytes()));
				for i in 1..6 {
					items.push((coord_of(i), big.clone()));
				}
				for i in 6..10 {
					items.push((coord_of(i), format!("tail {i} {round}").repeat(1000).into_bytes()));
				}
				let enc = |d: &[u8], c: TileCompression| crate::codec::encode_with(crate::containers::comp_id(c), d);
				let input: Vec<(TileCoord3, Blob)> = items.iter().map(|(c, d)| (*c, Blob::from(enc(d, src)))).collect();
				let out: Vec<(TileCoord3, Blob)> = rt.block_on(async { conv.process_stream(TileStream::from_vec(input)).collect().await });
				for (c, d) in &items {
					total += 1;
					let got = out.iter().filter(|(oc, _)| oc == c).collect::<Vec<_>>();
					let ok = got.len() == 1 && crate::codec::decode_with(crate::containers::comp_id(dst), got[0].1.as_slice()).ok().as_deref() == Some(d.as_slice());
					if !ok {
						mismatches += 1;
						if first.is_none() {
							first = Some(format!("{src:?}->{dst:?} round {round}: tile at ({},{}) came out {} time(s) and does not decode to its own input", c.x, c.y, got.len()));
						}
					}
				}
			}
		}
		ctx.extra("process_stream_free_running_sample", json!({"note": "supplementary labelled sample: TileConverter::process_stream on a 10-worker runtime with byte-identical big tiles after a distinct one; a mismatch is a sound witness, silence proves nothing", "tiles": total, "mismatches": mismatches}));
		if let Some(f) = first {
			ctx.violation("TileConverter::process_stream: free-running run pairs a tile with another tile's result", &format!("{mismatches} of {total} tiles wrong; first: {f}"), json!({"op": "process_stream-sample"}));
		}
	}
	// in-tree users of the stream machinery whose per-tile work is not harness-supplied (not gated, deterministic
	// inputs): every streamed tile must carry the payload of its own coordinate
	{
		use crate::memsource::{MemSource, PlainSource, TileMap};
		use versatiles_container::{TilesConvertReader, TilesConverterParameters};
		use versatiles_core::types::{TileBBox, TileCompression, TileFormat, TilesReaderTrait};
		let spell = |k: &(u8, u32, u32)| format!("payload of {}/{}/{}", k.0, k.1, k.2).into_bytes();
		// every subset of a 6x2 grid at z=4 (holes before, between and after tiles in a row), plus a wide sparse row
		let mut sets: Vec<TileMap> = vec![];
		for mask in 1u32..(1 << 12) {
			let mut t = TileMap::new();
			for i in 0..12u32 {
				if mask >> i & 1 == 1 {
					let k = (4u8, 3 + i % 6, 5 + i / 6);
					t.insert(k, spell(&k));
				}
			}
			sets.push(t);
		}
		let mut wide = TileMap::new();
		for x in (0..600u32).filter(|x| x % 7 != 3 && x % 11 != 0) {
			let k = (10u8, x, 77u32);
			wide.insert(k, spell(&k));
		}
		sets.push(wide);
		let (mut n, mut bad) = (0u64, 0u64);
		let mut first: Option<String> = None;
		for t in &sets {
			// lookups answer after a coordinate-dependent number of Pending polls, so later ones can overtake earlier ones
			let src = PlainSource(MemSource::new("plain", t.clone(), TileFormat::BIN, TileCompression::Uncompressed).with_uneven_yields());
			let z = t.keys().next().unwrap().0;
			let bbox = if z == 4 { TileBBox::new(4, 2, 4, 9, 7).unwrap() } else { TileBBox::new(10, 0, 76, 700, 78).unwrap() };
			let out: Vec<(TileCoord3, Blob)> = rt.block_on(async { src.get_bbox_tile_stream(bbox).await.collect().await });
			n += 1;
			let mut seen = std::collections::BTreeSet::new();
			let mut ok = out.len() == t.len();
			for (c, b) in &out {
				ok &= seen.insert((c.z, c.x, c.y)) && t.get(&(c.z, c.x, c.y)).map(|v| v.as_slice()) == Some(b.as_slice());
			}
			if !ok {
				bad += 1;
				first.get_or_insert_with(|| format!("source with tiles {:?}: streamed {:?}", t.keys().take(8).collect::<Vec<_>>(), out.iter().take(8).map(|(c, b)| (c.x, c.y, String::from_utf8_lossy(b.as_slice()).to_string())).collect::<Vec<_>>()));
			}
		}
		if let Some(f) = first {
			ctx.violation("default box stream of a reader pairs a tile with another coordinate, loses or repeats one", &format!("{bad} of {n} sparse sources; first: {f}"), json!({"op": "default-stream"}));
		}
		// converting reader: flags x recompression on the stream path
		let mut base = TileMap::new();
		for x in 0..8u32 {
			for y in 0..8u32 {
				if (x * 3 + y) % 5 != 0 {
					let k = (3u8, x, y);
					base.insert(k, spell(&k));
				}
			}
		}
		// two zero-length tiles (a source may hold them; the stream stage must pass them like any other tile)
		base.insert((3, 0, 0), vec![]);
		base.insert((3, 5, 0), vec![]);
		let mut cbad: Option<String> = None;
		let mut cn = 0u64;
		for flags in 0..4u8 {
			for (target, force) in [(None, false), (Some(TileCompression::Gzip), false), (Some(TileCompression::Brotli), true), (None, true)] {
				let mut cp = TilesConverterParameters::new_default();
				cp.flip_y = flags & 1 != 0;
				cp.swap_xy = flags & 2 != 0;
				cp.tile_compression = target;
				cp.force_recompress = force;
				let src = MemSource::new("m", base.clone(), TileFormat::BIN, TileCompression::Uncompressed);
				let Ok(conv) = TilesConvertReader::new_from_reader(Box::new(src), cp) else { continue };
				let outc = conv.get_parameters().tile_compression;
				let out: Vec<(TileCoord3, Blob)> = rt.block_on(async { conv.get_bbox_tile_stream(TileBBox::new_full(3).unwrap()).await.collect().await });
				cn += 1;
				let mut ok = out.len() == base.len();
				for (c, b) in &out {
					// pre-image: undo swap, then flip
					let (mut x, mut y) = (c.x, c.y);
					if flags & 2 != 0 {
						std::mem::swap(&mut x, &mut y);
					}
					if flags & 1 != 0 {
						y = 7 - y;
					}
					let plain = crate::codec::decode_with(crate::containers::comp_id(outc), b.as_slice()).unwrap_or_default();
					ok &= Some(&plain) == base.get(&(3, x, y));
				}
				if !ok && cbad.is_none() {
					cbad = Some(format!("flip_y={} swap_xy={} target={target:?} force={force}", flags & 1 != 0, flags & 2 != 0));
				}
			}
		}
		if let Some(f) = cbad {
			ctx.violation("converting reader's stream pairs a tile with another coordinate than its mapping says", &format!("first failing configuration: {f}"), json!({"op": "converter-stream"}));
		}
		// from_debug (the in-tree user of from_coord_iter_parallel): 10^4 generated vector tiles in one stream - each
		// coordinate once, each tile the one a single lookup returns for that coordinate (sampled every 41st), on a
		// multi-thread runtime; and the same for a second stream on the same operation afterwards
		let mut dn = 0u64;
		{
			let work = crate::containers::WorkDir::new("c14dbg");
			let fac = crate::pipeline::factory(vec![], &work.0);
			match crate::pipeline::build_op(&rt, &fac, "from_debug format=pbf") {
				Err(e) => ctx.violation("from_debug pipeline cannot be built", &e, json!({"op": "from_debug-stream"})),
				Ok(op) => {
					for (z, x0, y0, w, h) in [(14u8, 3000u32, 77u32, 5000u32, 2u32), (13, 0, 4000, 4200, 1), (14, 3000, 78, 2500, 2)] {
						let bbox = TileBBox::new(z, x0, y0, x0 + w - 1, y0 + h - 1).unwrap();
						let out: Vec<(TileCoord3, Blob)> = rt.block_on(async { op.get_tile_stream(bbox.clone()).await.collect().await });
						dn += out.len() as u64;
						let mut seen = std::collections::BTreeSet::new();
						let mut problem: Option<String> = None;
						for (i, (c, b)) in out.iter().enumerate() {
							if c.z != z || c.x < x0 || c.x >= x0 + w || c.y < y0 || c.y >= y0 + h || !seen.insert((c.x, c.y)) {
								problem.get_or_insert_with(|| format!("coordinate {c:?} is outside the box or delivered twice"));
							}
							if i % 41 == 0 {
								let single = rt.block_on(op.get_tile_data(c)).ok().flatten();
								if single.as_ref().map(|s| s.as_slice()) != Some(b.as_slice()) {
									problem.get_or_insert_with(|| format!("tile streamed for {c:?} differs from the tile a lookup returns for it"));
								}
							}
						}
						if seen.len() as u64 != w as u64 * h as u64 {
							problem.get_or_insert_with(|| format!("{} of {} tiles delivered", seen.len(), w as u64 * h as u64));
						}
						if let Some(pb) = problem {
							ctx.violation("from_debug stream: tile lost, duplicated or attached to another coordinate", &format!("box {bbox:?}: {pb}"), json!({"op": "from_debug-stream", "level": z, "width": w, "height": h}));
						}
					}
				}
			}
		}
		ctx.extra("in_tree_users", json!({"default_box_stream_sparse_sources": n, "converter_stream_configurations": cn, "from_debug_tiles_streamed": dn}));
	}
	ctx.extra("large_stream_families", json!({"sizes": big, "disciplines": ["reverse", "rotate", "evens-then-odds"], "note": "fixed deterministic families, not exhaustive"}));
	ctx.extra("not_covered", json!("the in-tree users TileConverter::process_stream and from_debug are not gated (their callbacks are not harness-supplied); beyond the deterministic checks above they are covered functionally under a real multi-thread runtime by C04 and C02"));
	ctx.exhaustive(all_exhaustive);
}

pub fn replay(ctx: Arc<Ctx>, case: &Value) {
	let rt = tokio::runtime::Builder::new_multi_thread().worker_threads(10).enable_all().build().unwrap();
	let op: Op = serde_json::from_value(case["op"].clone()).unwrap();
	let n = case["n"].as_u64().unwrap() as usize;
	let w = case["window"].as_u64().unwrap() as usize;
	if let Some(disc) = case.get("discipline").and_then(|d| d.as_str()) {
		let a = family_run(&rt, op, n, w, disc);
		let b = family_run(&rt, op, n, w, disc);
		if a.outputs != b.outputs {
			eprintln!("MACHINERY: replay observations differ between two runs");
			std::process::exit(2);
		}
		if let Some((clause, desc)) = judge(op, n, &a) {
			ctx.violation(&format!("{}: {clause}", op_name(op)), &desc.chars().take(400).collect::<String>(), case.clone());
		}
		return;
	}
	let choices: Vec<usize> = serde_json::from_value(case["choices"].clone()).unwrap();
	let a = execute(&rt, op, n, w, &choices);
	let b = execute(&rt, op, n, w, &choices);
	if a.outputs != b.outputs || a.decisions != b.decisions {
		eprintln!("MACHINERY: replay observations differ between two runs");
		std::process::exit(2);
	}
	println!("  decisions: {:?}", a.decisions);
	println!("  outputs:   {:?}", a.outputs.iter().map(|(c, b)| format!("({},{})={}", c.x, c.y, String::from_utf8_lossy(b))).collect::<Vec<_>>());
	if let Some((clause, desc)) = judge(op, n, &a) {
		ctx.violation(&format!("{}: {clause}", op_name(op).split(' ').next().unwrap()), &desc, case.clone());
	}
}
