//! C20 — the bounded cache is transparent and stays within its capacity.
//!
//! Explicit-state search (stateright BFS) over the *real* `LimitedCache`. A state is the
//! operation history that reaches it; its canonical form (the de-duplication key) is the sorted
//! list of `(key, value, dense rank of the access stamp)` taken from the guarded snapshot hook.
//! `cleanup` depends only on order and ties of stamps and every new stamp is larger than all
//! existing ones, so states with the same canonical form have the same futures.

use crate::ctx::{fnv_str, Ctx, Tier};
use serde_json::{json, Value};
use stateright::{Checker, Model, Property};
use std::hash::{Hash, Hasher};
use std::sync::Arc;
use versatiles_core::types::LimitedCache;

type Val = (u64, u32);
type Cache = LimitedCache<u64, Val>;

#[derive(Clone, Copy, Debug, PartialEq, Eq, Hash, serde::Serialize, serde::Deserialize)]
pub enum Op {
	Add(u64, u32),
	Get(u64),
	GosOk(u64, u32),
	GosErr(u64),
}

type Canon = Vec<(u64, u64, u32, u32)>; // key, value.0, value.1, rank

/// What the harness itself knows from the operations issued so far (independent of the cache's bookkeeping):
/// every value ever stored under a key, and when each key was last used.
#[derive(Default, Clone)]
pub struct Hist {
	stored: Vec<(u64, Val)>,
	tick: u64,
	last_use: std::collections::BTreeMap<u64, u64>,
	last_used: Option<u64>,
}
impl Hist {
	fn used(&mut self, k: u64) {
		self.tick += 1;
		self.last_use.insert(k, self.tick);
		self.last_used = Some(k);
	}
	/// keys currently held, in the order of their last use according to the issued operations
	fn order_of(&self, held: &Canon) -> Vec<u64> {
		let mut v: Vec<(u64, u64)> = held.iter().map(|e| (self.last_use.get(&e.0).copied().unwrap_or(0), e.0)).collect();
		v.sort();
		v.into_iter().map(|e| e.1).collect()
	}
}

fn new_cache(capacity: usize) -> Cache {
	Cache::with_maximum_size(capacity * (std::mem::size_of::<u64>() + std::mem::size_of::<Val>()))
}

fn canon_of(c: &Cache) -> (usize, Canon) {
	let (maxlen, _last, mut entries) = c.verif_snapshot();
	entries.sort();
	let mut stamps: Vec<u64> = entries.iter().map(|e| e.2).collect();
	stamps.sort_unstable();
	stamps.dedup();
	let canon = entries
		.iter()
		.map(|(k, v, s)| (*k, v.0, v.1, stamps.binary_search(s).unwrap() as u32))
		.collect();
	(maxlen, canon)
}

/// Applies one operation to the real cache and checks every per-step clause of the property.
/// Returns the list of failed clauses (signature, description).
fn step(c: &mut Cache, capacity: usize, op: Op, h: &mut Hist) -> Vec<(String, String)> {
	let mut bad = vec![];
	let just_used = h.last_used;
	let mut uses_now: Option<u64> = None;
	let stored = &mut h.stored;
	let (_, before) = canon_of(c);
	let present_before = |k: u64| before.iter().find(|e| e.0 == k).map(|e| (e.1, e.2));
	// most recently used entry: unique maximal rank, if any entry exists
	let mru = before.iter().max_by_key(|e| e.3).map(|e| e.0);
	match op {
		Op::Add(k, ver) => {
			stored.push((k, (k, ver)));
			let r = c.add(k, (k, ver));
			uses_now = Some(k);
			// add returns the value now held for the key (the old one if the key was present)
			if r.0 != k {
				bad.push(("add-returns-foreign-value".into(), format!("add({k}) returned a value stored under key {}", r.0)));
			}
		}
		Op::Get(k) => {
			let r = c.get(&k);
			if r.is_some() {
				uses_now = Some(k);
			}
			if r.is_some() && present_before(k).is_none() {
				bad.push(("get-answers-a-key-the-cache-does-not-account-for".into(), format!("get({k}) returned {r:?} although the cache's own entry list does not hold the key (the size bound is evaded)")));
			}
			match (r, present_before(k)) {
				(Some(v), _) if !stored.contains(&(k, v)) => bad.push((
					"get-returns-value-never-stored-under-key".into(),
					format!("get({k}) returned {v:?}, which was never stored under that key"),
				)),
				(Some(v), Some(p)) if (v.0, v.1) != p => {
					bad.push(("get-returns-other-than-held".into(), format!("get({k}) returned {v:?} but the cache held {p:?}")))
				}
				(None, Some(_)) => bad.push(("get-misses-held-entry".into(), format!("get({k}) returned None although the entry is held"))),
				_ => {}
			}
		}
		Op::GosOk(k, ver) => {
			let mut called = false;
			let r = c.get_or_set(&k, || {
				called = true;
				Ok((k, ver))
			});
			match r {
				Err(e) => bad.push(("get_or_set-fails-with-ok-loader".into(), format!("get_or_set({k}) failed: {e}"))),
				Ok(v) => {
					uses_now = Some(k);
					if called {
						stored.push((k, (k, ver)));
						if v != (k, ver) {
							bad.push((
								"get_or_set-miss-returns-other-than-computed".into(),
								format!("get_or_set({k}) ran the loader (value {:?}) but returned {v:?}", (k, ver)),
							));
						}
						if present_before(k).is_some() {
							// calling the loader although held is not forbidden by the statement
						}
					} else {
						if !stored.contains(&(k, v)) {
							bad.push((
								"get_or_set-hit-returns-value-never-stored-under-key".into(),
								format!("get_or_set({k}) returned {v:?} without computing; never stored under that key"),
							));
						}
						if present_before(k).is_none() {
							bad.push(("get_or_set-hit-without-entry".into(), format!("get_or_set({k}) returned {v:?} without loader and without entry")));
						}
					}
				}
			}
		}
		Op::GosErr(k) => {
			let mut called = false;
			let r = c.get_or_set(&k, || {
				called = true;
				Err(anyhow::anyhow!("loader failed"))
			});
			match r {
				Ok(v) => {
					uses_now = Some(k);
					if called {
						bad.push(("get_or_set-swallows-loader-error".into(), format!("get_or_set({k}) returned {v:?} although the loader failed")));
					} else if !stored.contains(&(k, v)) {
						bad.push(("get_or_set-hit-returns-value-never-stored-under-key".into(), format!("get_or_set({k}) returned {v:?}")));
					}
				}
				Err(_) => {
					let (_, after) = canon_of(c);
					if after.iter().any(|e| e.0 == k) {
						bad.push(("get_or_set-inserts-on-error".into(), format!("get_or_set({k}) with failing loader left an entry")));
					}
				}
			}
		}
	}
	let (maxlen, after) = canon_of(c);
	if maxlen != capacity {
		bad.push(("capacity-derivation".into(), format!("cache built for {capacity} entries reports max_length {maxlen}")));
	}
	if after.len() > capacity {
		bad.push(("size-exceeds-capacity".into(), format!("{} entries held, capacity {capacity}", after.len())));
	}
	for e in &after {
		if e.1 != e.0 || !stored.contains(&(e.0, (e.1, e.2))) {
			bad.push(("entry-holds-foreign-value".into(), format!("key {} holds value ({},{}) never stored under it", e.0, e.1, e.2)));
		}
	}
	// eviction happened iff a key held before is no longer held
	let evicted: Vec<u64> = before.iter().filter(|b| !after.iter().any(|a| a.0 == b.0)).map(|b| b.0).collect();
	if !evicted.is_empty() && capacity >= 2 {
		// the entry used by the previous operation (according to the operations issued, and, as a cross-check,
		// according to the cache's own stamps) must survive this eviction
		for (m, how) in [(just_used, "the entry the previous operation used"), (mru, "the entry with the newest access stamp")] {
			if let Some(m) = m {
				if evicted.contains(&m) && before.iter().any(|b| b.0 == m) {
					bad.push((
						format!("just-used-entry-evicted capacity={capacity}"),
						format!("eviction during {op:?} removed key {m}, {how} (evicted {evicted:?}, capacity {capacity})"),
					));
					break;
				}
			}
		}
	}
	if let Some(k) = uses_now {
		h.used(k);
	}
	bad
}

/// Applies an operation without evaluating the oracle (used for the already-checked prefix).
fn apply(c: &mut Cache, op: Op, h: &mut Hist) {
	let stored = &mut h.stored;
	let mut uses_now = None;
	match op {
		Op::Add(k, ver) => {
			stored.push((k, (k, ver)));
			c.add(k, (k, ver));
			uses_now = Some(k);
		}
		Op::Get(k) => {
			if c.get(&k).is_some() {
				uses_now = Some(k);
			}
		}
		Op::GosOk(k, ver) => {
			let mut called = false;
			let r = c.get_or_set(&k, || {
				called = true;
				Ok((k, ver))
			});
			if called {
				stored.push((k, (k, ver)));
			}
			if r.is_ok() {
				uses_now = Some(k);
			}
		}
		Op::GosErr(k) => {
			if c.get_or_set(&k, || Err(anyhow::anyhow!("loader failed"))).is_ok() {
				uses_now = Some(k);
			}
		}
	}
	if let Some(k) = uses_now {
		h.used(k);
	}
}

/// Replays `hist` on a fresh real cache; the oracle is evaluated on the last operation only
/// (every proper prefix is the history of an earlier transition and was checked there).
pub fn run_history(capacity: usize, hist: &[Op]) -> ((Canon, Vec<u64>), Vec<(String, String)>) {
	let mut c = new_cache(capacity);
	let mut h = Hist::default();
	let mut bad_last = vec![];
	for (i, op) in hist.iter().enumerate() {
		if i + 1 == hist.len() {
			bad_last = step(&mut c, capacity, *op, &mut h);
		} else {
			apply(&mut c, *op, &mut h);
		}
	}
	// the de-duplication key: the cache's own entries and stamps' ranks, plus the key the last operation used
	// according to the operations issued (determined by the stamps while the cache keeps them right; an
	// implementation that does not refresh them is still explored through the states that differ)
	let canon = canon_of(&c).1;
	let _ = h.order_of(&canon);
	let order = vec![h.last_used.map(|k| k + 1).unwrap_or(0)];
	((canon, order), bad_last)
}

#[derive(Clone, Debug)]
struct St {
	hist: Vec<Op>,
	canon: (Canon, Vec<u64>),
}
impl PartialEq for St {
	fn eq(&self, o: &St) -> bool {
		self.canon == o.canon
	}
}
impl Eq for St {}
impl Hash for St {
	fn hash<H: Hasher>(&self, h: &mut H) {
		self.canon.hash(h)
	}
}

struct CacheModel {
	capacity: usize,
	prefix: Vec<Op>,
	alphabet: Vec<Op>,
	max_depth: Option<usize>,
	ctx: Arc<Ctx>,
}

impl Model for CacheModel {
	type State = St;
	type Action = Op;
	fn init_states(&self) -> Vec<St> {
		let (canon, _) = run_history(self.capacity, &self.prefix);
		vec![St { hist: vec![], canon }]
	}
	fn actions(&self, s: &St, out: &mut Vec<Op>) {
		if let Some(d) = self.max_depth {
			if s.hist.len() >= d {
				return;
			}
		}
		out.extend(self.alphabet.iter().copied());
	}
	fn next_state(&self, s: &St, op: Op) -> Option<St> {
		let mut hist = s.hist.clone();
		hist.push(op);
		let mut full = self.prefix.clone();
		full.extend(hist.iter().copied());
		let (canon, bad) = run_history(self.capacity, &full);
		self.ctx.transition(1);
		self.ctx.trace(1);
		self.ctx.eval();
		for (sig, desc) in bad {
			self.ctx.violation(&sig, &desc, json!({"capacity": self.capacity, "history": full}));
		}
		Some(St { hist, canon })
	}
	fn properties(&self) -> Vec<Property<Self>> {
		// Oracle failures are collected per transition through ctx (so the search continues to
		// closure instead of stopping at the first discovery); this property keeps the checker running.
		vec![Property::<Self>::always("search runs to closure", |_, _| true)]
	}
}

fn alphabet(keys: &[u64], versions: u32) -> Vec<Op> {
	let mut a = vec![];
	for &k in keys {
		a.push(Op::Get(k));
	}
	for &k in keys {
		for v in 0..versions {
			a.push(Op::Add(k, v));
		}
	}
	for &k in keys {
		for v in 0..versions {
			a.push(Op::GosOk(k, v));
		}
		a.push(Op::GosErr(k));
	}
	a
}

fn explore(ctx: &Arc<Ctx>, capacity: usize, prefix: Vec<Op>, keys: &[u64], versions: u32, max_depth: Option<usize>, label: &str) -> (usize, usize, usize) {
	let run = |threads: usize| {
		let m = CacheModel { capacity, prefix: prefix.clone(), alphabet: alphabet(keys, versions), max_depth, ctx: ctx.clone() };
		let ch = m.checker().threads(threads).spawn_bfs().join();
		(ch.unique_state_count(), ch.state_count(), ch.max_depth())
	};
	let t = crate::par::threads();
	let t0 = std::time::Instant::now();
	let (u, s, d) = run(t);
	if std::env::var_os("VERIF_VERBOSE").is_some() {
		eprintln!("{label}: unique={u} generated={s} depth={d} in {:.2}s", t0.elapsed().as_secs_f64());
	}
	ctx.state(u as u64);
	ctx.outcome_n(&format!("{label}: unique_states"), u as u64);
	ctx.outcome_n(&format!("{label}: max_depth"), d as u64);
	(u, s, d)
}

/// The cache as the readers use it (block tile indexes of versatiles, leaf directories of PMTiles): on one
/// opened reader every lookup of every sequence of <= 2 (quick) / 3 (thorough) lookups must answer as the same
/// lookup answers on a freshly opened reader -- for valid containers (incl. PMTiles with two leaf levels) and
/// for containers whose index blocks are damaged, so that loaders fail.
fn users(ctx: &Arc<Ctx>) {
	use crate::codec::{self, PmLayout, VtLayout};
	use versatiles_container::{PMTilesReader, VersaTilesReader};
	use versatiles_core::io::DataReaderBlob;
	use versatiles_core::types::{TileCoord3, TilesReaderTrait};
	let mut files: Vec<(String, bool, Vec<u8>)> = vec![];
	let mut truth: Vec<crate::memsource::TileMap> = vec![];
	for (si, set) in crate::c19cases::small_sets().into_iter().enumerate() {
		truth.extend(std::iter::repeat(set.clone()).take(1 + PmLayout::all().into_iter().filter(|l| l.leaf_levels >= 1 && l.leaf_size <= 2 && !l.data_reversed && !l.share_offsets).count()));
		files.push((format!("valid versatiles #{si}"), true, codec::vt_encode(&set, 0x10, 0, b"{}", VtLayout::plain())));
		for l in PmLayout::all().into_iter().filter(|l| l.leaf_levels >= 1 && l.leaf_size <= 2 && !l.data_reversed && !l.share_offsets) {
			files.push((format!("valid pmtiles #{si} {} leaf level(s), leaf size {}, run lengths {}", l.leaf_levels, l.leaf_size, l.run_lengths), false, codec::pm_encode(&set, 2, 1, b"{}", l)));
		}
	}
	let n_valid = files.len();
	// damaged index blocks (C19's generators): keep those that still open and answer at least one lookup with an error
	let mut damaged: Vec<(bool, Vec<u8>)> = vec![];
	crate::c19cases::vt_inner(&mut |b: &[u8]| damaged.push((true, b.to_vec())));
	crate::c19cases::pm_inner(&mut |b: &[u8]| damaged.push((false, b.to_vec())));
	let probes: Vec<TileCoord3> = [(0u8, 0u32, 0u32), (1, 0, 0), (1, 1, 0), (3, 1, 2), (3, 2, 2), (9, 255, 256), (9, 255, 257), (9, 256, 256), (9, 257, 256)].iter().map(|k| TileCoord3 { x: k.1, y: k.2, z: k.0 }).collect();
	let rt = tokio::runtime::Builder::new_current_thread().build().unwrap();
	let open = |vt: bool, bytes: &[u8]| -> Option<Box<dyn TilesReaderTrait>> {
		let b = bytes.to_vec();
		crate::par::catch(|| {
			let rt = tokio::runtime::Builder::new_current_thread().build().unwrap();
			rt.block_on(async move {
				if vt {
					VersaTilesReader::open_reader(Box::new(DataReaderBlob::from(b))).await.ok().map(|r| r.boxed())
				} else {
					PMTilesReader::open_reader(Box::new(DataReaderBlob::from(b))).await.ok().map(|r| r.boxed())
				}
			})
		})
		.ok()
		.flatten()
	};
	let answer = |rt: &tokio::runtime::Runtime, r: &dyn TilesReaderTrait, c: &TileCoord3| -> String {
		match crate::par::catch(|| rt.block_on(r.get_tile_data(c))) {
			Ok(Ok(Some(b))) => format!("tile {:016x}/{}", crate::ctx::fnv(b.as_slice()), b.len()),
			Ok(Ok(None)) => "none".into(),
			Ok(Err(_)) => "error".into(),
			Err(p) => format!("panic at {}", crate::par::panic_site(&p)),
		}
	};
	let mut kept = 0usize;
	let cap = ctx.tier.pick(60usize, 240usize);
	for (i, (vt, bytes)) in damaged.iter().enumerate() {
		if kept >= cap {
			break;
		}
		if let Some(r) = open(*vt, bytes) {
			let cold: Vec<String> = probes.iter().map(|c| open(*vt, bytes).map(|f| answer(&rt, f.as_ref(), c)).unwrap_or_default()).collect();
			let _ = r;
			if cold.iter().any(|a| a == "error") && cold.iter().any(|a| a.starts_with("tile")) {
				files.push((format!("{} with a damaged index block (C19 case #{i})", if *vt { "versatiles" } else { "pmtiles" }), *vt, bytes.clone()));
				kept += 1;
			}
		}
	}
	let depth = ctx.tier.pick(2usize, 3usize);
	let (ctxr, fr, pr, truthr): (&Ctx, _, _, _) = (ctx, &files, &probes, &truth);
	crate::par::par_for(files.len(), |fi| {
		let (name, vt, bytes) = &fr[fi];
		let rt = tokio::runtime::Builder::new_current_thread().build().unwrap();
		let cold: Vec<String> = pr.iter().map(|c| open(*vt, bytes).map(|f| answer(&rt, f.as_ref(), c)).unwrap_or_else(|| "unopenable".into())).collect();
		// valid containers: the fresh reader's answer is the encoded tile (get-or-compute yields the value of that key)
		if fi < n_valid {
			for (c, a) in pr.iter().zip(cold.iter()) {
				let want = match truthr[fi].get(&(c.z, c.x, c.y)).filter(|v| !v.is_empty()) {
					Some(v) => format!("tile {:016x}/{}", crate::ctx::fnv(v), v.len()),
					None => "none".to_string(),
				};
				if *a != want {
					ctxr.violation(
						&format!("{} reader: a lookup through the index cache does not return the tile stored under that coordinate", if *vt { "versatiles" } else { "pmtiles" }),
						&format!("{name}: ({},{},{}) answers '{a}', stored: '{want}'", c.z, c.x, c.y),
						json!({"users": true, "file": name, "sequence": []}),
					);
				}
			}
		}
		let n = pr.len();
		let mut seqs: Vec<Vec<usize>> = (0..n).map(|a| vec![a]).collect();
		let mut frontier = seqs.clone();
		for _ in 1..depth {
			let mut next = vec![];
			for f in &frontier {
				for a in 0..n {
					let mut g = f.clone();
					g.push(a);
					next.push(g);
				}
			}
			seqs.extend(next.iter().cloned());
			frontier = next;
		}
		for q in &seqs {
			let Some(r) = open(*vt, bytes) else { continue };
			ctxr.eval();
			ctxr.transition(q.len() as u64);
			for (step, &a) in q.iter().enumerate() {
				let got = answer(&rt, r.as_ref(), &pr[a]);
				if got != cold[a] {
					let c = &pr[a];
					ctxr.violation(
						&format!("{} reader: a lookup on a used reader answers differently from the same lookup on a fresh reader", if *vt { "versatiles" } else { "pmtiles" }),
						&format!("{name}: lookups {:?}: step {step} at ({},{},{}) answers '{got}', a fresh reader answers '{}'", q.iter().map(|i| (pr[*i].z, pr[*i].x, pr[*i].y)).collect::<Vec<_>>(), c.z, c.x, c.y, cold[a]),
						json!({"users": true, "file": name, "sequence": q}),
					);
					break;
				}
			}
		}
		ctxr.state(seqs.len() as u64);
		ctxr.trace(seqs.len() as u64);
		if fi >= n_valid || name.contains("pmtiles") {
			ctxr.nontrivial(crate::ctx::fnv_str(name));
		}
	});
	ctx.extra("cache_users", json!({"valid_containers": n_valid, "containers_with_damaged_index_blocks": files.len() - n_valid, "lookup_sequences_per_container": (1..=depth).map(|d| probes.len().pow(d as u32)).sum::<usize>(), "coordinates": probes.len()}));
}

/// The cache with the key types the readers really use (ByteRange for PMTiles leaf directories, TileCoord3 for
/// versatiles block indexes), over keys that differ in a single field: every history of length <= 4 of add / get /
/// get_or_set; a lookup may only ever answer with a value that was stored under exactly that key (all fields).
fn typed_keys(ctx: &Arc<Ctx>) {
	use versatiles_core::types::{ByteRange, LimitedCache, TileCoord3};
	fn run_all<K: Clone + std::hash::Hash + Eq + std::fmt::Debug + Send + Sync>(ctx: &Ctx, what: &str, keys: &[K], ident: &(dyn Fn(&K) -> String + Sync)) -> u64 {
		// value = identity of the key it was stored under + a version
		let n = keys.len();
		let ops: Vec<(u8, usize)> = (0..n).flat_map(|k| [(0u8, k), (1, k), (2, k)]).collect();
		let depth = 4usize;
		let counter = std::sync::atomic::AtomicU64::new(0);
		for cap in [1usize, 2, 8] {
			let firsts: Vec<usize> = (0..ops.len()).collect();
			crate::par::par_for(firsts.len(), |fi| {
				let mut stack: Vec<Vec<usize>> = vec![vec![fi]];
				let mut cnt = 0u64;
				while let Some(h) = stack.pop() {
					let mut cache: LimitedCache<K, (String, u32)> = LimitedCache::with_maximum_size(cap * (std::mem::size_of::<K>() + std::mem::size_of::<(String, u32)>()));
					let mut stored: Vec<(String, (String, u32))> = vec![];
					for (step, oi) in h.iter().enumerate() {
						let (kind, ki) = ops[*oi];
						let key = &keys[ki];
						let id = ident(key);
						let val = (id.clone(), step as u32);
						let answer: Option<(String, u32)> = match kind {
							0 => {
								stored.push((id.clone(), val.clone()));
								Some(cache.add(key.clone(), val))
							}
							1 => cache.get(key),
							_ => {
								let mut called = false;
								let r = cache.get_or_set(key, || {
									called = true;
									Ok(val.clone())
								});
								if called {
									stored.push((id.clone(), val.clone()));
								}
								r.ok()
							}
						};
						if let Some(a) = answer {
							if a.0 != id || !stored.iter().any(|s| s.0 == id && s.1 == a) {
								ctx.violation(
									&format!("{what}: the cache answers a key with a value stored under another key"),
									&format!("capacity {cap}, history {:?}: step {step} on key {id} answers {a:?}", h.iter().map(|o| (["add", "get", "get_or_set"][ops[*o].0 as usize], ident(&keys[ops[*o].1]))).collect::<Vec<_>>()),
									json!({"typed_keys": what, "capacity": cap, "history": h}),
								);
							}
						}
					}
					cnt += 1;
					if h.len() < depth {
						for o in 0..ops.len() {
							let mut h2 = h.clone();
							h2.push(o);
							stack.push(h2);
						}
					}
				}
				counter.fetch_add(cnt, std::sync::atomic::Ordering::Relaxed);
			});
		}
		counter.load(std::sync::atomic::Ordering::Relaxed)
	}
	let ranges = vec![ByteRange::new(100, 10), ByteRange::new(100, 20), ByteRange::new(110, 10), ByteRange::new(0, 10), ByteRange::new(100, 0), ByteRange::new(0, 0), ByteRange::new(110, 0)];
	let n1 = run_all(ctx, "ByteRange keys", &ranges, &|r: &ByteRange| format!("[{}+{}]", r.offset, r.length));
	let coords = vec![TileCoord3 { x: 1, y: 0, z: 2 }, TileCoord3 { x: 5, y: 0, z: 2 }, TileCoord3 { x: 1, y: 4, z: 2 }, TileCoord3 { x: 1, y: 0, z: 3 }, TileCoord3 { x: 0, y: 0, z: 0 }, TileCoord3 { x: 1, y: 0, z: 0 }];
	let n2 = run_all(ctx, "TileCoord3 keys", &coords, &|c: &TileCoord3| format!("({},{},{})", c.z, c.x, c.y));
	ctx.evals(n1 + n2);
	ctx.transition(n1 + n2);
	ctx.outcome_n("histories over the readers' real key types (keys that differ in one field)", n1 + n2);
}

pub fn run(ctx: Arc<Ctx>) {
	users(&ctx);
	typed_keys(&ctx);
	ctx.rule("key types: every history of length <= 4 over the readers' real key types (ByteRange, TileCoord3) with keys that differ in one field - an answer must have been stored under exactly that key || in-tree users: every sequence of <= 2 (quick) / 3 (thorough) lookups over 9 coordinates on one opened versatiles / PMTiles reader (valid containers incl. one and two leaf levels; containers with damaged index blocks whose loaders fail) answers like a fresh reader");
	ctx.rule(
		"stateright BFS over the real LimitedCache<u64,(u64,u32)>; state = op history, dedup key = sorted (key,value,stamp rank) from verif_snapshot + the key the last operation used; recency for the 'just used' clause is kept by the harness from the operations issued, not read from the cache; plus every history of length <= 5..6 (thorough 5..7) at capacities 1..3 (thorough 1..5) without de-duplication; \
		 alphabet get/add/get_or_set(ok|err) x keys x value versions; non-trivial = distinct canonical states in which the cache is full (next insertion evicts)",
	);
	ctx.assume("states with equal canonical form (key,value,rank-of-stamp incl. ties) have equal futures: cleanup only compares stamps, new stamps exceed all old ones");
	ctx.assume("std HashMap iteration order does not influence LimitedCache behaviour (retain/collect are order-insensitive)");
	let closure_caps: Vec<usize> = ctx.tier.pick(vec![1, 2, 3, 4, 5], vec![1, 2, 3, 4, 5, 6, 7, 8]);
	let mut closed_all = true;
	for &cap in &closure_caps {
		let keys: Vec<u64> = (0..(cap as u64 + 2)).collect();
		let versions = if cap <= 4 { 2 } else { 1 };
		// consistency: parallel search run twice with different thread counts must agree
		let a = explore(&ctx, cap, vec![], &keys, versions, None, &format!("closure cap={cap} keys={} versions={versions}", keys.len()));
		if cap <= 3 {
			let m = CacheModel { capacity: cap, prefix: vec![], alphabet: alphabet(&keys, versions), max_depth: None, ctx: Arc::new(Ctx::new("C20-shadow", ctx.tier, "model_checking")) };
			let ch = m.checker().threads(1).spawn_bfs().join();
			if ch.unique_state_count() != a.0 {
				eprintln!("MACHINERY: state count differs between thread counts: {} vs {}", ch.unique_state_count(), a.0);
				std::process::exit(2);
			}
		}
		ctx.sample(json!({"capacity": cap, "keys": keys.len(), "versions": versions, "unique_states": a.0, "generated_states": a.1, "max_depth": a.2, "closed": true}));
		let _ = &mut closed_all;
	}
	// Large capacities: start from non-initial states (full cache; full cache touched in reverse
	// order; full cache after one eviction) and explore every sequence up to the depth bound over
	// keys around the oldest / median / newest entries plus new keys.
	let big_caps: Vec<usize> = ctx.tier.pick(vec![7, 8, 15, 16, 17, 31, 32, 33, 63, 64], (7..=64).collect());
	let depth = ctx.tier.pick(3usize, 4usize);
	for &cap in &big_caps {
		let c = cap as u64;
		let mut keys = vec![0, 1, c / 2 - 1, c / 2, c / 2 + 1, c - 2, c - 1, c, c + 1, c + 2];
		keys.sort_unstable();
		keys.dedup();
		let fill: Vec<Op> = (0..c).map(|k| Op::Add(k, 0)).collect();
		let mut rev = fill.clone();
		rev.extend((0..c).rev().map(Op::Get));
		let mut evicted_once = fill.clone();
		evicted_once.push(Op::Add(c + 3, 0));
		evicted_once.extend((0..c).map(|k| Op::GosOk(k, 0)));
		for (name, prefix) in [("full", fill), ("full-touched-in-reverse", rev), ("refilled-after-eviction", evicted_once)] {
			let r = explore(&ctx, cap, prefix, &keys, 1, Some(depth), &format!("bounded cap={cap} start={name} depth<={depth}"));
			if cap == 64 {
				ctx.sample(json!({"capacity": cap, "start": name, "depth_bound": depth, "unique_states": r.0, "generated_states": r.1}));
			}
		}
	}
	// Every operation sequence up to a depth, without state de-duplication: the closure search above merges states
	// that the cache's own bookkeeping shows as equal, which is only sound while the cache has no memory outside
	// that bookkeeping. Here every history is run as it is (oracle on its last operation).
	{
		let plans: Vec<(usize, Vec<u64>, usize)> = ctx.tier.pick(
			vec![(1, vec![0, 1, 2], 6), (2, vec![0, 1, 2, 3], 6), (3, vec![0, 1, 2, 3, 4], 5)],
			vec![(1, vec![0, 1, 2], 7), (2, vec![0, 1, 2, 3], 6), (2, vec![0, 1, 2], 7), (3, vec![0, 1, 2, 3, 4], 6), (4, vec![0, 1, 2, 3, 4, 5], 5), (5, vec![0, 1, 2, 3, 4, 5, 6], 5)],
		);
		let mut total = 0u64;
		for (cap, keys, depth) in plans {
			let mut alpha: Vec<Op> = vec![];
			for &k in &keys {
				alpha.extend([Op::Get(k), Op::Add(k, 0), Op::GosOk(k, 1), Op::GosErr(k)]);
			}
			// one worker per first two operations
			let firsts: Vec<(Op, Op)> = alpha.iter().flat_map(|a| alpha.iter().map(move |b| (*a, *b))).collect();
			let counter = std::sync::atomic::AtomicU64::new(0);
			let (ctxr, fr, ar, cr): (&Ctx, _, _, _) = (&ctx, &firsts, &alpha, &counter);
			crate::par::par_for(firsts.len(), |fi| {
				let mut n = 0u64;
				// iterative DFS over the suffixes; each node replays its history on a fresh cache
				let mut stack: Vec<Vec<Op>> = vec![vec![fr[fi].0, fr[fi].1]];
				if fi < ar.len() {
					stack.push(vec![ar[fi]]);
				}
				while let Some(h) = stack.pop() {
					let mut c = new_cache(cap);
					let mut m = Hist::default();
					let mut bad = vec![];
					for (i, op) in h.iter().enumerate() {
						if i + 1 == h.len() {
							bad = step(&mut c, cap, *op, &mut m);
						} else {
							apply(&mut c, *op, &mut m);
						}
					}
					n += 1;
					for (sig, desc) in bad {
						ctxr.violation(&sig, &desc, json!({"capacity": cap, "history": h}));
					}
					if h.len() >= 2 && h.len() < depth {
						for op in ar.iter() {
							let mut h2 = h.clone();
							h2.push(*op);
							stack.push(h2);
						}
					}
				}
				cr.fetch_add(n, std::sync::atomic::Ordering::Relaxed);
			});
			let n = counter.load(std::sync::atomic::Ordering::Relaxed);
			ctx.evals(n);
			ctx.transition(n);
			ctx.trace(n);
			ctx.outcome_n(&format!("every history of length <= {depth} at capacity {cap} over {} keys (no de-duplication)", keys.len()), n);
			total += n;
		}
		ctx.extra("histories_without_deduplication", json!(total));
	}
	ctx.extra("closure_capacities", json!(closure_caps));
	ctx.extra("bounded_capacities", json!(big_caps));
	ctx.extra("bounded_depth", json!(depth));
	ctx.extra(
		"explanation",
		json!("capacities in closure_capacities were explored to closure (all reachable canonical states, capacity+2 keys); capacities in bounded_capacities from three non-initial full states to the stated depth, which is a bound, not closure"),
	);
	// vacuity guard / non-trivial count: distinct states where the cache is full
	count_full_states(&ctx, &closure_caps);
	ctx.exhaustive(true);
}

fn count_full_states(ctx: &Arc<Ctx>, caps: &[usize]) {
	// cheap re-enumeration by plain BFS (no oracle) to count the distinct full canonical states
	for &cap in caps.iter().filter(|c| **c <= 4) {
		let keys: Vec<u64> = (0..(cap as u64 + 2)).collect();
		let versions = if cap <= 4 { 2 } else { 1 };
		let alpha = alphabet(&keys, versions);
		let mut seen = std::collections::HashSet::new();
		let mut frontier = vec![vec![]];
		seen.insert(run_history(cap, &[]).0);
		while let Some(h) = frontier.pop() {
			for op in &alpha {
				let mut h2: Vec<Op> = h.clone();
				h2.push(*op);
				let (canon, _) = run_history(cap, &h2);
				if seen.insert(canon.clone()) {
					if canon.0.len() == cap {
						ctx.nontrivial(fnv_str(&format!("{cap}:{canon:?}")));
					}
					frontier.push(h2);
				}
			}
		}
	}
}

pub fn replay(ctx: Arc<Ctx>, case: &Value) {
	if case.get("users").is_some() {
		// the users part is small: re-run it as a whole, twice
		println!("  case: {case}");
		users(&ctx);
		users(&ctx);
		return;
	}
	let capacity = case["capacity"].as_u64().unwrap() as usize;
	let hist: Vec<Op> = serde_json::from_value(case["history"].clone()).expect("history");
	let mut obs = vec![];
	for _ in 0..2 {
		let mut c = new_cache(capacity);
		let mut stored = Hist::default();
		let mut all_bad = vec![];
		for op in &hist {
			let b = step(&mut c, capacity, *op, &mut stored);
			println!("  {op:?} -> {:?}{}", canon_of(&c).1, if b.is_empty() { String::new() } else { format!("   <-- {b:?}") });
			all_bad.extend(b);
		}
		obs.push(format!("{all_bad:?}"));
		for (sig, desc) in all_bad {
			ctx.violation(&sig, &desc, case.clone());
		}
	}
	if obs[0] != obs[1] {
		eprintln!("MACHINERY: replay observations differ between two runs");
		std::process::exit(2);
	}
	let _ = Tier::Quick;
}
