//! C12 — an interrupted write never leaves a file that opens as a valid, wrong container.
//!
//! E-fault: a recording `DataWriterTrait` logs every operation of the real VersaTilesWriter /
//! PMTilesWriter; for every prefix of the log and every byte cut of the next write the crash image
//! is materialised (zero-filled sparse file semantics) and opened with the real reader.

use crate::codec;
use crate::ctx::{fnv, Ctx, Tier};
use crate::memsource::{Key, MemSource, TileMap};
use crate::par::{catch, par_for};
use crate::tilesets;
use anyhow::Result;
use serde_json::{json, Value};
use std::sync::Arc;
use versatiles_container::{PMTilesReader, PMTilesWriter, TilesWriterTrait, VersaTilesReader, VersaTilesWriter};
use versatiles_core::io::{DataReaderBlob, DataWriterFile, DataWriterTrait};
use versatiles_core::types::{Blob, ByteRange, TileCompression, TileCoord3, TileFormat, TilesReaderTrait};

#[derive(Debug, Clone, PartialEq)]
pub enum WOp {
	Write { pos: u64, data: Vec<u8> },
	WriteStart { data: Vec<u8> },
	SetPos(u64),
}

#[derive(Default)]
pub struct RecordingWriter {
	pub log: Vec<WOp>,
	pos: u64,
}

impl DataWriterTrait for RecordingWriter {
	fn append(&mut self, blob: &Blob) -> Result<ByteRange> {
		let r = ByteRange::new(self.pos, blob.len());
		self.log.push(WOp::Write { pos: self.pos, data: blob.as_slice().to_vec() });
		self.pos += blob.len();
		Ok(r)
	}
	fn write_start(&mut self, blob: &Blob) -> Result<()> {
		self.log.push(WOp::WriteStart { data: blob.as_slice().to_vec() });
		Ok(())
	}
	fn get_position(&mut self) -> Result<u64> {
		Ok(self.pos)
	}
	fn set_position(&mut self, position: u64) -> Result<()> {
		self.log.push(WOp::SetPos(position));
		self.pos = position;
		Ok(())
	}
}

fn apply(img: &mut Vec<u8>, pos: u64, data: &[u8]) {
	let end = pos as usize + data.len();
	if img.len() < end {
		img.resize(end, 0);
	}
	img[pos as usize..end].copy_from_slice(data);
}

/// Image after `k` complete operations plus the first `cut` bytes of operation k (if it is a write).
pub fn materialize(log: &[WOp], k: usize, cut: usize) -> Vec<u8> {
	let mut img = vec![];
	for op in &log[..k] {
		match op {
			WOp::Write { pos, data } => apply(&mut img, *pos, data),
			WOp::WriteStart { data } => apply(&mut img, 0, data),
			WOp::SetPos(_) => {}
		}
	}
	if cut > 0 {
		match &log[k] {
			WOp::Write { pos, data } => apply(&mut img, *pos, &data[..cut]),
			WOp::WriteStart { data } => apply(&mut img, 0, &data[..cut]),
			WOp::SetPos(_) => {}
		}
	}
	img
}

fn op_len(op: &WOp) -> usize {
	match op {
		WOp::Write { data, .. } | WOp::WriteStart { data } => data.len(),
		WOp::SetPos(_) => 0,
	}
}

#[derive(Debug, Clone, Copy, PartialEq, Eq)]
pub enum Fmt {
	Versatiles,
	Pmtiles,
}

fn comp_of(i: u8) -> TileCompression {
	match i {
		0 => TileCompression::Uncompressed,
		1 => TileCompression::Gzip,
		_ => TileCompression::Brotli,
	}
}

pub fn record(rt: &tokio::runtime::Runtime, fmt: Fmt, tiles: &TileMap, comp: u8) -> Result<Vec<WOp>, String> {
	// payloads are stored as given (declared compression is a label for the container)
	let mut src = MemSource::new("mem", tiles.clone(), TileFormat::PNG, comp_of(comp));
	let mut w = RecordingWriter::default();
	let r = catch(|| {
		rt.block_on(async {
			match fmt {
				Fmt::Versatiles => VersaTilesWriter::write_to_writer(&mut src, &mut w).await,
				Fmt::Pmtiles => PMTilesWriter::write_to_writer(&mut src, &mut w).await,
			}
		})
	});
	match r {
		Ok(Ok(())) => Ok(w.log),
		Ok(Err(e)) => Err(format!("writer failed: {e:#}")),
		Err(p) => Err(format!("writer panicked: {p}")),
	}
}

#[derive(Debug, PartialEq)]
enum Verdict {
	OpenFails,
	OpenPanics(String),
	Intact,
	IntactButFormatDiffers,
	Wrong(String),
}

fn judge(rt: &tokio::runtime::Runtime, fmt: Fmt, img: Vec<u8>, tiles: &TileMap, probes: &[Key]) -> Verdict {
	let r = catch(|| {
		rt.block_on(async {
			let reader: Box<dyn TilesReaderTrait> = match fmt {
				Fmt::Versatiles => match VersaTilesReader::open_reader(Box::new(DataReaderBlob::from(img))).await {
					Ok(r) => r.boxed(),
					Err(_) => return Verdict::OpenFails,
				},
				Fmt::Pmtiles => match PMTilesReader::open_reader(Box::new(DataReaderBlob::from(img))).await {
					Ok(r) => r.boxed(),
					Err(_) => return Verdict::OpenFails,
				},
			};
			for &(z, x, y) in probes {
				let want = tiles.get(&(z, x, y)).filter(|v| !v.is_empty());
				let got = reader.get_tile_data(&TileCoord3 { x, y, z }).await;
				match (want, got) {
					(Some(w), Ok(Some(b))) if b.as_slice() == w.as_slice() => {}
					(None, Ok(None)) => {}
					(Some(_), Ok(Some(_))) => return Verdict::Wrong(format!("tile ({z},{x},{y}) is returned with other bytes")),
					(Some(_), Ok(None)) => return Verdict::Wrong(format!("tile ({z},{x},{y}) of the source is missing")),
					(Some(_), Err(e)) => return Verdict::Wrong(format!("tile ({z},{x},{y}) of the source cannot be read: {e}")),
					(None, Ok(Some(_))) => return Verdict::Wrong(format!("a tile is returned at ({z},{x},{y}) where the source has none")),
					(None, Err(_)) => {}
				}
			}
			let p = reader.get_parameters();
			if p.tile_format != TileFormat::PNG {
				return Verdict::IntactButFormatDiffers;
			}
			Verdict::Intact
		})
	});
	match r {
		Ok(v) => v,
		Err(p) => Verdict::OpenPanics(p),
	}
}

fn cuts_for(op: &WOp, is_header: bool) -> Vec<usize> {
	let n = op_len(op);
	if n <= 1 {
		return vec![];
	}
	if n <= 4096 || is_header {
		(1..n).collect()
	} else {
		let mut v = vec![1, n / 2, n - 1];
		// first and last bytes of every 8 KiB buffer boundary (BufWriter flush granularity)
		let mut b = 8192;
		while b < n {
			v.push(b);
			b += 8192;
		}
		v.sort();
		v.dedup();
		v
	}
}

struct Job {
	fmt: Fmt,
	comp: u8,
	name: String,
	tiles: TileMap,
}

fn jobs(tier: Tier) -> Vec<Job> {
	let mut v = vec![];
	let depth = tier.pick(2usize, 3usize);
	let bfs = tilesets::bfs_sets(depth, false);
	// every BFS state up to the depth, stride-sampled per depth would not be exhaustive: take all of depth<=1,
	// all of depth 2 (quick: those that span two blocks or share payloads), thorough: all
	for spec in &bfs.states {
		let nontriv = tilesets::is_nontrivial(spec);
		let take = match (tier, spec.len()) {
			(_, 1) => spec[0].1 <= 1,
			(Tier::Quick, 2) => nontriv && spec.iter().all(|s| s.1 == 0 || s.1 == 3) && spec[0].0 % 3 == 0,
			(Tier::Thorough, 2) => nontriv && spec.iter().all(|s| s.1 == 0 || s.1 == 3),
			(Tier::Thorough, 3) => nontriv && spec.iter().all(|s| s.1 == 0) && spec[0].0 == 0 && spec[1].0 % 2 == 0,
			_ => false,
		};
		if take {
			let comps: Vec<u8> = if spec.len() == 1 || tier == Tier::Thorough { vec![0, 1, 2] } else { vec![(spec[0].0 % 3)] };
			for comp in comps {
				for fmt in [Fmt::Versatiles, Fmt::Pmtiles] {
					v.push(Job { fmt, comp, name: format!("bfs {spec:?}"), tiles: tilesets::materialize(spec) });
				}
			}
		}
	}
	// one multi-block dense set and one with leaf directories (>= 16384 entries)
	let dense = tilesets::family_dense(9, 250, 250, 12, 12, 30);
	for fmt in [Fmt::Versatiles, Fmt::Pmtiles] {
		v.push(Job { fmt, comp: 1, name: "dense 12x12 across 4 blocks at z=9".into(), tiles: dense.clone() });
	}
	// strips with one tile per 256x256 block: many blocks, so that anything the writers do "every n blocks" happens
	for (n, z) in tier.pick(vec![(70u32, 15u8)], vec![(70, 15), (300, 17), (1100, 19)]) {
		let mut strip = TileMap::new();
		for i in 0..n {
			strip.insert((z, 256 * i + (i % 7), 5 + (i % 3)), format!("strip tile {i:05}").into_bytes());
		}
		strip.insert((0, 0, 0), b"root".to_vec());
		for fmt in [Fmt::Versatiles, Fmt::Pmtiles] {
			v.push(Job { fmt, comp: 0, name: format!("strip of {n} blocks at z={z}"), tiles: strip.clone() });
		}
	}
	// above the sizes at which the PMTiles writer switches to leaf directories (quick: only the tail of the history
	// and the complete file are judged, see `tail_only`)
	if tier == Tier::Quick {
		let big = tilesets::family_dense(8, 60, 60, 130, 130, 12);
		v.push(Job { fmt: Fmt::Pmtiles, comp: 0, name: "dense 130x130 at z=8 (leaf directories), tail of the history".into(), tiles: big });
	}
	if tier == Tier::Thorough {
		let big = tilesets::family_dense(8, 60, 60, 130, 130, 12);
		v.push(Job { fmt: Fmt::Pmtiles, comp: 0, name: "dense 130x130 at z=8 (leaf directories)".into(), tiles: big });
	}
	v
}

pub fn run(ctx: Arc<Ctx>) {
	ctx.rule(
		"for each recorded write history of the real writers: every prefix of complete operations and every byte cut of the next write \
		 (all cuts for writes <= 4 KiB and both header writes; first/middle/last and every 8 KiB boundary for larger writes), image = zero-filled sparse file; \
		 opened with the real reader; non-trivial = distinct crash images that still carry the format's magic bytes",
	);
	ctx.rule("rewrite dimension: the same histories replayed through the real DataWriterFile::from_path onto a destination holding a previous generation (complete container of the same format with other payloads / 96 KiB of 0xAA), every prefix of complete operations; allowed: previous generation byte-identical, open fails, or every tile of the new source intact");
	ctx.assume("crash model = prefixes and byte cuts of the writer's operation sequence on a file whose unwritten bytes read as zero; reordering of unsynced blocks by the OS is outside the property's quantifier");
	let rt = Arc::new(crate::memsource::runtime(2));
	let js = jobs(ctx.tier);
	let conformance = std::sync::atomic::AtomicU64::new(0);
	let ctxr = &ctx;
	let conf = &conformance;
	par_for(js.len(), |ji| {
		let j = &js[ji];
		let rt = tokio::runtime::Builder::new_current_thread().build().unwrap();
		let log = match record(&rt, j.fmt, &j.tiles, j.comp) {
			Ok(l) => l,
			Err(e) => {
				ctxr.outcome(&format!("writer error (not a C12 case): {}", e.chars().take(60).collect::<String>()));
				return;
			}
		};
		let probes = tilesets::probe_coords(&j.tiles);
		// conformance: the recorded log replayed through the real DataWriterFile gives the same bytes
		if ji % 8 == 0 {
			conf.fetch_add(conformance_check(ctxr, &log, j) as u64, std::sync::atomic::Ordering::Relaxed);
		}
		let last_write = log.iter().rposition(|o| matches!(o, WOp::WriteStart { .. }));
		let first_write = log.iter().position(|o| op_len(o) > 0);
		let total_ops = log.len();
		let tail_only = j.name.ends_with("tail of the history");
		for k in 0..=total_ops {
			if tail_only && k + 6 < total_ops {
				continue;
			}
			let mut cuts = vec![0usize];
			if k < total_ops {
				cuts.extend(cuts_for(&log[k], Some(k) == last_write || Some(k) == first_write));
			}
			for cut in cuts {
				let img = materialize(&log, k, cut);
				let has_magic = match j.fmt {
					Fmt::Versatiles => img.len() >= 14 && &img[..14] == b"versatiles_v02",
					Fmt::Pmtiles => img.len() >= 8 && &img[..7] == b"PMTiles",
				};
				let complete = k == total_ops;
				let key = fnv(&img);
				let v = judge(&rt, j.fmt, img, &j.tiles, &probes);
				ctxr.eval();
				ctxr.trace(1);
				if has_magic {
					ctxr.nontrivial(key ^ (ji as u64).wrapping_mul(0x9e3779b97f4a7c15));
				}
				let fmtname = if j.fmt == Fmt::Versatiles { "versatiles" } else { "pmtiles" };
				match &v {
					Verdict::OpenFails => ctxr.outcome(&format!("{fmtname}: open fails")),
					Verdict::OpenPanics(p) => ctxr.outcome(&format!("{fmtname}: open/lookup panics (C19's domain) at {}", crate::par::panic_site(p))),
					Verdict::Intact => ctxr.outcome(&format!("{fmtname}: opens, every tile intact")),
					Verdict::IntactButFormatDiffers => ctxr.outcome(&format!("{fmtname}: opens, every tile intact, declared tile format differs")),
					Verdict::Wrong(why) => {
						let opdesc = if k < total_ops {
							match &log[k] {
								WOp::Write { pos, data } => format!("write of {} bytes at {pos}", data.len()),
								WOp::WriteStart { data } => format!("header rewrite of {} bytes", data.len()),
								WOp::SetPos(p) => format!("seek to {p}"),
							}
						} else {
							"end".into()
						};
						let site = if complete {
							"complete file".to_string()
						} else if Some(k) == last_write {
							"torn final header write".to_string()
						} else if last_write.is_some_and(|l| k > l) {
							"after the final header write".to_string()
						} else {
							"before the final header write".to_string()
						};
						ctxr.violation(
							&format!("{fmtname}: crash image opens but lacks or misreports tiles ({site})"),
							&format!("{} comp={} [{}]: after {k} of {total_ops} operations + {cut} bytes of the next ({opdesc}): {why}", fmtname, j.comp, j.name),
							json!({"format": fmtname, "compression": j.comp, "tiles": j.tiles.iter().map(|(k, v)| json!([k.0, k.1, k.2, codec_hex(v)])).collect::<Vec<_>>(), "ops_complete": k, "cut": cut}),
						);
					}
				}
				if complete && v != Verdict::Intact {
					if let Verdict::Wrong(_) = v {
					} else {
						ctxr.violation(&format!("{fmtname}: complete file does not open intact"), &format!("{} [{}]: {v:?}", fmtname, j.name), json!({"format": fmtname, "compression": j.comp, "tiles": j.tiles.iter().map(|(k, v)| json!([k.0, k.1, k.2, codec_hex(v)])).collect::<Vec<_>>(), "ops_complete": k, "cut": 0}));
					}
				}
			}
		}
		// the same history replayed through the real DataWriterFile::from_path onto a destination that
		// already holds a previous generation (a complete container of the same format / a longer file of 0xAA)
		if j.tiles.len() <= 200 && !tail_only {
			rewrite_over_existing(ctxr, &rt, j, ji, &log, &probes);
		}
		ctxr.state(total_ops as u64 + 1);
		ctxr.transition(total_ops as u64);
		if ji < 3 || j.name.starts_with("dense") {
			ctxr.sample(json!({"format": format!("{:?}", j.fmt), "tile_set": j.name, "compression": j.comp, "operations": log.iter().map(|o| match o { WOp::Write{pos,data} => format!("write {}@{}", data.len(), pos), WOp::WriteStart{data} => format!("write_start {}", data.len()), WOp::SetPos(p) => format!("set_position {p}") }).collect::<Vec<_>>()}));
		}
	});
	ctx.extra("histories", json!(js.len()));
	ctx.extra("conformance_images_equal_to_DataWriterFile_output", json!(conformance.load(std::sync::atomic::Ordering::Relaxed)));
	ctx.exhaustive(true);
	let _ = rt;
	let _ = codec::gzip;
}

fn replay_ops(path: &std::path::Path, ops: &[WOp]) -> Result<(), String> {
	let mut w = DataWriterFile::from_path(path).map_err(|e| format!("{e:#}"))?;
	for op in ops {
		match op {
			WOp::Write { pos, data } => {
				let p = w.get_position().map_err(|e| format!("{e:#}"))?;
				if p != *pos {
					return Err(format!("position {p} where the recorded history has {pos}"));
				}
				w.append(&Blob::from(data.as_slice())).map_err(|e| format!("{e:#}"))?;
			}
			WOp::WriteStart { data } => w.write_start(&Blob::from(data.as_slice())).map_err(|e| format!("{e:#}"))?,
			WOp::SetPos(p) => w.set_position(*p).map_err(|e| format!("{e:#}"))?,
		}
	}
	Ok(())
}

/// Previous generation at the destination: (a) a complete container of the same format holding
/// other tiles at overlapping coordinates, (b) 96 KiB of 0xAA. For every prefix of complete
/// operations of the new write (through the real DataWriterFile::from_path) the file must be the
/// untouched previous generation, fail to open, or return every tile of the new source.
fn rewrite_over_existing(ctx: &Ctx, rt: &tokio::runtime::Runtime, j: &Job, ji: usize, log: &[WOp], probes: &[Key]) {
	let dir = crate::ctx::verif_root().join(".work").join(format!("c12r-{}-{ji}", std::process::id()));
	let _ = std::fs::create_dir_all(&dir);
	let mut prev_tiles = TileMap::new();
	for (i, (k, v)) in j.tiles.iter().enumerate() {
		let mut d = b"previous generation ".to_vec();
		d.extend_from_slice(v);
		d.extend(std::iter::repeat(b'p').take(i % 5));
		prev_tiles.insert(*k, d);
	}
	prev_tiles.insert((3, 1, 6), b"only in the previous generation".to_vec());
	let prev_a = match record(rt, j.fmt, &prev_tiles, j.comp) {
		Ok(l) => materialize(&l, l.len(), 0),
		Err(_) => return,
	};
	let prevs: Vec<(&str, Vec<u8>)> = vec![("a complete container of the same format", prev_a), ("96 KiB of 0xAA", vec![0xAA; 96 * 1024])];
	let fmtname = if j.fmt == Fmt::Versatiles { "versatiles" } else { "pmtiles" };
	let last_write = log.iter().rposition(|o| matches!(o, WOp::WriteStart { .. }));
	for (pi, (pname, prev)) in prevs.iter().enumerate() {
		let mut same_as_model = 0u64;
		for k in 0..=log.len() {
			let path = dir.join(format!("g{pi}.bin"));
			std::fs::write(&path, prev).unwrap();
			if let Err(e) = replay_ops(&path, &log[..k]) {
				eprintln!("MACHINERY: replay of the recorded history through DataWriterFile failed: {e}");
				std::process::exit(2);
			}
			let bytes = std::fs::read(&path).unwrap_or_default();
			ctx.eval();
			ctx.trace(1);
			if bytes == *prev {
				ctx.outcome(&format!("{fmtname} over {pname}: previous generation untouched"));
				continue;
			}
			if bytes == materialize(log, k, 0) {
				same_as_model += 1;
			}
			ctx.nontrivial(fnv(&bytes) ^ (ji as u64 * 31 + pi as u64).wrapping_mul(0x9e3779b97f4a7c15));
			let v = judge(rt, j.fmt, bytes, &j.tiles, probes);
			let complete = k == log.len();
			match &v {
				Verdict::OpenFails => ctx.outcome(&format!("{fmtname} over {pname}: open fails")),
				Verdict::OpenPanics(p) => ctx.outcome(&format!("{fmtname} over {pname}: open/lookup panics (C19's domain) at {}", crate::par::panic_site(p))),
				Verdict::Intact | Verdict::IntactButFormatDiffers => ctx.outcome(&format!("{fmtname} over {pname}: opens, every tile intact")),
				Verdict::Wrong(why) => {
					let site = if complete {
						"complete file"
					} else if last_write.is_some_and(|l| k > l) {
						"after the final header write"
					} else {
						"before the final header write"
					};
					ctx.violation(
						&format!("{fmtname}: interrupted rewrite over an existing file opens but lacks or misreports tiles ({site})"),
						&format!("{fmtname} comp={} [{}] written through DataWriterFile::from_path over {pname}: after {k} of {} operations: {why}", j.comp, j.name, log.len()),
						json!({"format": fmtname, "compression": j.comp, "tiles": j.tiles.iter().map(|(k, v)| json!([k.0, k.1, k.2, codec_hex(v)])).collect::<Vec<_>>(), "ops_complete": k, "over": pi}),
					);
				}
			}
			if complete && !matches!(v, Verdict::Intact | Verdict::Wrong(_)) {
				ctx.violation(&format!("{fmtname}: complete rewrite over an existing file does not open intact"), &format!("{fmtname} [{}] over {pname}: {v:?}", j.name), json!({"format": fmtname, "compression": j.comp, "tiles": j.tiles.iter().map(|(k, v)| json!([k.0, k.1, k.2, codec_hex(v)])).collect::<Vec<_>>(), "ops_complete": k, "over": pi}));
			}
		}
		ctx.extra_add("rewrite_images_identical_to_the_zero_filled_model", same_as_model);
	}
	let _ = std::fs::remove_dir_all(&dir);
}

fn codec_hex(v: &[u8]) -> String {
	if v.len() <= 16 {
		v.iter().map(|b| format!("{b:02x}")).collect()
	} else {
		format!("len{}:fnv{:016x}", v.len(), fnv(v))
	}
}

/// Replays the log through the real DataWriterFile (complete log and evenly spaced prefixes) and
/// compares the file with the materialised image. Returns the number of images compared.
fn conformance_check(ctx: &Ctx, log: &[WOp], j: &Job) -> usize {
	let dir = crate::ctx::verif_root().join(".work").join(format!("c12-{}-{:x}", std::process::id(), fnv(format!("{:?}{}{}", j.fmt, j.name, j.comp).as_bytes())));
	let _ = std::fs::create_dir_all(&dir);
	let mut n = 0;
	let mut ks: Vec<usize> = (0..=16).map(|i| log.len() * i / 16).collect();
	ks.dedup();
	for k in ks {
		let path = dir.join(format!("p{k}.bin"));
		{
			let mut w = DataWriterFile::from_path(&path).unwrap();
			for op in &log[..k] {
				match op {
					WOp::Write { pos, data } => {
						let p = w.get_position().unwrap();
						if p != *pos {
							ctx.violation("machinery: recorded position differs from DataWriterFile position", &format!("{p} vs {pos}"), json!({}));
						}
						w.append(&Blob::from(data.as_slice())).unwrap();
					}
					WOp::WriteStart { data } => w.write_start(&Blob::from(data.as_slice())).unwrap(),
					WOp::SetPos(p) => w.set_position(*p).unwrap(),
				}
			}
		}
		let bytes = std::fs::read(&path).unwrap_or_default();
		let img = materialize(log, k, 0);
		if bytes != img {
			eprintln!("MACHINERY: materialised image differs from DataWriterFile output after {k} ops ({} vs {} bytes)", img.len(), bytes.len());
			std::process::exit(2);
		}
		n += 1;
	}
	let _ = std::fs::remove_dir_all(&dir);
	n
}

pub fn replay(ctx: Arc<Ctx>, case: &Value) {
	let fmt = if case["format"] == "versatiles" { Fmt::Versatiles } else { Fmt::Pmtiles };
	let comp = case["compression"].as_u64().unwrap_or(0) as u8;
	let mut tiles = TileMap::new();
	let ps = tilesets::payload_alphabet();
	for t in case["tiles"].as_array().unwrap() {
		let key = (t[0].as_u64().unwrap() as u8, t[1].as_u64().unwrap() as u32, t[2].as_u64().unwrap() as u32);
		let h = t[3].as_str().unwrap();
		let data = ps.iter().find(|p| codec_hex(p) == h).cloned().unwrap_or_else(|| (0..h.len() / 2).map(|i| u8::from_str_radix(&h[2 * i..2 * i + 2], 16).unwrap_or(0)).collect());
		tiles.insert(key, data);
	}
	let rt = tokio::runtime::Builder::new_current_thread().build().unwrap();
	let log = record(&rt, fmt, &tiles, comp).expect("writer");
	let k = case["ops_complete"].as_u64().unwrap() as usize;
	let cut = case["cut"].as_u64().unwrap_or(0) as usize;
	let probes = tilesets::probe_coords(&tiles);
	if case.get("over").is_some() {
		// rewrite over an existing file: re-run the whole (short) prefix enumeration of this history, keep the recorded case
		let j = Job { fmt, comp, name: "replay".into(), tiles: tiles.clone() };
		for _ in 0..2 {
			rewrite_over_existing(&ctx, &rt, &j, 0, &log, &probes);
		}
		return;
	}
	let a = judge(&rt, fmt, materialize(&log, k, cut), &tiles, &probes);
	let b = judge(&rt, fmt, materialize(&log, k, cut), &tiles, &probes);
	if a != b {
		eprintln!("MACHINERY: replay observations differ between two runs");
		std::process::exit(2);
	}
	println!("  after {k} of {} operations + {cut} bytes: {a:?}", log.len());
	if let Verdict::Wrong(why) = a {
		let fmtname = if fmt == Fmt::Versatiles { "versatiles" } else { "pmtiles" };
		ctx.violation(&format!("{fmtname}: crash image opens but lacks or misreports tiles (replay)"), &why, case.clone());
	}
}
