//! C10 — merging vector tiles concatenates the features of equally named layers.

use crate::codec;
use crate::containers as ct;
use crate::ctx::{fnv_str, Ctx, Tier};
use crate::memsource::{Key, MemSource, TileMap};
use crate::mvt::{self, feat, layer, line, point, s, DFeature, DLayer, Enc, MLayer, MVal};
use crate::par::{catch, panic_site, par_for};
use crate::pipeline::{self, AnySrc};
use serde_json::{json, Value};
use std::collections::BTreeMap;
use std::sync::Arc;
use versatiles_core::types::*;

/// Catalogue of small valid vector tiles (as other encoders write them).
pub fn catalogue() -> Vec<(&'static str, Vec<MLayer>)> {
	let u = |v: u64| (Enc::UInt64, MVal::Int(v as i128));
	vec![
		("layer a, one point, {k:v}", vec![layer("a", &["k"], vec![s("v")], vec![feat(Some(1), &[0, 0], 1, point(10, 10))])]),
		(
			"layers a+b, two features, keys k,n",
			vec![
				layer("a", &["k", "n"], vec![s("v"), u(5), s("w")], vec![feat(Some(2), &[0, 0, 1, 1], 1, point(1, 2)), feat(Some(3), &[0, 2], 2, line(&[(0, 0), (5, 5), (9, 1)]))]),
				layer("b", &["t"], vec![s("bee")], vec![feat(None, &[0, 0], 1, point(7, 7))]),
			],
		),
		("layer b, id 0", vec![layer("b", &["t", "k"], vec![s("other"), s("v")], vec![feat(Some(0), &[0, 0, 1, 1], 1, point(3, 3))])]),
		("layer a, same keys in other order, overlapping values", vec![layer("a", &["n", "k"], vec![u(5), s("v"), u(6)], vec![feat(Some(4), &[1, 1, 0, 2], 1, point(4, 4)), feat(None, &[0, 0], 1, point(5, 4))])]),
		(
			"layer a, id 2^64-1, float/double/bool/negative",
			vec![layer(
				"a",
				&["f", "d", "b", "i", "j"],
				vec![(Enc::Float, MVal::F32(1.5f32.to_bits())), (Enc::Double, MVal::F64((-2.25f64).to_bits())), (Enc::Bool, MVal::Bool(true)), (Enc::SInt64, MVal::Int(-7)), (Enc::Int64, MVal::Int(-9))],
				vec![feat(Some(u64::MAX), &[0, 0, 1, 1, 2, 2, 3, 3, 4, 4], 3, vec![9, 0, 0, 26, 10, 0, 0, 10, 9, 9, 15])],
			)],
		),
		("layer a, extent 512", vec![MLayer { extent: Some(512), ..layer("a", &["k"], vec![s("small")], vec![feat(Some(9), &[0, 0], 1, point(500, 500))]) }]),
		("empty layer a plus layer c", vec![layer("a", &[], vec![], vec![]), layer("c", &["k"], vec![s("sea")], vec![feat(Some(5), &[0, 0], 1, point(0, 0))])]),
		("layer a, feature without properties, unknown geometry type", vec![layer("a", &["unused"], vec![s("unused")], vec![feat(None, &[], 0, vec![])])]),
		("unicode layer name, empty key", vec![layer("stra\u{00df}e \u{1F600}", &["", "k"], vec![s(""), s("\u{00fc}")], vec![feat(Some(6), &[0, 0, 1, 1], 1, point(2, 2))])]),
		(
			"layer a, key/value tables with duplicates and unused entries",
			vec![layer("a", &["k", "n", "k", "z"], vec![s("v"), s("v"), u(5), s("last")], vec![feat(Some(7), &[3, 3], 1, point(6, 6)), feat(Some(8), &[2, 1, 1, 2], 1, point(6, 7))])],
		),
		("layer a, 30 features", vec![layer("a", &["i"], (0..30).map(u).collect(), (0..30).map(|i| feat(Some(100 + i as u64), &[0, i], 1, point(i as i32, 0))).collect())]),
		(
			"layer a, integer properties at the borders of their encodings (sint64 min/max/+-2^62, int64 min/-1, uint64 2^35/2^63/max)",
			vec![layer(
				"a",
				&["smin", "smax", "s62", "sm62", "imin", "im1", "u35", "u63", "umax"],
				vec![
					(Enc::SInt64, MVal::Int(i64::MIN as i128)),
					(Enc::SInt64, MVal::Int(i64::MAX as i128)),
					(Enc::SInt64, MVal::Int(1i128 << 62)),
					(Enc::SInt64, MVal::Int(-(1i128 << 62) - 1)),
					(Enc::Int64, MVal::Int(i64::MIN as i128)),
					(Enc::Int64, MVal::Int(-1)),
					(Enc::UInt64, MVal::Int(1i128 << 35)),
					(Enc::UInt64, MVal::Int(1i128 << 63)),
					(Enc::UInt64, MVal::Int(u64::MAX as i128)),
				],
				vec![feat(Some(1u64 << 35), &[0, 0, 1, 1, 2, 2, 3, 3, 4, 4], 1, point(1, 1)), feat(Some((1u64 << 63) + 5), &[5, 5, 6, 6, 7, 7, 8, 8], 1, point(-4096, 8191))],
			)],
		),
		(
			"layer a, ids / unsigned / zigzag values / coordinates at every border of the varint encoding (2^(7k) - 1, 2^(7k), 2^(7k) + 1)",
			vec![{
				let mut values: Vec<(Enc, MVal)> = vec![];
				let mut feats = vec![];
				for k in 1..=9u32 {
					for d in [-1i128, 0, 1] {
						let v = (1i128 << (7 * k)) + d;
						values.push((Enc::UInt64, MVal::Int(v)));
						let i = values.len() as u32 - 1;
						// zigzag(c) == v  <=>  c == v/2 (v even) or -(v+1)/2 (v odd): coordinates whose encoded parameter sits on the border
						let c = if k <= 4 { if v % 2 == 0 { (v / 2) as i32 } else { (-(v + 1) / 2) as i32 } } else { k as i32 };
						feats.push(feat(Some(v as u64), &[0, i], 1, point(c, -c)));
						let z = if v % 2 == 0 { v / 2 } else { -(v + 1) / 2 };
						values.push((Enc::SInt64, MVal::Int(z)));
						feats.push(feat(Some(v as u64 ^ 1), &[1, i + 1], 1, point(1, 1)));
					}
				}
				layer("a", &["u", "s"], values, feats)
			}],
		),
		(
			"layer a, strings of 127 / 128 / 129 / 16383 / 16384 / 16385 bytes as values and as a key",
			vec![{
				let lens = [127usize, 128, 129, 16383, 16384, 16385];
				let values: Vec<(Enc, MVal)> = lens.iter().map(|l| s(&"v".repeat(*l))).collect();
				let long_key = "k".repeat(128);
				layer("a", &["k", &long_key], values, (0..lens.len() as u32).map(|i| feat(Some(i as u64), &[i % 2, i], 1, point(i as i32, 0))).collect())
			}],
		),
		(
			"2000 layers, each with a feature valued double 0.0 and one valued double -0.0 (and float zeros)",
			(0..2000u32)
				.map(|i| {
					layer(
						&format!("zeros{i}"),
						&["d", "f"],
						vec![(Enc::Double, MVal::F64(0.0f64.to_bits())), (Enc::Double, MVal::F64((-0.0f64).to_bits())), (Enc::Float, MVal::F32(0.0f32.to_bits())), (Enc::Float, MVal::F32((-0.0f32).to_bits()))],
						vec![feat(Some(1), &[0, 0, 1, 2], 1, point(1, 1)), feat(Some(2), &[0, 1, 1, 3], 1, point(2, 2))],
					)
				})
				.collect(),
		),
		("layer b, version 1 without extent field", vec![MLayer { extent: None, version: 1, ..layer("b", &["t"], vec![s("v1")], vec![feat(Some(11), &[0, 0], 2, line(&[(1, 1), (2, 2)]))]) }]),
		// fields outside the numbers the specification defines (its .proto reserves 16.. as extension range): a
		// protobuf reader skips what it does not know
		("layer a with vendor extension fields of every wire type", vec![MLayer { extra: mvt::extension_fields(), ..layer("a", &["k"], vec![s("ext")], vec![feat(Some(12), &[0, 0], 1, point(8, 8))]) }]),
	]
}

pub fn dfeature_eq(a: &DFeature, b: &DFeature) -> bool {
	a.id == b.id && a.gtype == b.gtype && a.geom == b.geom && a.props == b.props
}

/// Reference merge on the independently decoded form: per layer name the features in source order, each with the
/// extent of the layer it comes from.
pub struct Want {
	pub feats: BTreeMap<String, Vec<DFeature>>,
	pub extents: BTreeMap<String, Vec<u32>>,
}

pub fn reference_merge(tiles: &[Vec<DLayer>]) -> Want {
	let mut w = Want { feats: BTreeMap::new(), extents: BTreeMap::new() };
	for t in tiles {
		for l in t {
			w.feats.entry(l.name.clone()).or_default().extend(l.features.iter().cloned());
			w.extents.entry(l.name.clone()).or_default().extend(l.features.iter().map(|_| l.extent));
		}
	}
	w
}

pub const EXTENT_CLAUSE: &str = "merged layer: a feature taken from a layer with another extent keeps its unscaled coordinates";

/// `got` (in a layer of extent `eo`) against `want` (from a layer of extent `es`): the same place in the tile
fn same_place(got: &[u8], eo: u32, want: &[u8], es: u32) -> bool {
	if eo == es {
		return got == want;
	}
	match mvt::geom_abs(want) {
		Some(w) if w.iter().any(|(c, x, y)| *c != 7 && (*x != 0 || *y != 0)) => match mvt::geom_abs(got) {
			Some(g) => g.len() == w.len() && g.iter().zip(w.iter()).all(|(a, b)| a.0 == b.0 && (a.1 * es as i64 - b.1 * eo as i64).abs() <= es as i64 && (a.2 * es as i64 - b.2 * eo as i64).abs() <= es as i64),
			None => false,
		},
		// no vertex away from the origin, or not a command stream (unknown geometry type): nothing to scale
		_ => got == want,
	}
}

pub fn compare_layers(got: &[DLayer], want: &Want) -> Option<String> {
	let mut names: Vec<&String> = got.iter().map(|l| &l.name).collect();
	names.sort();
	if names.windows(2).any(|w| w[0] == w[1]) {
		return Some(format!("layer name occurs twice in the output: {names:?}"));
	}
	let wn: Vec<&String> = want.feats.keys().collect();
	if names != wn {
		return Some(format!("output layers {names:?}, expected {wn:?}"));
	}
	for l in got {
		let w = &want.feats[&l.name];
		let ext = &want.extents[&l.name];
		if l.features.iter().any(|f| f.bad_tags) {
			return Some(format!("layer '{}': a feature references a key/value index outside the tables", l.name));
		}
		if l.features.len() != w.len() {
			return Some(format!("layer '{}': {} features, expected {}", l.name, l.features.len(), w.len()));
		}
		for (i, (a, b)) in l.features.iter().zip(w.iter()).enumerate() {
			if !(a.id == b.id && a.gtype == b.gtype && a.props == b.props) || (ext[i] == l.extent && a.geom != b.geom) {
				return Some(format!("layer '{}' feature #{i}: got id={:?} type={} geom={:?} props={:?}, expected id={:?} type={} geom={:?} props={:?}", l.name, a.id, a.gtype, a.geom, a.props, b.id, b.gtype, b.geom, b.props));
			}
			if !same_place(&a.geom, l.extent, &b.geom, ext[i]) {
				return Some(format!("EXTENT layer '{}' (extent {}) feature #{i} comes from a layer of extent {}: geometry {:?}, in the source {:?}", l.name, l.extent, ext[i], mvt::geom_abs(&a.geom), mvt::geom_abs(&b.geom)));
			}
		}
	}
	None
}

pub fn run(ctx: Arc<Ctx>) {
	ctx.rule(
		"catalogue of 15 valid vector tiles built by an independent MVT encoder (disjoint/overlapping layer names, tables in other order / with duplicates / unused entries, ids none/0/2^64-1, all value kinds, extents, empty layer); \
		 every ordered pair, every ordered triple (quick: over the first 14 tiles) and every ordered 4-tuple over the first 4 as source lists; each source holds its tile at one coordinate per presence mask, so every presence pattern occurs; source compressions mixed. \
		 plus every ordered pair of a bounded-exhaustive family of small layers of one name (5 key tables x 4 value tables x feature lists with every tag list of <= 2 pairs; all in both tiers) merged through one pipeline whose sources hold layer i resp. j at (10,i,j). plus merges whose key/value tables cross 128 / 16384 (thorough: 2^21) entries only after merging. oracle on independently decoded output: layer set, features in source order with id/type/geometry bytes/property set, declared+delivered uncompressed, lookups = stream. non-trivial = (source list, presence mask) with >= 2 sources present",
	);
	let cat = catalogue();
	let decoded: Vec<Vec<DLayer>> = cat.iter().map(|(n, t)| mvt::decode_tile(&mvt::encode_tile(t)).unwrap_or_else(|e| panic!("catalogue tile '{n}' does not decode: {e}"))).collect();
	let n = cat.len();
	let mut tuples: Vec<Vec<usize>> = vec![];
	for a in 0..n {
		for b in 0..n {
			tuples.push(vec![a, b]);
		}
	}
	let tn = ctx.tier.pick(n.min(14), n);
	for a in 0..tn {
		for b in 0..tn {
			for c in 0..tn {
				tuples.push(vec![a, b, c]);
			}
		}
	}
	{
		for a in 0..4 {
			for b in 0..4 {
				for c in 0..4 {
					for d in 0..4 {
						tuples.push(vec![a, b, c, d]);
					}
				}
			}
		}
	}
	ctx.state(tuples.len() as u64);
	let work = ct::WorkDir::new("c10");
	let (ctxr, tr, catr, decr, wpath): (&Ctx, _, _, _, _) = (&ctx, &tuples, &cat, &decoded, work.0.clone());
	par_for(tuples.len(), |ti| {
		let tup = &tr[ti];
		let k = tup.len();
		let rt = crate::memsource::runtime(2);
		let mut sources = vec![];
		for (j, &ci) in tup.iter().enumerate() {
			let comp = ((j + ti) % 3) as u8;
			let raw = mvt::encode_tile(&catr[ci].1);
			let mut tiles = TileMap::new();
			for mask in 1u32..(1 << k) {
				if mask >> j & 1 == 1 {
					tiles.insert((5, mask, 0), codec::encode_with(comp, &raw));
				}
			}
			// one source also has an unrelated far tile so that pyramids differ
			if j == 1 {
				tiles.insert((9, 300, 300), codec::encode_with(comp, &raw));
			}
			// every source has a tile of its own on a row of its own (the first source southmost, the last one
			// northmost and westmost), so that the merged coverage is a proper union in both directions
			tiles.insert((6, 20 - 5 * j as u32, 40 - 9 * j as u32), codec::encode_with(comp, &raw));
			// every other source list: the first source delivers its box streams in another order than by coordinate
			let ms = MemSource::new(&format!("s{j}"), tiles, TileFormat::PBF, ct::comp_from_id(comp)).with_yields((k - 1 - j) as u8 % 2);
			sources.push(if j == 0 && ti % 2 == 0 { ms.with_reversed_stream() } else { ms });
		}
		let vpl = format!("from_vectortiles_merged [ {} ]", (0..k).map(|j| format!("from_container filename=\"mem:{j}\"")).collect::<Vec<_>>().join(", "));
		let fac = pipeline::factory(sources, &wpath);
		let case = json!({"sources": tup.iter().map(|i| catr[*i].0).collect::<Vec<_>>(), "vpl": vpl});
		let op = match pipeline::build_op(&rt, &fac, &vpl) {
			Ok(o) => o,
			Err(e) => {
				ctxr.violation("merge pipeline cannot be built", &format!("{vpl}: {e}"), case);
				return;
			}
		};
		if op.get_parameters().tile_compression != TileCompression::Uncompressed {
			ctxr.violation("merged output is not declared uncompressed", &format!("{:?}", op.get_parameters().tile_compression), case.clone());
		}
		let src = AnySrc::Op(op);
		let mut looked: BTreeMap<u32, Option<Vec<u8>>> = BTreeMap::new();
		for mask in 0u32..(1 << k) {
			ctxr.eval();
			ctxr.transition(1);
			let got = catch(|| rt.block_on(src.lookup((5, mask, 0))));
			let present: Vec<usize> = (0..k).filter(|j| mask >> j & 1 == 1).collect();
			let label = format!("sources {:?} present {present:?}", tup.iter().map(|i| catr[*i].0).collect::<Vec<_>>());
			match got {
				Err(p) => ctxr.violation(&format!("merge lookup panics at {}", panic_site(&p)), &format!("{label}: {p}"), case.clone()),
				Ok(Err(e)) => ctxr.violation(&format!("merge lookup fails: {}", super::c01::norm_msg(&e.to_string())), &format!("{label}: {e:#}"), case.clone()),
				Ok(Ok(None)) => {
					if !present.is_empty() {
						ctxr.violation("merged tile missing although a source has a tile", &label, case.clone());
					}
					looked.insert(mask, None);
				}
				Ok(Ok(Some(bytes))) => {
					if present.is_empty() {
						ctxr.violation("merged tile exists although no source has one", &label, case.clone());
					}
					match mvt::decode_tile(&bytes) {
						Err(e) => ctxr.violation("merged tile is not a (uncompressed) vector tile", &format!("{label}: {e}"), case.clone()),
						Ok(layers) => {
							let want = reference_merge(&present.iter().map(|j| decr[tup[*j]].clone()).collect::<Vec<_>>());
							if let Some(why) = compare_layers(&layers, &want) {
								let clause = if why.starts_with("EXTENT") {
									EXTENT_CLAUSE
								} else if why.contains("output layers") || why.contains("twice") {
									"merged tile has other layers than the union of layer names"
								} else if why.contains("features, expected") {
									"merged layer has another number of features"
								} else {
									"merged feature differs (id, geometry type, geometry or property set) or is out of source order"
								};
								ctxr.violation(clause, &format!("{label}: {why}"), case.clone());
							}
						}
					}
					if present.len() >= 2 {
						ctxr.nontrivial(fnv_str(&format!("{tup:?}{mask}")));
					}
					looked.insert(mask, Some(bytes));
				}
			}
		}
		// lookups = stream (layer order inside a tile may differ between calls: compare decoded)
		let bbox = TileBBox::new(5, 0, 0, (1 << k) - 1, 0).unwrap();
		match catch(|| rt.block_on(src.stream(bbox))) {
			Err(p) => ctxr.violation(&format!("merge stream panics at {}", panic_site(&p)), &p, case.clone()),
			Ok(items) => {
				let mut seen = BTreeMap::new();
				for (key, bytes) in items {
					if seen.insert(key.1, bytes).is_some() {
						ctxr.violation("merge stream delivers a coordinate twice", &format!("{key:?}"), case.clone());
					}
				}
				for (mask, l) in &looked {
					let sdec = seen.get(mask).map(|b| mvt::decode_tile(b));
					let ldec = l.as_ref().map(|b| mvt::decode_tile(b));
					let norm = |d: Option<Result<Vec<DLayer>, String>>| {
						d.map(|r| {
							r.map(|mut v| {
								v.sort_by(|a, b| a.name.cmp(&b.name));
								v
							})
						})
					};
					if norm(sdec) != norm(ldec) {
						ctxr.violation("merge stream and lookup disagree", &format!("coordinate (5,{mask},0)"), case.clone());
					}
				}
			}
		}
		// the merged source advertises a coverage that holds every tile it returns, and walking that coverage level by
		// level (as a conversion does) delivers each of them
		{
			let pyramid = src.parameters().bbox_pyramid.clone();
			let mut own: Vec<Key> = (0..k).map(|j| (6u8, 20 - 5 * j as u32, 40 - 9 * j as u32)).collect();
			own.push((9, 300, 300));
			own.extend((1u32..(1 << k)).map(|m| (5u8, m, 0u32)));
			let mut walked: std::collections::BTreeSet<Key> = Default::default();
			for z in [5u8, 6, 9] {
				let lv = pyramid.get_level_bbox(z).clone();
				if !lv.is_empty() && lv.count_tiles() <= 4096 {
					if let Ok(items) = catch(|| rt.block_on(src.stream(lv))) {
						walked.extend(items.into_iter().map(|(key, _)| key));
					}
				} else if !lv.is_empty() {
					// a large level box: walk the rows that hold tiles
					for key in own.iter().filter(|c| c.0 == z) {
						if let Ok(mut b) = TileBBox::new(z, key.1, key.2, key.1, key.2) {
							b.intersect_bbox(&lv);
							if !b.is_empty() {
								if let Ok(items) = catch(|| rt.block_on(src.stream(b))) {
									walked.extend(items.into_iter().map(|(key, _)| key));
								}
							}
						}
					}
				}
			}
			for key in own {
				if let Ok(Ok(Some(_))) = catch(|| rt.block_on(src.lookup(key))) {
					let lv = pyramid.get_level_bbox(key.0);
					if lv.is_empty() || key.1 < lv.x_min || key.1 > lv.x_max || key.2 < lv.y_min || key.2 > lv.y_max {
						ctxr.violation("merged source returns a tile outside the coverage it advertises", &format!("tile {key:?}, advertised level box {lv:?}"), case.clone());
					} else if !walked.contains(&key) {
						ctxr.violation("walking the advertised coverage of the merged source misses a tile it returns", &format!("tile {key:?}, advertised level box {lv:?}"), case.clone());
					}
				} else if (key.0 == 6 || key.0 == 9) && (key.0 == 6 || k >= 2) {
					ctxr.violation("merged tile missing although a source has a tile", &format!("tile {key:?} of a single source"), case.clone());
				}
			}
		}
		ctxr.trace(1);
	});
	systematic(&ctx, &work.0);
	after_a_failure(&ctx, &work.0);
	big_tables(&ctx, &work.0);
	ctx.sample(json!({"catalogue": cat.iter().map(|c| c.0).collect::<Vec<_>>(), "example_source_list": tuples[tuples.len() / 2].iter().map(|i| cat[*i].0).collect::<Vec<_>>()}));
	ctx.outcome_n("source lists (ordered tuples)", tuples.len() as u64);
	ctx.exhaustive(true);
	drop(work);
}

/// Every ordered pair of the bounded-exhaustive small layers (same layer name, so the key/value tables of
/// both sides must be merged): source A holds layer i at (10, i, j), source B holds layer j there.
fn systematic(ctx: &Arc<Ctx>, work: &std::path::Path) {
	let all = mvt::small_layers("a");
	// quick: every 2nd layer on each side (plus the first 12), thorough: all
	let pick: Vec<usize> = (0..all.len()).filter(|_| true).collect();
	let ls: Vec<&mvt::MLayer> = pick.iter().map(|i| &all[*i]).collect();
	let enc: Vec<Vec<u8>> = ls.iter().map(|l| mvt::encode_tile(&[(*l).clone()])).collect();
	let dec: Vec<Vec<DLayer>> = enc.iter().map(|b| mvt::decode_tile(b).expect("small layer decodes")).collect();
	let n = ls.len() as u32;
	assert!(n <= 1024);
	let (mut ta, mut tb) = (TileMap::new(), TileMap::new());
	for i in 0..n {
		for j in 0..n {
			ta.insert((10, i, j), enc[i as usize].clone());
			tb.insert((10, i, j), codec::gzip(&enc[j as usize]));
		}
	}
	let rt = crate::memsource::runtime(8);
	let sources = vec![MemSource::new("sa", ta, TileFormat::PBF, TileCompression::Uncompressed).with_fast_stream(), MemSource::new("sb", tb, TileFormat::PBF, TileCompression::Gzip).with_fast_stream()];
	let vpl = "from_vectortiles_merged [ from_container filename=\"mem:0\", from_container filename=\"mem:1\" ]".to_string();
	let fac = pipeline::factory(sources, work);
	let op = match pipeline::build_op(&rt, &fac, &vpl) {
		Ok(o) => o,
		Err(e) => return ctx.violation("merge pipeline cannot be built", &format!("{vpl}: {e}"), json!({"systematic": true})),
	};
	let src = AnySrc::Op(op);
	let (ctxr, srcr, decr, rtr, pickr): (&Ctx, _, _, _, _) = (ctx, &src, &dec, &rt, &pick);
	// one stream per 32-row band (streams), plus lookups on the diagonal and the first row/column
	let bands: Vec<u32> = (0..n).step_by(32).collect();
	par_for(bands.len(), |bi| {
		let y0 = bands[bi];
		let bbox = TileBBox::new(10, 0, y0, n - 1, (y0 + 31).min(n - 1)).unwrap();
		let items = match catch(|| rtr.block_on(srcr.stream(bbox.clone()))) {
			Ok(v) => v,
			Err(p) => return ctxr.violation(&format!("merge stream panics at {}", panic_site(&p)), &p, json!({"systematic": true, "band": y0})),
		};
		let mut seen = std::collections::BTreeSet::new();
		for (key, bytes) in items {
			let (i, j) = (key.1 as usize, key.2 as usize);
			ctxr.eval();
			ctxr.transition(1);
			if !seen.insert((i, j)) {
				ctxr.violation("merge stream delivers a coordinate twice", &format!("{key:?}"), json!({"systematic": true, "a": pickr[i], "b": pickr[j]}));
			}
			let case = json!({"systematic": true, "a": pickr[i], "b": pickr[j]});
			match mvt::decode_tile(&bytes) {
				Err(e) => ctxr.violation("merged tile is not a (uncompressed) vector tile", &format!("small layers #{} + #{}: {e}", pickr[i], pickr[j]), case),
				Ok(layers) => {
					let want = reference_merge(&[decr[i].clone(), decr[j].clone()]);
					if let Some(why) = compare_layers(&layers, &want) {
						let clause = if why.starts_with("EXTENT") {
									EXTENT_CLAUSE
								} else if why.contains("output layers") || why.contains("twice") {
							"merged tile has other layers than the union of layer names"
						} else if why.contains("features, expected") {
							"merged layer has another number of features"
						} else {
							"merged feature differs (id, geometry type, geometry or property set) or is out of source order"
						};
						ctxr.violation(clause, &format!("small layers #{} + #{}: {why}", pickr[i], pickr[j]), case);
					}
				}
			}
			if (i == j || i == 0 || j == 0) && catch(|| rtr.block_on(srcr.lookup(key))).ok().and_then(|r| r.ok()).flatten().as_deref() != Some(&bytes[..]) {
				ctxr.violation("merge stream and lookup disagree", &format!("coordinate {key:?}"), json!({"systematic": true, "a": pickr[i], "b": pickr[j]}));
			}
			ctxr.nontrivial(fnv_str(&format!("sys{i},{j}")));
		}
		let rows = (y0 + 31).min(n - 1) - y0 + 1;
		if seen.len() as u64 != rows as u64 * n as u64 {
			ctxr.violation("merged tile missing although a source has a tile", &format!("band {y0}: {} of {} tiles", seen.len(), rows as u64 * n as u64), json!({"systematic": true, "band": y0}));
		}
	});
	ctx.extra("systematic_small_layers", json!({"family_size": all.len(), "used_per_side": n, "ordered_pairs": n as u64 * n as u64}));
	ctx.trace(1);
}

/// A damaged tile in one source makes the merge fail at its coordinate; the lookups that follow (same thread, same
/// pipeline) at coordinates where every source is intact must be unaffected by that failure.
fn after_a_failure(ctx: &Arc<Ctx>, work: &std::path::Path) {
	let cat = catalogue();
	let good: Vec<Vec<u8>> = [0usize, 1, 2, 3].iter().map(|i| mvt::encode_tile(&cat[*i].1)).collect();
	let dec: Vec<Vec<DLayer>> = good.iter().map(|g| mvt::decode_tile(g).unwrap()).collect();
	let rt = tokio::runtime::Builder::new_current_thread().build().unwrap();
	for comp in [1u8, 2] {
		// damaged variants of a compressed tile: wrong checksum / truncated / garbage after a valid start
		let whole = codec::encode_with(comp, &good[3]);
		let mut crc = whole.clone();
		let n = crc.len();
		crc[n - 5] ^= 0xff;
		let damaged: Vec<(&str, Vec<u8>)> = vec![("checksum damaged", crc), ("truncated", whole[..whole.len() * 2 / 3].to_vec()), ("tail replaced", { let mut t = whole[..whole.len() / 2].to_vec(); t.extend_from_slice(&[0x55; 40]); t })];
		for (dname, bad) in damaged {
			let mut ta = TileMap::new();
			let mut tb = TileMap::new();
			for (i, g) in good.iter().enumerate().take(3) {
				ta.insert((4, i as u32, 0), codec::encode_with(comp, g));
				tb.insert((4, i as u32, 0), codec::encode_with(comp, &good[(i + 1) % 3]));
			}
			ta.insert((4, 9, 9), bad.clone());
			tb.insert((4, 9, 9), codec::encode_with(comp, &good[0]));
			let fac = pipeline::factory(vec![MemSource::new("sa", ta, TileFormat::PBF, ct::comp_from_id(comp)), MemSource::new("sb", tb, TileFormat::PBF, ct::comp_from_id(comp))], work);
			let vpl = "from_vectortiles_merged [ from_container filename=\"mem:0\", from_container filename=\"mem:1\" ]";
			let Ok(op) = pipeline::build_op(&rt, &fac, vpl) else { continue };
			let src = AnySrc::Op(op);
			let case = json!({"after_failure": dname, "compression": comp});
			for round in 0..3 {
				ctx.eval();
				// the failing coordinate first (its answer is not judged), then every intact coordinate
				let _ = catch(|| rt.block_on(src.lookup((4, 9, 9))));
				for i in 0..3u32 {
					let want = reference_merge(&[dec[i as usize].clone(), dec[((i + 1) % 3) as usize].clone()]);
					match catch(|| rt.block_on(src.lookup((4, i, 0)))) {
						Ok(Ok(Some(b))) => match mvt::decode_tile(&b) {
							Ok(layers) => {
								if let Some(why) = compare_layers(&layers, &want) {
									ctx.violation("a merge after a failed one differs from the merge of its own sources", &format!("{dname} (compression {comp}), round {round}, coordinate (4,{i},0): {why}"), case.clone());
								}
							}
							Err(e) => ctx.violation("a merge after a failed one is not a vector tile", &format!("{dname} (compression {comp}), round {round}, coordinate (4,{i},0): {e}"), case.clone()),
						},
						other => ctx.violation("a merge after a failed one fails although its own sources are intact", &format!("{dname} (compression {comp}), round {round}, coordinate (4,{i},0): {:?}", other.map(|r| r.map(|o| o.map(|b| b.len())).map_err(|e| e.to_string()))), case.clone()),
					}
				}
			}
			ctx.nontrivial(fnv_str(&format!("after-failure {dname} {comp}")));
			ctx.trace(1);
		}
	}
}

/// Two (three) sources whose equally named layers each stay below, but together cross, the sizes at which
/// the varint encoding of a key/value index grows by a byte (128, 16384; thorough: 2^21 as well).
fn big_tables(ctx: &Arc<Ctx>, work: &std::path::Path) {
	let sizes: Vec<Vec<u32>> = ctx.tier.pick(vec![vec![70, 70], vec![9000, 9000], vec![6000, 6000, 6000]], vec![vec![70, 70], vec![127, 1], vec![128, 1], vec![9000, 9000], vec![6000, 6000, 6000], vec![16383, 1], vec![16384, 1], vec![1_100_000, 1_100_000]]);
	let (ctxr, sr): (&Ctx, _) = (ctx, &sizes);
	par_for(sizes.len(), |si| {
		let ns = &sr[si];
		let rt = crate::memsource::runtime(2);
		let mut sources = vec![];
		let mut decoded = vec![];
		let mut base = 0u32;
		for (j, &n) in ns.iter().enumerate() {
			let values: Vec<(Enc, MVal)> = (0..n).map(|i| mvt::s(&format!("v{}", base + i))).collect();
			let keys: Vec<String> = (0..n.min(300)).map(|i| format!("k{}", base + i)).collect();
			let keyrefs: Vec<&str> = keys.iter().map(|k| k.as_str()).collect();
			let feats: Vec<mvt::MFeature> = (0..n).map(|i| feat(Some((base + i) as u64), &[i % keyrefs.len() as u32, i], 1, point((i % 4000) as i32, 1))).collect();
			let raw = mvt::encode_tile(&[layer("big", &keyrefs, values, feats)]);
			decoded.push(mvt::decode_tile(&raw).expect("big tile decodes"));
			let mut tiles = TileMap::new();
			tiles.insert((3, 1, 1), codec::encode_with((j % 3) as u8, &raw));
			sources.push(MemSource::new(&format!("s{j}"), tiles, TileFormat::PBF, ct::comp_from_id((j % 3) as u8)));
			base += n;
		}
		let k = ns.len();
		let vpl = format!("from_vectortiles_merged [ {} ]", (0..k).map(|j| format!("from_container filename=\"mem:{j}\"")).collect::<Vec<_>>().join(", "));
		let fac = pipeline::factory(sources, work);
		let case = json!({"big_tables": ns});
		let label = format!("sources with {ns:?} distinct values in one layer name");
		ctxr.eval();
		let op = match pipeline::build_op(&rt, &fac, &vpl) {
			Ok(o) => o,
			Err(e) => return ctxr.violation("merge pipeline cannot be built", &format!("{vpl}: {e}"), case),
		};
		let src = AnySrc::Op(op);
		let via_lookup = catch(|| rt.block_on(src.lookup((3, 1, 1))));
		let via_stream = catch(|| rt.block_on(src.stream(TileBBox::new(3, 0, 0, 7, 7).unwrap())));
		let want = reference_merge(&decoded);
		let judge = |bytes: &[u8], path: &str| match mvt::decode_tile(bytes) {
			Err(e) => ctxr.violation("merged tile is not a (uncompressed) vector tile", &format!("{label} ({path}): {e}"), case.clone()),
			Ok(layers) => {
				if let Some(why) = compare_layers(&layers, &want) {
					let clause = if why.starts_with("EXTENT") { EXTENT_CLAUSE } else { "merged feature differs (id, geometry type, geometry or property set) or is out of source order" };
					ctxr.violation(clause, &format!("{label} ({path}): {}", why.chars().take(300).collect::<String>()), case.clone());
				}
			}
		};
		match via_lookup {
			Ok(Ok(Some(b))) => judge(&b, "lookup"),
			Ok(Ok(None)) => ctxr.violation("merged tile missing although a source has a tile", &label, case.clone()),
			Ok(Err(e)) => ctxr.violation(&format!("merge lookup fails: {}", super::c01::norm_msg(&e.to_string())), &format!("{label}: {e:#}"), case.clone()),
			Err(p) => ctxr.violation(&format!("merge lookup panics at {}", panic_site(&p)), &format!("{label}: {p}"), case.clone()),
		}
		match via_stream {
			Ok(items) if items.len() == 1 => judge(&items[0].1, "stream"),
			Ok(items) => ctxr.violation("merged tile missing although a source has a tile", &format!("{label}: stream delivers {} tiles", items.len()), case.clone()),
			Err(p) => ctxr.violation(&format!("merge stream panics at {}", panic_site(&p)), &format!("{label}: {p}"), case.clone()),
		}
		ctxr.nontrivial(fnv_str(&format!("big{ns:?}")));
		ctxr.trace(1);
	});
	ctx.outcome_n("large-table merges (index varint width thresholds)", sizes.len() as u64);
}

pub fn replay(_ctx: Arc<Ctx>, case: &Value) {
	println!("  case: {case}");
	println!("  re-run ./check C10 quick (deterministic) to reproduce");
}
