//! Driving the repository's writers/readers per container format, plus the independent decode.

use crate::codec;
use crate::memsource::TileMap;
use crate::par::catch;
use std::path::{Path, PathBuf};
use versatiles_container::*;
use versatiles_core::io::{DataReaderBlob, DataWriterBlob};
use versatiles_core::types::{TileCompression, TileFormat, TilesReaderTrait};

#[derive(Debug, Clone, Copy, PartialEq, Eq, PartialOrd, Ord, serde::Serialize, serde::Deserialize)]
pub enum Cont {
	Versatiles,
	Pmtiles,
	Mbtiles,
	Tar,
	Directory,
}
pub const ALL_CONT: [Cont; 5] = [Cont::Versatiles, Cont::Pmtiles, Cont::Mbtiles, Cont::Tar, Cont::Directory];

impl Cont {
	pub fn name(&self) -> &'static str {
		match self {
			Cont::Versatiles => "versatiles",
			Cont::Pmtiles => "pmtiles",
			Cont::Mbtiles => "mbtiles",
			Cont::Tar => "tar",
			Cont::Directory => "directory",
		}
	}
	pub fn in_memory(&self) -> bool {
		matches!(self, Cont::Versatiles | Cont::Pmtiles)
	}
}

pub const ALL_FORMATS: [TileFormat; 10] = [TileFormat::AVIF, TileFormat::BIN, TileFormat::GEOJSON, TileFormat::JPG, TileFormat::JSON, TileFormat::PBF, TileFormat::PNG, TileFormat::SVG, TileFormat::TOPOJSON, TileFormat::WEBP];
pub const ALL_COMP: [TileCompression; 3] = [TileCompression::Uncompressed, TileCompression::Gzip, TileCompression::Brotli];

pub fn comp_id(c: TileCompression) -> u8 {
	match c {
		TileCompression::Uncompressed => 0,
		TileCompression::Gzip => 1,
		TileCompression::Brotli => 2,
	}
}
pub fn comp_from_id(i: u8) -> TileCompression {
	ALL_COMP[i as usize]
}
/// versatiles header code of a tile format (from the published layout)
pub fn vt_format_code(f: TileFormat) -> u8 {
	match f {
		TileFormat::BIN => 0x00,
		TileFormat::PNG => 0x10,
		TileFormat::JPG => 0x11,
		TileFormat::WEBP => 0x12,
		TileFormat::AVIF => 0x13,
		TileFormat::SVG => 0x14,
		TileFormat::PBF => 0x20,
		TileFormat::GEOJSON => 0x21,
		TileFormat::TOPOJSON => 0x22,
		TileFormat::JSON => 0x23,
	}
}
pub fn pm_type_code(f: TileFormat) -> u8 {
	match f {
		TileFormat::PBF => 1,
		TileFormat::PNG => 2,
		TileFormat::JPG => 3,
		TileFormat::WEBP => 4,
		TileFormat::AVIF => 5,
		_ => 0,
	}
}
pub fn format_name(f: TileFormat) -> &'static str {
	match f {
		TileFormat::AVIF => "avif",
		TileFormat::BIN => "bin",
		TileFormat::GEOJSON => "geojson",
		TileFormat::JPG => "jpg",
		TileFormat::JSON => "json",
		TileFormat::PBF => "pbf",
		TileFormat::PNG => "png",
		TileFormat::SVG => "svg",
		TileFormat::TOPOJSON => "topojson",
		TileFormat::WEBP => "webp",
	}
}

/// (format, compression) pairs a target accepts
pub fn accepted_pairs(c: Cont) -> Vec<(TileFormat, TileCompression)> {
	match c {
		Cont::Mbtiles => vec![(TileFormat::JPG, TileCompression::Uncompressed), (TileFormat::PBF, TileCompression::Gzip), (TileFormat::PNG, TileCompression::Uncompressed), (TileFormat::WEBP, TileCompression::Uncompressed)],
		_ => ALL_FORMATS.iter().flat_map(|f| ALL_COMP.iter().map(move |c| (*f, *c))).collect(),
	}
}

/// The repository's MBTiles reader/writer each create an r2d2 pool whose three worker threads
/// linger for up to 30 s after the pool is dropped (fixed-rate reaper job). To keep the number of
/// lingering threads bounded, at most POOL_LIMIT pools are created per 31 s window.
const POOL_LIMIT: usize = 4000;
static POOL_TIMES: std::sync::Mutex<std::collections::VecDeque<std::time::Instant>> = std::sync::Mutex::new(std::collections::VecDeque::new());
pub static POOL_TOKENS: std::sync::atomic::AtomicU64 = std::sync::atomic::AtomicU64::new(0);
pub static POOL_WAIT_MS: std::sync::atomic::AtomicU64 = std::sync::atomic::AtomicU64::new(0);
pub fn mbtiles_pool_token() {
	POOL_TOKENS.fetch_add(1, std::sync::atomic::Ordering::Relaxed);
	let t0 = std::time::Instant::now();
	let _g = PoolWait(t0);
	loop {
		let wait = {
			let mut q = POOL_TIMES.lock().unwrap();
			let now = std::time::Instant::now();
			while q.front().is_some_and(|t| now.duration_since(*t).as_secs() >= 31) {
				q.pop_front();
			}
			if q.len() < POOL_LIMIT {
				q.push_back(now);
				return;
			}
			std::time::Duration::from_secs(31).saturating_sub(now.duration_since(*q.front().unwrap()))
		};
		std::thread::sleep(wait.min(std::time::Duration::from_millis(500)));
	}
}

struct PoolWait(std::time::Instant);
impl Drop for PoolWait {
	fn drop(&mut self) {
		POOL_WAIT_MS.fetch_add(self.0.elapsed().as_millis() as u64, std::sync::atomic::Ordering::Relaxed);
	}
}

#[derive(Debug, Clone)]
pub enum Written {
	Bytes(Vec<u8>),
	Path(PathBuf),
}

pub fn ext(c: Cont) -> &'static str {
	match c {
		Cont::Versatiles => "versatiles",
		Cont::Pmtiles => "pmtiles",
		Cont::Mbtiles => "mbtiles",
		Cont::Tar => "tar",
		Cont::Directory => "dir",
	}
}

/// Writes `src` with the repository's writer for `c`. Panics are caught and reported as Err("PANIC ...").
pub fn write(rt: &tokio::runtime::Runtime, c: Cont, src: &mut dyn TilesReaderTrait, work: &Path, name: &str) -> Result<Written, String> {
	let path = work.join(format!("{name}.{}", ext(c)));
	if c == Cont::Mbtiles {
		mbtiles_pool_token();
	}
	let r = catch(|| {
		rt.block_on(async {
			match c {
				Cont::Versatiles => {
					let mut w = DataWriterBlob::new().unwrap();
					VersaTilesWriter::write_to_writer(src, &mut w).await.map(|_| Written::Bytes(w.into_blob().into_vec()))
				}
				Cont::Pmtiles => {
					let mut w = DataWriterBlob::new().unwrap();
					PMTilesWriter::write_to_writer(src, &mut w).await.map(|_| Written::Bytes(w.into_blob().into_vec()))
				}
				Cont::Mbtiles => MBTilesWriter::write_to_path(src, &path).await.map(|_| Written::Path(path.clone())),
				Cont::Tar => TarTilesWriter::write_to_path(src, &path).await.map(|_| Written::Path(path.clone())),
				Cont::Directory => {
					let _ = std::fs::remove_dir_all(&path);
					std::fs::create_dir_all(&path).unwrap();
					DirectoryTilesWriter::write_to_path(src, &path).await.map(|_| Written::Path(path.clone()))
				}
			}
		})
	});
	match r {
		Ok(Ok(w)) => Ok(w),
		Ok(Err(e)) => Err(format!("{e:#}")),
		Err(p) => Err(format!("PANIC {p}")),
	}
}

/// Writes `src` with the repository's writer for `c` to the given path through the writers' path API (whatever is
/// at that path already stays there for the writer to deal with).
pub fn write_to_existing_path(rt: &tokio::runtime::Runtime, c: Cont, src: &mut dyn TilesReaderTrait, path: &Path) -> Result<Written, String> {
	if c == Cont::Mbtiles {
		mbtiles_pool_token();
	}
	let r = catch(|| {
		rt.block_on(async {
			match c {
				Cont::Versatiles => VersaTilesWriter::write_to_path(src, path).await,
				Cont::Pmtiles => PMTilesWriter::write_to_path(src, path).await,
				Cont::Mbtiles => MBTilesWriter::write_to_path(src, path).await,
				Cont::Tar => TarTilesWriter::write_to_path(src, path).await,
				Cont::Directory => DirectoryTilesWriter::write_to_path(src, path).await,
			}
		})
	});
	match r {
		Ok(Ok(())) => Ok(Written::Path(path.to_path_buf())),
		Ok(Err(e)) => Err(format!("{e:#}")),
		Err(p) => Err(format!("PANIC {p}")),
	}
}

pub fn open(rt: &tokio::runtime::Runtime, c: Cont, w: &Written) -> Result<Box<dyn TilesReaderTrait>, String> {
	if c == Cont::Mbtiles {
		mbtiles_pool_token();
	}
	let r = catch(|| {
		rt.block_on(async {
			Ok::<Box<dyn TilesReaderTrait>, anyhow::Error>(match (c, w) {
				(Cont::Versatiles, Written::Bytes(b)) => VersaTilesReader::open_reader(Box::new(DataReaderBlob::from(b.clone()))).await?.boxed(),
				(Cont::Versatiles, Written::Path(p)) => VersaTilesReader::open_path(p).await?.boxed(),
				(Cont::Pmtiles, Written::Bytes(b)) => PMTilesReader::open_reader(Box::new(DataReaderBlob::from(b.clone()))).await?.boxed(),
				(Cont::Pmtiles, Written::Path(p)) => PMTilesReader::open_path(p).await?.boxed(),
				(Cont::Mbtiles, Written::Path(p)) => MBTilesReader::open_path(p)?.boxed(),
				(Cont::Tar, Written::Path(p)) => TarTilesReader::open_path(p)?.boxed(),
				(Cont::Directory, Written::Path(p)) => DirectoryTilesReader::open_path(p)?.boxed(),
				_ => anyhow::bail!("unsupported written kind"),
			})
		})
	});
	match r {
		Ok(Ok(r)) => Ok(r),
		Ok(Err(e)) => Err(format!("{e:#}")),
		Err(p) => Err(format!("PANIC {p}")),
	}
}

#[derive(Debug, Clone)]
pub struct Indep {
	pub tiles: TileMap,
	/// declared tile format name where the layout expresses it
	pub format: Option<String>,
	/// declared compression id (0 none, 1 gzip, 2 brotli) where the layout expresses it
	pub compression: Option<u8>,
	/// metadata document, decoded
	pub meta: Option<Vec<u8>>,
	pub note: String,
	/// header / metadata fields that contradict the stored tiles (zoom range, bounds, counts)
	pub header_issues: Vec<String>,
}

/// geographic centre (lon, lat) of a tile, standard Web-Mercator formulas
fn tile_center(k: &crate::memsource::Key) -> (f64, f64) {
	let n = (1u64 << k.0) as f64;
	let lon = (k.1 as f64 + 0.5) / n * 360.0 - 180.0;
	let lat = (std::f64::consts::PI * (1.0 - 2.0 * (k.2 as f64 + 0.5) / n)).sinh().atan().to_degrees();
	(lon, lat)
}

/// zoom range and bounds a header declares against the stored tiles: the declared zoom range must include every
/// stored level, the bounds must be a valid box that contains the centre of every tile of the highest stored level
fn header_vs_tiles(what: &str, tiles: &TileMap, zooms: Option<(u8, u8)>, bounds: Option<[f64; 4]>) -> Vec<String> {
	let mut v = vec![];
	let stored: Vec<&crate::memsource::Key> = tiles.iter().filter(|(_, d)| !d.is_empty()).map(|(k, _)| k).collect();
	if stored.is_empty() {
		return v;
	}
	let (zmin, zmax) = (stored.iter().map(|k| k.0).min().unwrap(), stored.iter().map(|k| k.0).max().unwrap());
	if let Some((a, b)) = zooms {
		if a > zmin || b < zmax {
			v.push(format!("{what} declares zoom levels {a}..{b}, tiles are stored at {zmin}..{zmax}"));
		}
	}
	if let Some(b) = bounds {
		if !(b[0] <= b[2] && b[1] <= b[3] && b[0] >= -180.0000001 && b[2] <= 180.0000001 && b[1] >= -90.0000001 && b[3] <= 90.0000001) {
			v.push(format!("{what} declares the bounds {b:?}, which is not a valid geographic box"));
		} else {
			for k in stored.iter().filter(|k| k.0 == zmax) {
				let (lon, lat) = tile_center(k);
				// the headers store 1e-7 degree integers: one unit of slack for the quantisation
				let q = 1.5e-7;
				if lon < b[0] - q || lon > b[2] + q || lat < b[1] - q || lat > b[3] + q {
					v.push(format!("{what} declares the bounds {b:?}, which do not contain the centre ({lon:.5}, {lat:.5}) of the stored tile {k:?}"));
					break;
				}
			}
		}
	}
	v
}

fn bytes_of(w: &Written) -> Result<Vec<u8>, String> {
	match w {
		Written::Bytes(b) => Ok(b.clone()),
		Written::Path(p) => std::fs::read(p).map_err(|e| e.to_string()),
	}
}

pub fn independent_decode(c: Cont, w: &Written) -> Result<Indep, String> {
	match c {
		Cont::Versatiles => {
			let d = codec::vt_decode(&bytes_of(w)?)?;
			let format = ALL_FORMATS.iter().find(|f| vt_format_code(**f) == d.format).map(|f| format_name(*f).to_string());
			let meta = if d.meta_raw.is_empty() { None } else { Some(codec::decode_with(d.compression, &d.meta_raw)?) };
			let header_issues = header_vs_tiles("the versatiles header", &d.tiles, Some(d.zoom_range), Some([d.bbox[0] as f64 / 1e7, d.bbox[1] as f64 / 1e7, d.bbox[2] as f64 / 1e7, d.bbox[3] as f64 / 1e7]));
			Ok(Indep { tiles: d.tiles, format, compression: Some(d.compression), meta, note: format!("{} blocks", d.blocks.len()), header_issues })
		}
		Cont::Pmtiles => {
			let d = codec::pm_decode(&bytes_of(w)?)?;
			let format = ALL_FORMATS.iter().find(|f| pm_type_code(**f) == d.tile_type && d.tile_type != 0).map(|f| format_name(*f).to_string());
			let compression = match d.tile_compression {
				1 => Some(0),
				2 => Some(1),
				3 => Some(2),
				_ => None,
			};
			let mut header_issues = header_vs_tiles("the PMTiles header", &d.tiles, Some((d.min_zoom, d.max_zoom)), Some([d.bounds_e7[0] as f64 / 1e7, d.bounds_e7[1] as f64 / 1e7, d.bounds_e7[2] as f64 / 1e7, d.bounds_e7[3] as f64 / 1e7]));
			// the three counters may be 0 (= unknown) or must be right
			for (name, h, a) in [("addressed tiles", d.counts.0, d.actual_counts.0), ("tile entries", d.counts.1, d.actual_counts.1), ("tile contents", d.counts.2, d.actual_counts.2)] {
				if h != 0 && h != a {
					header_issues.push(format!("the PMTiles header counts {h} {name}, the directories hold {a}"));
				}
			}
			if d.clustered {
				if let Some(at) = &d.not_clustered_at {
					header_issues.push(format!("the PMTiles header sets the 'clustered' flag, but the tile data is not in tile-id order ({at})"));
				}
			}
			Ok(Indep { tiles: d.tiles, format, compression, meta: Some(d.meta), note: format!("{} leaf levels, clustered={}", d.leaf_levels, d.clustered), header_issues })
		}
		Cont::Mbtiles => {
			let Written::Path(p) = w else { return Err("mbtiles needs a path".into()) };
			let d = codec::mb_decode(p)?;
			let format = d.metadata.get("format").cloned();
			let compression = format.as_deref().map(|f| if f == "pbf" { 1 } else { 0 });
			let num = |k: &str| d.metadata.get(k).and_then(|v| v.trim().parse::<f64>().ok());
			let zooms = match (num("minzoom"), num("maxzoom")) {
				(Some(a), Some(b)) if a >= 0.0 && b <= 255.0 => Some((a as u8, b as u8)),
				_ => None,
			};
			let bounds = d.metadata.get("bounds").and_then(|v| {
				let p: Vec<f64> = v.split(',').filter_map(|t| t.trim().parse::<f64>().ok()).collect();
				if p.len() == 4 { Some([p[0], p[1], p[2], p[3]]) } else { None }
			});
			let mut header_issues = header_vs_tiles("the MBTiles metadata table", &d.tiles, zooms, bounds);
			// MBTiles 1.3, "Content": the metadata table MUST contain the rows name and format
			for row in ["name", "format"] {
				if !d.metadata.contains_key(row) {
					header_issues.push(format!("the MBTiles metadata table lacks the mandatory row '{row}'"));
				}
			}
			if d.metadata.contains_key("bounds") && bounds.is_none() {
				header_issues.push(format!("the MBTiles metadata row 'bounds' is not four numbers: {:?}", d.metadata["bounds"]));
			}
			Ok(Indep { tiles: d.tiles, format, compression, meta: None, note: format!("{} metadata rows", d.metadata.len()), header_issues })
		}
		Cont::Tar => {
			let d = codec::tar_decode(&bytes_of(w)?)?;
			Ok(Indep { tiles: d.tiles, format: d.format_ext.map(|e| e.trim_start_matches('.').to_string()), compression: d.compression, meta: d.meta, note: String::new(), header_issues: vec![] })
		}
		Cont::Directory => {
			let Written::Path(p) = w else { return Err("directory needs a path".into()) };
			let d = codec::files_decode(&codec::dir_read(p)?)?;
			Ok(Indep { tiles: d.tiles, format: d.format_ext.map(|e| e.trim_start_matches('.').to_string()), compression: d.compression, meta: d.meta, note: String::new(), header_issues: vec![] })
		}
	}
}

pub fn cleanup(w: &Written) {
	if let Written::Path(p) = w {
		if p.is_dir() {
			let _ = std::fs::remove_dir_all(p);
		} else {
			let _ = std::fs::remove_file(p);
		}
	}
}

pub struct WorkDir(pub PathBuf);
impl WorkDir {
	pub fn new(tag: &str) -> WorkDir {
		let d = crate::ctx::verif_root().join(".work").join(format!("{tag}-{}", std::process::id()));
		let _ = std::fs::remove_dir_all(&d);
		std::fs::create_dir_all(&d).unwrap();
		WorkDir(d)
	}
}
impl Drop for WorkDir {
	fn drop(&mut self) {
		let _ = std::fs::remove_dir_all(&self.0);
	}
}
