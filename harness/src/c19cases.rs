//! C19 case generators and runners (shared by the worker binary and the parent check).

use crate::codec::{self, PmLayout, VtLayout};
use crate::memsource::{MemSource, TileMap};
use crate::mvt;
use std::path::{Path, PathBuf};
use versatiles_container::*;
use versatiles_core::io::{DataReaderBlob, DataReaderFile};
use versatiles_core::tilejson::TileJSON;
use versatiles_core::types::*;
use versatiles_geometry::vector_tile::VectorTile;

pub const ENTRIES: [&str; 19] = ["json", "json_blob", "tilejson_str", "tilejson_blob", "csv", "csv_file", "vpl", "vpl_op", "vpl_file", "mvt", "versatiles", "versatiles_file", "versatiles_http", "pmtiles", "pmtiles_file", "pmtiles_http", "tar", "mbtiles", "directory"];

pub struct Env {
	pub dir: PathBuf,
	pub rt: tokio::runtime::Runtime,
	pub factory: versatiles_pipeline::PipelineFactory,
}

impl Env {
	pub fn new(work: &Path, shard: u64) -> Env {
		let dir = work.join(format!("w{shard}-{}", std::process::id()));
		std::fs::create_dir_all(&dir).unwrap();
		std::fs::write(dir.join("d.csv"), "data_id,v\nx,1\n").unwrap();
		let mut tiles = TileMap::new();
		tiles.insert((0, 0, 0), mvt::encode_tile(&crate::checks::c10::catalogue()[0].1));
		let factory = crate::pipeline::factory(vec![MemSource::new("m", tiles.clone(), TileFormat::PBF, TileCompression::Uncompressed), MemSource::new("n", tiles, TileFormat::PBF, TileCompression::Uncompressed)], &dir);
		Env { dir, rt: tokio::runtime::Builder::new_current_thread().build().unwrap(), factory }
	}
}

impl Drop for Env {
	fn drop(&mut self) {
		let _ = std::fs::remove_dir_all(&self.dir);
	}
}

fn probes() -> Vec<TileCoord3> {
	[(0u8, 0u32, 0u32), (1, 1, 0), (3, 1, 2), (9, 255, 256), (9, 256, 256), (10, 700, 5), (14, 1, 1), (31, 5, 5)].iter().map(|k| TileCoord3 { x: k.1, y: k.2, z: k.0 }).collect()
}

fn lookups(env: &Env, r: &dyn TilesReaderTrait) -> bool {
	let mut ok = true;
	// two passes plus neighbours in the same blocks: the second call on a reader runs on whatever the first
	// one (possibly a failed one) left in the reader's caches
	let mut ps = probes();
	ps.extend([(3u8, 2u32, 2u32), (9, 255, 257), (9, 257, 256), (1, 0, 0), (0, 0, 0)].iter().map(|k| TileCoord3 { x: k.1, y: k.2, z: k.0 }));
	ps.extend(probes());
	for c in ps {
		if env.rt.block_on(r.get_tile_data(&c)).is_err() {
			ok = false;
		}
	}
	let _ = r.get_parameters().bbox_pyramid.count_tiles();
	let _ = r.get_tilejson().as_string();
	ok
}

/// Runs one case. Returns true for a value, false for an error return; panics propagate.
pub fn run_case(entry: &str, bytes: &[u8], env: &Env) -> bool {
	match entry {
		"json" => match std::str::from_utf8(bytes) {
			Ok(s) => versatiles_core::json::parse_json_str(s).is_ok(),
			Err(_) => false,
		},
		// the JSON entry point that takes bytes
		"json_blob" => versatiles_core::json::JsonValue::parse_blob(&Blob::from(bytes)).is_ok(),
		// a pipeline file opened like any other container (the case bytes are the text of case.vpl; next to it
		// lies other.vpl, which reads case.vpl)
		"vpl_file" => {
			std::fs::write(env.dir.join("case.vpl"), bytes).unwrap();
			std::fs::write(env.dir.join("other.vpl"), "from_container filename=\"case.vpl\" | filter_zoom min=0").unwrap();
			std::fs::write(env.dir.join("plain.vpl"), "from_debug format=pbf").unwrap();
			let by_path = match env.rt.block_on(versatiles_container::get_reader(env.dir.join("case.vpl").to_str().unwrap())) {
				Ok(r) => lookups(env, r.as_ref()),
				Err(_) => false,
			};
			// and through the entry point that takes a data reader
			let by_reader = match env.rt.block_on(versatiles_container::PipelineReader::open_reader(Box::new(DataReaderBlob::from(bytes.to_vec())), &env.dir)) {
				Ok(r) => lookups(env, &r),
				Err(_) => false,
			};
			by_path && by_reader
		}
		// the container behind a web server that answers range requests (206 / 416 like any static file server)
		"versatiles_http" | "pmtiles_http" => {
			let up = crate::checks::http::Upstream::start(bytes.to_vec());
			let url = format!("http://127.0.0.1:{}/case.{}", up.port, if entry == "versatiles_http" { "versatiles" } else { "pmtiles" });
			// (network readers need a runtime with the I/O driver)
			let rt = tokio::runtime::Builder::new_current_thread().enable_all().build().unwrap();
			match rt.block_on(versatiles_container::get_reader(&url)) {
				Ok(r) => {
					let mut ok = true;
					for c in probes() {
						ok &= rt.block_on(r.get_tile_data(&c)).is_ok();
					}
					ok
				}
				Err(_) => false,
			}
		}
		"tilejson_str" => match std::str::from_utf8(bytes) {
			Ok(s) => TileJSON::try_from(s).map(|t| t.as_string()).is_ok(),
			Err(_) => false,
		},
		"tilejson_blob" => {
			let t = TileJSON::try_from_blob_or_default(&Blob::from(bytes));
			!t.as_string().is_empty()
		}
		"csv" => match versatiles_core::utils::read_csv_iter(std::io::Cursor::new(bytes.to_vec()), b',') {
			Ok(it) => it.map(|r| r.is_ok()).fold(true, |a, b| a && b),
			Err(_) => false,
		},
		"csv_file" => {
			std::fs::write(env.dir.join("case.csv"), bytes).unwrap();
			let vpl = "from_container filename=\"mem:0\" | vectortiles_update_properties data_source_path=\"case.csv\" layer_name=\"a\" id_field_tiles=\"k\" id_field_data=\"data_id\"";
			match env.rt.block_on(env.factory.operation_from_vpl(vpl)) {
				Ok(op) => env.rt.block_on(op.get_tile_data(&TileCoord3 { x: 0, y: 0, z: 0 })).is_ok(),
				Err(_) => false,
			}
		}
		"vpl" => match std::str::from_utf8(bytes) {
			Ok(s) => versatiles_pipeline::verif_hooks::parse_vpl(s).is_ok(),
			Err(_) => false,
		},
		"vpl_op" => match std::str::from_utf8(bytes) {
			Ok(s) => match env.rt.block_on(env.factory.operation_from_vpl(s)) {
				Ok(op) => {
					let _ = env.rt.block_on(op.get_tile_data(&TileCoord3 { x: 0, y: 0, z: 0 }));
					true
				}
				Err(_) => false,
			},
			Err(_) => false,
		},
		"mvt" => match VectorTile::from_blob(&Blob::from(bytes)) {
			Ok(t) => {
				let mut ok = true;
				for l in &t.layers {
					for f in &l.features {
						ok &= l.decode_tag_ids(&f.tag_ids).is_ok();
					}
					ok &= l.to_features().is_ok();
				}
				// the property stages of the pipeline decode the tags of every feature again
				for stage in 0..2 {
					if let Ok(mut t2) = VectorTile::from_blob(&Blob::from(bytes)) {
						for l in t2.layers.iter_mut() {
							ok &= if stage == 0 { l.filter_map_properties(Some).is_ok() } else { l.map_properties(|p| p).is_ok() };
						}
					}
				}
				ok &= t.to_blob().is_ok();
				ok
			}
			Err(_) => false,
		},
		"versatiles" => match env.rt.block_on(VersaTilesReader::open_reader(Box::new(DataReaderBlob::from(bytes.to_vec())))) {
			Ok(r) => lookups(env, &r),
			Err(_) => false,
		},
		"pmtiles" => match env.rt.block_on(PMTilesReader::open_reader(Box::new(DataReaderBlob::from(bytes.to_vec())))) {
			Ok(r) => lookups(env, &r),
			Err(_) => false,
		},
		"versatiles_file" | "pmtiles_file" => {
			let p = env.dir.join(if entry == "versatiles_file" { "case.versatiles" } else { "case.pmtiles" });
			std::fs::write(&p, bytes).unwrap();
			let reader = match DataReaderFile::open(&p) {
				Ok(r) => r,
				Err(_) => return false,
			};
			if entry == "versatiles_file" {
				match env.rt.block_on(VersaTilesReader::open_reader(reader)) {
					Ok(r) => lookups(env, &r),
					Err(_) => false,
				}
			} else {
				match env.rt.block_on(PMTilesReader::open_reader(reader)) {
					Ok(r) => lookups(env, &r),
					Err(_) => false,
				}
			}
		}
		"tar" => {
			let p = env.dir.join("case.tar");
			std::fs::write(&p, bytes).unwrap();
			match TarTilesReader::open_path(&p) {
				Ok(r) => lookups(env, &r),
				Err(_) => false,
			}
		}
		"mbtiles" => {
			let p = env.dir.join("case.mbtiles");
			std::fs::write(&p, bytes).unwrap();
			crate::containers::mbtiles_pool_token();
			match MBTilesReader::open_path(&p) {
				Ok(r) => lookups(env, &r),
				Err(_) => false,
			}
		}
		"directory" => {
			// the case bytes are a newline separated list of "relative path\tcontent"
			let root = env.dir.join("case.dir");
			let _ = std::fs::remove_dir_all(&root);
			std::fs::create_dir_all(&root).unwrap();
			for line in bytes.split(|b| *b == b'\n') {
				let mut it = line.splitn(2, |b| *b == b'\t');
				let (Some(path), Some(content)) = (it.next(), it.next()) else { continue };
				use std::os::unix::ffi::OsStrExt;
				let rel = std::ffi::OsStr::from_bytes(path);
				let full = root.join(rel);
				if let Some(parent) = full.parent() {
					let _ = std::fs::create_dir_all(parent);
				}
				if path.ends_with(b"/") {
					let _ = std::fs::create_dir_all(&full);
				} else {
					let _ = std::fs::write(&full, content);
				}
			}
			match DirectoryTilesReader::open_path(&root) {
				Ok(r) => lookups(env, &r),
				Err(_) => false,
			}
		}
		_ => panic!("unknown entry"),
	}
}

// ---------------------------------------------------------------------------------------------
// generators

fn all_strings(alpha: &[&str], maxlen: usize, f: &mut dyn FnMut(&[u8])) {
	fn rec(alpha: &[&str], buf: &mut Vec<u8>, left: usize, f: &mut dyn FnMut(&[u8])) {
		f(buf);
		if left == 0 {
			return;
		}
		for a in alpha {
			let n = buf.len();
			buf.extend_from_slice(a.as_bytes());
			rec(alpha, buf, left - 1, f);
			buf.truncate(n);
		}
	}
	rec(alpha, &mut Vec::new(), maxlen, f);
}

/// multi-byte characters at every offset 0..40 before typical error sites
fn multibyte_offsets(wrappers: &[(&str, &str)], tails: &[&str], f: &mut dyn FnMut(&[u8])) {
	for m in ["\u{e9}", "\u{1F600}", "\u{0800}", "\u{e9}\u{e9}\u{e9}\u{e9}\u{e9}\u{e9}\u{e9}\u{e9}\u{e9}"] {
		for (pre, fill) in wrappers {
			for pad in 0..40usize {
				for t in tails {
					let s = format!("{pre}{}{m}{t}", fill.repeat(pad));
					f(s.as_bytes());
					let s2 = format!("{pre}{m}{}{t}", fill.repeat(pad));
					f(s2.as_bytes());
				}
			}
		}
	}
}

/// one multi-byte character (2, 3 and 4 bytes) pushed over every byte offset 40..=600 of a long document,
/// so that it straddles any fixed-size window a decoder may cut out of its input
fn multibyte_long(wrappers: &[(&str, &str)], tails: &[&str], f: &mut dyn FnMut(&[u8])) {
	for m in ["\u{e9}", "\u{0800}", "\u{1F600}"] {
		for (pre, fill) in wrappers {
			if fill.is_empty() {
				continue;
			}
			for pad in 40..=600usize {
				let body = fill.repeat(pad / fill.len() + 1);
				for t in tails {
					let s = format!("{pre}{}{m}{t}", &body[..pad]);
					f(s.as_bytes());
					let s2 = format!("{pre}{}{m}{}{t}", &body[..pad], &body[..pad.min(300)]);
					f(s2.as_bytes());
				}
			}
		}
	}
}

fn text_mutations(seeds: &[String], alpha: &[&str], f: &mut dyn FnMut(&[u8])) {
	for s in seeds {
		let cs: Vec<char> = s.chars().collect();
		f(s.as_bytes());
		for i in 0..=cs.len() {
			// truncation
			f(cs[..i].iter().collect::<String>().as_bytes());
			if i < cs.len() {
				let mut d = cs.clone();
				d.remove(i);
				f(d.iter().collect::<String>().as_bytes());
			}
			for a in alpha {
				let mut ins: String = cs[..i].iter().collect();
				ins.push_str(a);
				ins.extend(cs[i..].iter());
				f(ins.as_bytes());
				if i < cs.len() {
					let mut rep: String = cs[..i].iter().collect();
					rep.push_str(a);
					rep.extend(cs[i + 1..].iter());
					f(rep.as_bytes());
				}
			}
		}
	}
}

/// every truncation; at every position every value of {0,1,0x7f,0x80,0xff,b+1,b-1,b^0x80}; every
/// single deletion and duplication; with `pairs`, every pair of positions over {0,0xff}
pub fn byte_mutations(seed: &[u8], pairs: bool, f: &mut dyn FnMut(&[u8])) {
	f(seed);
	for i in 0..seed.len() {
		f(&seed[..i]);
	}
	let mut buf = seed.to_vec();
	for i in 0..seed.len() {
		let b = seed[i];
		for v in [0u8, 1, 0x7f, 0x80, 0xff, b.wrapping_add(1), b.wrapping_sub(1), b ^ 0x80] {
			if v != b {
				buf[i] = v;
				f(&buf);
			}
		}
		buf[i] = b;
	}
	for i in 0..seed.len() {
		let mut d = seed.to_vec();
		d.remove(i);
		f(&d);
		let mut u = seed.to_vec();
		u.insert(i, seed[i]);
		f(&u);
	}
	if pairs {
		for i in 0..seed.len() {
			for j in (i + 1)..seed.len() {
				for (a, b) in [(0u8, 0u8), (0xff, 0xff), (0, 0xff), (0xff, 0)] {
					buf[i] = a;
					buf[j] = b;
					f(&buf);
				}
				buf[j] = seed[j];
			}
			buf[i] = seed[i];
		}
	}
}

fn splices(a: &[u8], b: &[u8], step: usize, f: &mut dyn FnMut(&[u8])) {
	let mut i = 0;
	while i <= a.len() {
		let mut j = 0;
		while j <= b.len() {
			let mut v = a[..i].to_vec();
			v.extend_from_slice(&b[j..]);
			f(&v);
			j += step;
		}
		i += step;
	}
}

pub fn small_sets() -> Vec<TileMap> {
	let mut a = TileMap::new();
	a.insert((0, 0, 0), b"root".to_vec());
	let mut b = TileMap::new();
	b.insert((3, 1, 2), b"aaaa".to_vec());
	b.insert((9, 255, 256), b"bbbbbb".to_vec());
	b.insert((9, 256, 256), b"aaaa".to_vec());
	vec![a, b]
}

const META: &[u8] = br#"{"tilejson":"3.0.0","name":"n"}"#;

fn vt_seeds() -> Vec<Vec<u8>> {
	let mut v = vec![];
	for s in small_sets() {
		for comp in 0..3u8 {
			v.push(codec::vt_encode(&s, 0x10, comp, META, VtLayout::plain()));
		}
	}
	v
}
fn pm_seeds() -> Vec<Vec<u8>> {
	let mut v = vec![];
	for s in small_sets() {
		v.push(codec::pm_encode(&s, 2, 1, META, PmLayout::plain()));
		v.push(codec::pm_encode(&s, 2, 2, META, PmLayout { internal_gzip: false, run_lengths: true, share_offsets: true, leaf_levels: 1, leaf_size: 1, clustered: true, data_reversed: false }));
	}
	v
}

/// versatiles: mutations of the *decompressed* block index and tile index, re-compressed with the header lengths fixed up
pub fn vt_inner(f: &mut dyn FnMut(&[u8])) {
	let tiles = &small_sets()[1];
	let base = codec::vt_encode(tiles, 0x10, 0, META, VtLayout::plain());
	let be = |b: &[u8]| u64::from_be_bytes(b[..8].try_into().unwrap());
	let (bo, bl) = (be(&base[50..]) as usize, be(&base[58..]) as usize);
	let index = codec::brotli_dec(&base[bo..bo + bl]).unwrap();
	let mut emit_index = |idx: &[u8]| {
		let enc = codec::brotli_enc(idx);
		let mut out = base[..bo].to_vec();
		out.extend_from_slice(&enc);
		out[58..66].copy_from_slice(&(enc.len() as u64).to_be_bytes());
		f(&out);
	};
	byte_mutations(&index, false, &mut emit_index);
	// big field values
	for (pos, len) in [(1usize, 4usize), (5, 4), (13, 8), (21, 8), (29, 4)] {
		for fill in [0xffu8, 0x7f, 0x00] {
			let mut m = index.clone();
			for b in &mut m[pos..pos + len] {
				*b = fill;
			}
			emit_index(&m);
		}
	}
	// block records on deep levels with block columns / rows around 2^16, 2^24 and 2^31 (a block coordinate counts
	// blocks of 256 tiles: level z has 2^(z-8) of them per axis) and level bytes up to 255
	for z in [0u8, 8, 16, 23, 24, 25, 30, 31, 32, 255] {
		for c in [0u32, 1, 255, 256, 65535, 65536, (1 << 23) - 1, 1 << 23, (1 << 24) - 1, 1 << 24, (1 << 24) + 1, (1u32 << 31) - 1, 1 << 31, u32::MAX] {
			for axis in 0..3 {
				let mut m = index.clone();
				m[0] = z;
				if axis != 1 {
					m[1..5].copy_from_slice(&c.to_be_bytes());
				}
				if axis != 0 {
					m[5..9].copy_from_slice(&c.to_be_bytes());
				}
				emit_index(&m);
			}
		}
	}
	// tile index of the first block
	let rec = &index[..33];
	let off = be(&rec[13..]) as usize;
	let tl = be(&rec[21..]) as usize;
	let il = u32::from_be_bytes(rec[29..33].try_into().unwrap()) as usize;
	let ti = codec::brotli_dec(&base[off + tl..off + tl + il]).unwrap();
	let mut emit_ti = |t: &[u8]| {
		// append the new tile index at the end of the file and point the block record to it (tiles_len grows)
		let enc = codec::brotli_enc(t);
		let mut out = base.clone();
		let new_pos = out.len();
		out.extend_from_slice(&enc);
		let mut idx = index.clone();
		idx[21..29].copy_from_slice(&((new_pos - off) as u64).to_be_bytes());
		idx[29..33].copy_from_slice(&(enc.len() as u32).to_be_bytes());
		let ienc = codec::brotli_enc(&idx);
		let ipos = out.len();
		out.extend_from_slice(&ienc);
		out[50..58].copy_from_slice(&(ipos as u64).to_be_bytes());
		out[58..66].copy_from_slice(&(ienc.len() as u64).to_be_bytes());
		f(&out);
	};
	byte_mutations(&ti, false, &mut emit_ti);
	// whole fields of every entry (offset u64, length u32) at the edges of their ranges
	for e in 0..ti.len() / 12 {
		for off in [u64::MAX, u64::MAX - 10, u64::MAX / 2, 1u64 << 63, (1u64 << 32) - 1] {
			for len in [None, Some(u32::MAX), Some(0u32)] {
				let mut m = ti.clone();
				m[e * 12..e * 12 + 8].copy_from_slice(&off.to_be_bytes());
				if let Some(l) = len {
					m[e * 12 + 8..e * 12 + 12].copy_from_slice(&l.to_be_bytes());
				}
				emit_ti(&m);
			}
		}
	}
	emit_ti(&[]);
	emit_ti(&ti[..12.min(ti.len())]);
	let mut long = ti.clone();
	long.extend_from_slice(&ti);
	emit_ti(&long);
}

/// PMTiles: mutations of the decompressed root directory, re-compressed; self-referential and deep leaf chains
pub fn pm_inner(f: &mut dyn FnMut(&[u8])) {
	let tiles = &small_sets()[1];
	let base = codec::pm_encode(tiles, 2, 1, META, PmLayout::plain());
	let le = |b: &[u8]| u64::from_le_bytes(b[..8].try_into().unwrap());
	let (ro, rl) = (le(&base[8..]) as usize, le(&base[16..]) as usize);
	let root = codec::gunzip(&base[ro..ro + rl]).unwrap();
	let mut emit_root = |dir: &[u8], leaves: Option<&[u8]>| {
		// new root at the end of the file
		let enc = codec::gzip(dir);
		let mut out = base.clone();
		let pos = out.len();
		out.extend_from_slice(&enc);
		out[8..16].copy_from_slice(&(pos as u64).to_le_bytes());
		out[16..24].copy_from_slice(&(enc.len() as u64).to_le_bytes());
		if let Some(l) = leaves {
			let lp = out.len();
			out.extend_from_slice(l);
			out[40..48].copy_from_slice(&(lp as u64).to_le_bytes());
			out[48..56].copy_from_slice(&(l.len() as u64).to_le_bytes());
		}
		f(&out);
	};
	byte_mutations(&root, false, &mut |d| emit_root(d, None));
	// varint extremes in each column
	let big = [0xffu8, 0xff, 0xff, 0xff, 0xff, 0xff, 0xff, 0xff, 0xff, 0x01];
	for col in 0..5 {
		let mut d = vec![1u8];
		for c in 1..5 {
			if c == col {
				d.extend_from_slice(&big);
			} else {
				d.push(1);
			}
		}
		if col == 0 {
			d = big.to_vec();
		}
		emit_root(&d, None);
	}
	emit_root(&[2, 1, 0xff, 0xff, 0xff, 0xff, 0xff, 0xff, 0xff, 0xff, 0xff, 0x01, 1, 1, 1, 1, 1, 1], None);
	emit_root(&[1, 0, 1, 5, 0], None);
	// self-referential leaf: root entry (id 0, run 0) points to a leaf that is the same directory
	let leaf_dir = codec::pm_serialize_dir(&[codec::PmEntry { id: 0, offset: 0, length: 0, run: 0 }]);
	for depth_trick in 0..2 {
		let mut dir = leaf_dir.clone();
		let gz = codec::gzip(&dir);
		// fix the length field to the compressed leaf length (iterate once: length is a varint in the dir itself)
		dir = codec::pm_serialize_dir(&[codec::PmEntry { id: 0, offset: 0, length: gz.len() as u64 + depth_trick, run: 0 }]);
		let gz2 = codec::gzip(&dir);
		let dir2 = codec::pm_serialize_dir(&[codec::PmEntry { id: 0, offset: 0, length: gz2.len() as u64, run: 0 }]);
		let gz3 = codec::gzip(&dir2);
		emit_root(&dir2, Some(&gz3));
	}
	// leaf pointers (run 0) and tile entries whose offset / length reach the end of the 64-bit range
	for (off, len) in [(u64::MAX - 1, 5u64), (u64::MAX - 2, 2), (u64::MAX / 2, u64::MAX / 2 + 5), (5, u64::MAX - 2), (1u64 << 63, 1u64 << 63), (1 << 40, 10)] {
		for run in [0u32, 1] {
			let d = codec::pm_serialize_dir(&[codec::PmEntry { id: 0, offset: off, length: len, run }]);
			emit_root(&d, Some(&[1, 2, 3, 4, 5, 6, 7, 8]));
			emit_root(&d, None);
		}
	}
	// a chain of 3 and of 300 nested leaves
	for n in [3usize, 300, 5000] {
		let mut leaves: Vec<u8> = vec![];
		let tile = codec::pm_serialize_dir(&[codec::PmEntry { id: 0, offset: 0, length: 4, run: 1 }]);
		let mut cur = codec::gzip(&tile);
		let mut cur_off = 0u64;
		leaves.extend_from_slice(&cur);
		for _ in 0..n {
			let d = codec::pm_serialize_dir(&[codec::PmEntry { id: 0, offset: cur_off, length: cur.len() as u64, run: 0 }]);
			cur = codec::gzip(&d);
			cur_off = leaves.len() as u64;
			leaves.extend_from_slice(&cur);
		}
		let rootd = codec::pm_serialize_dir(&[codec::PmEntry { id: 0, offset: cur_off, length: cur.len() as u64, run: 0 }]);
		emit_root(&rootd, Some(&leaves));
	}
}

fn mvt_inner(f: &mut dyn FnMut(&[u8])) {
	// hand-made structural corruptions: odd tag list, huge lengths, wrong wire types, deep/invalid varints
	use mvt::{feat, layer, point, s};
	// fields of numbers a reader does not know (it has to step over them), of every wire type, whose length / value is
	// on the borders of 32 and 64 bits - in the tile, in a layer, in a feature and in a value message, at the start and
	// at the end of the message
	{
		let varint = |mut v: u64| -> Vec<u8> {
			let mut o = vec![];
			loop {
				let b = (v & 0x7f) as u8;
				v >>= 7;
				if v == 0 {
					o.push(b);
					return o;
				}
				o.push(b | 0x80);
			}
		};
		let msg = |field: u32, body: &[u8]| -> Vec<u8> {
			let mut o = varint(((field as u64) << 3) | 2);
			o.extend(varint(body.len() as u64));
			o.extend_from_slice(body);
			o
		};
		let value = msg(1, b"v"); // string_value
		let feature = { let mut b = vec![0x08, 0x01, 0x18, 0x01]; b.extend(msg(4, &[9, 2, 2])); b.splice(0..0, msg(2, &[0, 0])); b };
		let mut unknowns: Vec<Vec<u8>> = vec![];
		for field in [7u32, 9, 16, 1000] {
			for len in [0u64, 1, 5, 1 << 31, (1 << 32) - 1, 1 << 32, 1 << 62, (1 << 63) - 1, 1 << 63, u64::MAX - 40, u64::MAX - 8, u64::MAX - 1, u64::MAX] {
				let mut u = varint(((field as u64) << 3) | 2);
				u.extend(varint(len));
				u.extend_from_slice(b"abcde");
				unknowns.push(u);
			}
			for wire in [0u64, 1, 5, 3, 4, 6, 7] {
				let mut u = varint(((field as u64) << 3) | wire);
				u.extend_from_slice(&[0xff, 0xff, 0xff, 0xff, 0xff, 0xff, 0xff, 0xff, 0xff, 0x01]);
				unknowns.push(u);
			}
		}
		for u in &unknowns {
			for at_end in [false, true] {
				let put = |body: &[u8]| -> Vec<u8> { if at_end { [body, u.as_slice()].concat() } else { [u.as_slice(), body].concat() } };
				// in a value, a feature, a layer, the tile
				let layer_of = |val: &[u8], feat: &[u8], extra: &[u8]| -> Vec<u8> { let mut l = msg(1, b"a"); l.extend(msg(2, feat)); l.extend(msg(3, b"k")); l.extend(msg(4, val)); l.extend_from_slice(&[0x28, 0x80, 0x20, 0x78, 0x02]); l.extend_from_slice(extra); l };
				f(&msg(3, &layer_of(&put(&value), &feature, &[])));
				f(&msg(3, &layer_of(&value, &put(&feature), &[])));
				f(&msg(3, &if at_end { layer_of(&value, &feature, u) } else { [u.as_slice(), &layer_of(&value, &feature, &[])].concat() }));
				f(&put(&msg(3, &layer_of(&value, &feature, &[]))));
			}
		}
	}
	let odd = vec![layer("a", &["k"], vec![s("v")], vec![feat(Some(1), &[0, 0, 0], 1, point(1, 1))])];
	f(&mvt::encode_tile(&odd));
	let oob = vec![layer("a", &["k"], vec![s("v")], vec![feat(Some(1), &[5, 9], 1, point(1, 1))])];
	f(&mvt::encode_tile(&oob));
	let badgeom = vec![layer("a", &[], vec![], vec![feat(None, &[], 1, vec![9]), feat(None, &[], 2, vec![9, 2, 2, 0xffff_fff2]), feat(None, &[], 3, vec![9, 0, 0, 15]), feat(None, &[], 3, vec![15]), feat(None, &[], 2, vec![(u32::MAX << 3) | 1, 1, 1])])];
	f(&mvt::encode_tile(&badgeom));
	// well-framed tiles whose geometry commands announce far more repetitions than parameters follow (command
	// integer = count << 3 | id), for every command id and counts 2^3 .. 2^28, at the start and after a valid prefix
	for id in [1u32, 2, 7, 0, 3] {
		for k in (3..=28u32).chain([29]) {
			let count = if k == 29 { (1u32 << 29) - 1 } else { 1u32 << k };
			let cmd = (count << 3) | id;
			for geom in [vec![cmd, 2, 2], vec![9, 2, 2, cmd, 2, 2], vec![9, 2, 2, 18, 2, 2, 2, 2, cmd], vec![9, 2, 2, 10, 4, 4, cmd, 2, 2, 15]] {
				for gtype in [1u64, 2, 3] {
					f(&mvt::encode_tile(&[layer("a", &[], vec![], vec![feat(None, &[], gtype, geom.clone())])]));
				}
			}
		}
	}
	// coordinate deltas that use the full 64 bits of a varint: running sums at the edge of the integer range
	for steps in [vec![(i64::MAX, 0), (i64::MAX, 0)], vec![(0, i64::MAX), (0, i64::MAX)], vec![(i64::MIN, 0), (-1, 0)], vec![(0, i64::MIN), (0, -1)], vec![(i64::MAX, i64::MAX), (1, 1)], vec![(i64::MIN, i64::MIN), (i64::MIN, i64::MIN)], vec![(i64::MAX, i64::MIN)]] {
		for gtype in [1u64, 2, 3] {
			f(&mvt::encode_tile_wide_deltas(gtype, &steps));
		}
	}
	// huge extent / version / tag indices / ids in a well-framed tile
	for big in [u32::MAX, 1 << 31, 1 << 24] {
		let mut l = layer("a", &["k"], vec![s("v")], vec![feat(Some(u64::MAX), &[big, big], 1, point(1, 1))]);
		l.extent = Some(big);
		l.version = big;
		f(&mvt::encode_tile(&[l]));
	}
	// length prefixes announcing far more than the input holds
	for field in [0x1au8, 0x0a, 0x12, 0x22] {
		for len in [&[0xff, 0xff, 0xff, 0xff, 0x0f][..], &[0xff, 0xff, 0xff, 0xff, 0xff, 0xff, 0xff, 0x7f], &[0xff, 0xff, 0xff, 0xff, 0xff, 0xff, 0xff, 0xff, 0xff, 0x01], &[0x80, 0x80, 0x80, 0x80, 0x80, 0x80, 0x80, 0x80, 0x80, 0x80, 0x01]] {
			let mut v = vec![field];
			v.extend_from_slice(len);
			v.extend_from_slice(b"abc");
			f(&v);
			// nested inside a layer
			let mut inner = v.clone();
			let mut outer = vec![0x1au8, inner.len() as u8];
			outer.append(&mut inner);
			f(&outer);
		}
	}
}

pub fn for_each_case(entry: &str, thorough: bool, f: &mut dyn FnMut(&[u8])) {
	match entry {
		"json" => {
			all_strings(&["[", "]", "{", "}", "\"", "\\", ",", ":", "1", "-", "e", "n", "u", "\u{e9}", "\u{1F600}"], if thorough { 6 } else { 5 }, f);
			multibyte_offsets(&[("", " "), ("[", "1,"), ("\"", "a"), ("{\"", "k"), ("[", " ")], &["x", "}", "\\u00zz\"", ":", "tru", "1e", "\"", "", "\\", "\\u00"], f);
			multibyte_long(&[("", " "), ("[", "1,"), ("\"", "a"), ("{\"k\":\"", "a")], &["x", "}", "\"", ""], f);
			for k in 0..=12u32 {
				let n = 1usize << k;
				f(format!("{}{}", "[".repeat(n), "]".repeat(n)).as_bytes());
				f("[".repeat(n).as_bytes());
				f(format!("{}1{}", "{\"a\":".repeat(n), "}".repeat(n)).as_bytes());
			}
			text_mutations(&["{\"a\":[1,-2.5e3,true,null,\"x\\u00e9\\n\"],\"b\":{}}".to_string()], &["\"", "\\", "{", "[", "\u{e9}", "\u{1F600}", "\\u", "e", "-"], f);
			for s in ["\"\\u000\u{e9}\"", "\"\\u00\u{e9}\"", "\"\\ud800\"", "\"\\udc00\\ud800\"", "\"\\uD834\\uDD1E\"", "1e999", "-", "1.", ".5", "+1", "0x10", "\u{feff}1", "nul", "truee", "[1,]", "{\"a\"}", "{\"a\":}", "\"\u{0}\""] {
				f(s.as_bytes());
			}
		}
		"json_blob" => {
			// bytes that are not UTF-8 at the start, inside a string, as a cut multi-byte character, behind a BOM
			for b in [&b"\xff"[..], b"[\"\xc3\"]", b"{\"a\":\"\xf0\x9f\"}", b"\xef\xbb\xbf[]", b"[1,2,\xfe]", b"\xc3", b"\"\xed\xa0\x80\"", b"[1]", b"", b"nul", b"{\"k\":[1,{\"x\":null}]}"] {
				f(b);
			}
			for_each_case("tilejson_blob", thorough, f);
		}
		"vpl_file" => {
			for t in [
				"from_debug format=pbf",
				"from_container filename=\"plain.vpl\" | filter_zoom max=3",
				// a pipeline file that reads itself, directly, through another file, inside a source list
				"from_container filename=\"case.vpl\"",
				"from_container filename=\"other.vpl\"",
				"from_container filename=\"case.vpl\" | filter_zoom min=1",
				"from_overlayed [ from_debug format=pbf, from_container filename=\"case.vpl\" ]",
				"from_overlayed [ from_container filename=\"other.vpl\", from_container filename=\"plain.vpl\" ]",
				"from_vectortiles_merged [ from_container filename=\"other.vpl\", from_debug format=pbf ]",
				"from_container filename=\"./case.vpl\"",
				"from_container filename=\"missing.vpl\"",
				"from_container filename=\"\"",
				"from_container filename=\".\"",
			] {
				f(t.as_bytes());
			}
			for b in [&b"\xff"[..], b"from_debug format=\"\xc3\"", b"\xef\xbb\xbffrom_debug format=pbf", b"from_debug format=pbf \xf0\x9f"] {
				f(b);
			}
		}
		"versatiles_http" => {
			// header ranges (metadata, block index) at the edges of 64 bits, served by a web server
			let tiles = &small_sets()[1];
			let base = codec::vt_encode(tiles, 0x10, 0, META, VtLayout::plain());
			f(&base);
			for pos in [34usize, 42, 50, 58] {
				for v in [u64::MAX, u64::MAX - 1, 1u64 << 63, u64::MAX / 2, base.len() as u64, base.len() as u64 + 1, 0] {
					let mut m = base.clone();
					m[pos..pos + 8].copy_from_slice(&v.to_be_bytes());
					f(&m);
				}
			}
			f(&base[..66.min(base.len())]);
			f(&[]);
		}
		"pmtiles_http" => {
			for seed in pm_seeds() {
				f(&seed);
				// the eight (offset, length) fields of the header
				for pos in (8usize..72).step_by(8) {
					for v in [u64::MAX, u64::MAX - 1, 1u64 << 63, seed.len() as u64, seed.len() as u64 + 1, 0] {
						let mut m = seed.clone();
						m[pos..pos + 8].copy_from_slice(&v.to_le_bytes());
						f(&m);
					}
				}
				f(&seed[..127.min(seed.len())]);
			}
			f(&[]);
		}
		"tilejson_str" => {
			let docs: Vec<String> = crate::checks::c17::documents_for_c19();
			text_mutations(&docs, &["\"", "\\", "[", "{", "-", "9", "\u{e9}", "null", "1e999"], f);
			multibyte_long(&[("{\"attribution\":\"", "a"), ("{\"name\":\"x\",\"bounds\":[", "1,")], &["\"", "\"}", "", "]}"], f);
			for s in ["{\"bounds\":[1,2,3]}", "{\"bounds\":[\"a\",2,3,4]}", "{\"bounds\":[200,0,300,10]}", "{\"center\":[1,2]}", "{\"center\":[1,2,300]}", "{\"minzoom\":-1}", "{\"minzoom\":256}", "{\"minzoom\":1.5}", "{\"vector_layers\":{}}", "{\"vector_layers\":[1]}", "{\"vector_layers\":[{\"id\":1}]}", "{\"vector_layers\":[{\"id\":\"a\",\"fields\":[]}]}", "{\"vector_layers\":[{\"id\":\"a\",\"fields\":{\"k\":1}}]}", "{\"vector_layers\":[{\"id\":\"a\",\"minzoom\":\"x\"}]}", "[]", "1", "\"x\"", "{\"tiles\":\"x\"}", "{\"tilejson\":3}"] {
				f(s.as_bytes());
			}
		}
		"tilejson_blob" => {
			for d in crate::checks::c17::documents_for_c19() {
				let b = d.as_bytes();
				for i in 0..b.len() {
					f(&b[..i]);
					for v in [0xffu8, 0x80, 0xc3, 0xf0, 0x00] {
						let mut m = b.to_vec();
						m[i] = v;
						f(&m);
					}
				}
			}
			multibyte_long(&[("{\"attribution\":\"", "a")], &["\"", "\"}", ""], f);
			f(&[0xff, 0xfe]);
			f(&[]);
		}
		"csv" => {
			all_strings(&["a", ",", "\"", "\n", "\r", "\u{e9}", "\u{1F600}", "1"], if thorough { 7 } else { 6 }, f);
			multibyte_offsets(&[("", "a"), ("\"", "a"), ("a,", "b"), ("\"a\"", "")], &["\"b", "\"", "\n\"", ",\"x", ""], f);
			multibyte_long(&[("", "a"), ("\"", "a"), ("a,", "b")], &["\"b", "\"", ""], f);
		}
		"csv_file" => {
			// cells made of digits outside ASCII (Arabic-Indic, fullwidth, Devanagari) in every number shape
			for d in ["\u{661}", "\u{ff11}", "\u{967}"] {
				for shape in ["{d}", "-{d}", "{d}.{d}", ".{d}", "-.{d}", "{d}{d}.{d}", "1{d}", "{d}.5", "1.{d}"] {
					let cell = shape.replace("{d}", d);
					f(format!("data_id,v\nx,{cell}\n").as_bytes());
					f(format!("data_id,v\n{cell},1\n").as_bytes());
				}
			}
			for s in ["", "\n", "data_id\n", "data_id,v\n", "data_id,v\nx\n", "data_id,v\nx,1,2\n", "data_id,v\n\"x\"y,1\n", "v\n1\n", "data_id,v\nx,99999999999999999999999\n", "data_id,v\nx,-99999999999999999999999\n", "data_id,v\nx,1.5e\n", "data_id,v\nx,.5\n", "data_id,v\nx,-\n", "data_id,data_id\nx,y\n", "\"data_id\n", "data_id,v\n\u{e9},\u{1F600}\n", "data_id,v\r\nx,1\r\n", ",\n,\n", "data_id,v\nx,18446744073709551616\n", "data_id,v\nx,-9223372036854775809\n", "data_id,v\nx,00000000000000000000000000001\n"] {
				f(s.as_bytes());
			}
			all_strings(&["a", ",", "\"", "\n", "9", "-", "."], if thorough { 6 } else { 5 }, f);
		}
		"vpl" => {
			all_strings(&["a", "1", "k", "=", "\"", "\\", "[", "]", ",", "|", " ", "\u{e9}", "\u{1F600}"], if thorough { 6 } else { 5 }, f);
			multibyte_offsets(&[("", " "), ("a k=\"", "x"), ("a [", " "), ("a k=[", "1,")], &["=", "]", "\"", "|", "\\q", "", "[", "\u{e9}"], f);
			multibyte_long(&[("a k=\"", "x"), ("a [", " "), ("a k=[", "1,")], &["=", "]", "\"", ""], f);
			for k in 0..=12u32 {
				let n = 1usize << k;
				f(format!("{}a{}", "a [".repeat(n), "]".repeat(n)).as_bytes());
				f("a [".repeat(n).as_bytes());
				f(format!("a k=[{}]", "1,".repeat(n)).as_bytes());
				f(format!("a{}", " | a".repeat(n)).as_bytes());
			}
		}
		"vpl_op" => {
			let seeds: Vec<String> = vec![
				"from_container filename=\"mem:0\" | filter_zoom min=1 max=3 | filter_bbox bbox=[-10,-10,10,10]".into(),
				"from_overlayed [ from_container filename=\"mem:0\", from_container filename=\"mem:1\" | filter_zoom max=2 ]".into(),
				"from_vectortiles_merged [ from_container filename=\"mem:0\", from_debug format=pbf ]".into(),
				"from_container filename=\"mem:0\" | vectortiles_update_properties data_source_path=\"d.csv\" layer_name=\"a\" id_field_tiles=\"k\" id_field_data=\"data_id\" replace_properties=true".into(),
				"from_debug format=png fast=true".into(),
			];
			text_mutations(&seeds, &["\"", "[", "]", "|", "=", ",", "9", "-", ".", "nan", "inf", "e", " "], f);
			for b in ["[200,0,300,10]", "[10,0,5,1]", "[0,0,0,0]", "[-180,-90,180,90]", "[nan,nan,nan,nan]", "[inf,0,1,1]", "[1e400,0,1,1]", "[-0,-0,0,0]", "[180,90,180,90]", "[0,85.06,1,90]", "[1,2,3]", "[]", "x"] {
				f(format!("from_container filename=\"mem:0\" | filter_bbox bbox={b}").as_bytes());
				f(format!("from_debug format=pbf | filter_bbox bbox={b}").as_bytes());
			}
			for z in ["0", "31", "32", "255", "256", "-1", "1e1", "99999999999999999999", "", "\" \""] {
				f(format!("from_container filename=\"mem:0\" | filter_zoom min={z}").as_bytes());
				f(format!("from_debug format=pbf | filter_zoom max={z} min={z}").as_bytes());
			}
			for fm in ["pbf", "png", "jpg", "webp", "avif", "svg", "bin", "json", "geojson", "PBF", ".png", "", "x"] {
				f(format!("from_debug format={fm}").as_bytes());
			}
		}
		"mvt" => {
			let cat = crate::checks::c11::catalogue();
			for (i, (_, t)) in cat.iter().enumerate() {
				let raw = mvt::encode_tile(t);
				// the catalogue also holds tiles of 100 KB and more (thousands of layers); byte mutations are for the small ones
				if raw.len() > 4096 {
					continue;
				}
				if raw.len() <= 160 || thorough || i % 4 == 0 {
					byte_mutations(&raw, thorough && raw.len() <= 80, f);
				}
			}
			mvt_inner(f);
			let a = mvt::encode_tile(&cat[1].1);
			let b = mvt::encode_tile(&cat[4].1);
			splices(&a, &b, if thorough { 1 } else { 3 }, f);
		}
		"versatiles" => {
			for s in vt_seeds() {
				byte_mutations(&s, thorough && s.len() <= 400, f);
			}
			vt_inner(f);
			let seeds = vt_seeds();
			splices(&seeds[3], &seeds[4], if thorough { 2 } else { 7 }, f);
		}
		"versatiles_file" => {
			// header / length-field mutations through a real file (read_range allocates the announced length)
			let s = &vt_seeds()[3];
			for pos in 14..66 {
				for v in [0u8, 1, 0x7f, 0x80, 0xff] {
					let mut m = s.clone();
					m[pos] = v;
					f(&m);
				}
			}
			for i in (0..s.len()).step_by(if thorough { 1 } else { 5 }) {
				f(&s[..i]);
			}
			for fill in [0xffu8, 0x7f, 0x40] {
				for (a, b) in [(34usize, 42usize), (42, 50), (50, 58), (58, 66), (34, 66)] {
					let mut m = s.clone();
					for x in &mut m[a..b] {
						*x = fill;
					}
					f(&m);
				}
			}
		}
		"pmtiles" => {
			for s in pm_seeds() {
				byte_mutations(&s, false, f);
			}
			pm_inner(f);
			let seeds = pm_seeds();
			splices(&seeds[2], &seeds[3], if thorough { 3 } else { 11 }, f);
		}
		"pmtiles_file" => {
			let s = &pm_seeds()[2];
			for pos in 7..127 {
				for v in [0u8, 1, 0x7f, 0x80, 0xff] {
					let mut m = s.clone();
					m[pos] = v;
					f(&m);
				}
			}
			for i in (0..s.len()).step_by(if thorough { 1 } else { 5 }) {
				f(&s[..i]);
			}
			for fill in [0xffu8, 0x7f, 0x40] {
				for k in 0..8usize {
					let mut m = s.clone();
					for x in &mut m[8 + 8 * k..16 + 8 * k] {
						*x = fill;
					}
					f(&m);
				}
			}
		}
		"tar" => {
			let members: Vec<(String, Vec<u8>)> = vec![("tiles.json".into(), META.to_vec()), ("./3/1/2.png".into(), b"aaaa".to_vec()), ("9/255/256.png".into(), b"bb".to_vec())];
			let base = codec::tar_write(&members, codec::TarLayout { dot_prefix: false, dir_entries: false, gnu: false, reversed: false, meta_last: false });
			// header fields of the first two members + truncations at block granularity
			for hdr in [0usize, 1024] {
				for pos in (0..512).step_by(if thorough { 1 } else { 3 }) {
					for v in [0u8, b'/', b'.', 0xff, b'9', b' '] {
						let mut m = base.clone();
						m[hdr + pos] = v;
						// keep the checksum valid so that the member is not skipped as corrupt
						for b in &mut m[hdr + 148..hdr + 156] {
							*b = b' ';
						}
						let sum: u32 = m[hdr..hdr + 512].iter().map(|b| *b as u32).sum();
						m[hdr + 148..hdr + 156].copy_from_slice(format!("{sum:06o}\0 ").as_bytes());
						f(&m);
					}
				}
			}
			for i in (0..base.len()).step_by(64) {
				f(&base[..i]);
			}
			// odd member names
			for name in ["/", "//", ".", "./", "..", "a", "1/2", "1/2/3", "1/2/3.png", "x/2/3.png", "1/x/3.png", "1/2/x.png", "256/1/1.png", "1/4294967296/1.png", "1/1/4294967296.png", "1/2/3.png.gz", "1/2/3.gz", "1/2/.png", "\u{e9}/1/1.png", "1/2/3.png/", "./././1/2/3.png", "1//2/3.png", "tiles.json.gz", "tiles.json.br", "meta.json", "1/2/3.PNG", "1/2/3.jpeg"] {
				let m: Vec<(String, Vec<u8>)> = vec![(name.to_string(), b"data".to_vec()), ("3/1/2.png".into(), b"aaaa".to_vec())];
				for gnu in [false, true] {
					f(&codec::tar_write(&m, codec::TarLayout { dot_prefix: false, dir_entries: false, gnu, reversed: false, meta_last: false }));
				}
			}
			// member names with a multi-byte character at every byte offset relative to the end of the name (whatever
			// a reader cuts off a name - extension, compression suffix, a fixed-size tail - is cut at a byte offset)
			for m in ["\u{e9}", "\u{20ac}", "\u{1F600}"] {
				for p in 0..=16usize {
					for suffix in ["", ".png", ".txt", ".png.gz", "0123456789.png", "01234567.br"] {
						let name = format!("{}{m}{suffix}", "a".repeat(p));
						for path in [format!("3/1/{name}"), format!("3/{name}/2.png"), format!("{name}/1/2.png")] {
							let mm: Vec<(String, Vec<u8>)> = vec![(path, b"data".to_vec()), ("3/1/2.png".into(), b"aaaa".to_vec())];
							f(&codec::tar_write(&mm, codec::TarLayout { dot_prefix: false, dir_entries: false, gnu: false, reversed: false, meta_last: false }));
						}
					}
				}
			}
			// a non-UTF-8 member name
			let mut raw = codec::tar_write(&[("3/1/2.png".to_string(), b"aaaa".to_vec())], codec::TarLayout { dot_prefix: false, dir_entries: false, gnu: false, reversed: false, meta_last: false });
			raw[0] = 0xff;
			raw[2] = 0xfe;
			for b in &mut raw[148..156] {
				*b = b' ';
			}
			let sum: u32 = raw[..512].iter().map(|b| *b as u32).sum();
			raw[148..156].copy_from_slice(format!("{sum:06o}\0 ").as_bytes());
			f(&raw);
			f(&[]);
			f(&[0u8; 1024]);
		}
		"mbtiles" => {
			// metadata variations written by the independent encoder, then raw corruptions of the file
			let tiles = &small_sets()[1];
			let dir = std::path::PathBuf::from(std::env::var("VERIF_WORKER_DIR").unwrap_or_else(|_| crate::ctx::verif_root().join(".work").to_string_lossy().to_string())).join(format!("vmb-{}", std::process::id()));
			let _ = std::fs::create_dir_all(&dir);
			let p = dir.join("seed.mbtiles");
			let mut emit_sql = |sql: &str| {
				let _ = codec::mb_encode(&p, tiles, "png", codec::MbLayout { view: false, extra_metadata: true, with_index: true, reversed_insert: false });
				if let Ok(conn) = rusqlite::Connection::open(&p) {
					let _ = conn.execute_batch(sql);
				}
				if let Ok(b) = std::fs::read(&p) {
					f(&b);
				}
			};
			for sql in [
				"",
				"UPDATE metadata SET value='xyz' WHERE name='format'",
				"UPDATE metadata SET value='PNG' WHERE name='format'",
				"DELETE FROM metadata WHERE name='format'",
				"UPDATE metadata SET value='1,2,3' WHERE name='format'; INSERT INTO metadata VALUES ('bounds','1,2,3')",
				"INSERT INTO metadata VALUES ('bounds','a,b,c,d')",
				"INSERT INTO metadata VALUES ('bounds','200,0,300,10')",
				"INSERT INTO metadata VALUES ('bounds','10,0,5,1')",
				"UPDATE metadata SET value='x' WHERE name='minzoom'",
				"UPDATE metadata SET value='300' WHERE name='maxzoom'",
				"INSERT INTO metadata VALUES ('json','{')",
				"INSERT INTO metadata VALUES ('json','[]')",
				"INSERT INTO metadata VALUES ('json','{\"vector_layers\":1}')",
				"INSERT INTO metadata VALUES ('json','{}')",
				"INSERT INTO metadata VALUES (NULL,NULL)",
				"INSERT INTO metadata VALUES ('name',NULL)",
				"DELETE FROM tiles",
				"UPDATE tiles SET zoom_level=40",
				"UPDATE tiles SET zoom_level=-1",
				"UPDATE tiles SET zoom_level=32",
				"UPDATE tiles SET zoom_level=255",
				"UPDATE tiles SET zoom_level=256",
				"UPDATE tiles SET zoom_level=2147483647",
				"UPDATE tiles SET zoom_level=4294967295",
				"UPDATE tiles SET zoom_level=9223372036854775807",
				"UPDATE tiles SET zoom_level=-9223372036854775808",
				"UPDATE tiles SET zoom_level=0; UPDATE tiles SET zoom_level=2147483647 WHERE rowid=(SELECT MAX(rowid) FROM tiles)",
				"UPDATE tiles SET zoom_level=0; UPDATE tiles SET zoom_level=-2147483648 WHERE rowid=(SELECT MAX(rowid) FROM tiles)",
				"UPDATE tiles SET zoom_level=3; UPDATE tiles SET zoom_level=200 WHERE rowid=(SELECT MAX(rowid) FROM tiles)",
				"UPDATE tiles SET tile_column=4294967295",
				"UPDATE tiles SET tile_row=4294967295",
				"UPDATE tiles SET tile_column=2147483647, tile_row=2147483647",
				"UPDATE tiles SET tile_column=9223372036854775807",
				"UPDATE tiles SET tile_row=-9223372036854775808",
				"UPDATE tiles SET tile_column=8 WHERE rowid=1",
				"UPDATE tiles SET tile_column=-5",
				"UPDATE tiles SET tile_column=4294967296",
				"UPDATE tiles SET tile_row=99999",
				"UPDATE tiles SET tile_data=NULL",
				"UPDATE tiles SET tile_data='text'",
				"UPDATE tiles SET zoom_level='abc'",
				"DROP TABLE tiles",
				"DROP TABLE metadata",
				"DROP TABLE tiles; CREATE TABLE tiles (a,b)",
			] {
				emit_sql(sql);
			}
			let _ = codec::mb_encode(&p, tiles, "png", codec::MbLayout { view: false, extra_metadata: false, with_index: false, reversed_insert: false });
			if let Ok(b) = std::fs::read(&p) {
				for i in (0..b.len().min(4096)).step_by(if thorough { 7 } else { 61 }) {
					for v in [0u8, 0xff] {
						let mut m = b.clone();
						m[i] = v;
						f(&m);
					}
				}
				for i in [0usize, 16, 100, 1024, 4095, 4096, 5000] {
					f(&b[..i.min(b.len())]);
				}
			}
			f(b"not a database");
			let _ = std::fs::remove_dir_all(&dir);
		}
		"directory" => {
			let base: Vec<(&[u8], &[u8])> = vec![(b"tiles.json", META), (b"3/1/2.png", b"aaaa"), (b"9/255/256.png", b"bb")];
			let emit = |entries: &[(&[u8], &[u8])], f: &mut dyn FnMut(&[u8])| {
				let mut v = vec![];
				for (p, c) in entries {
					v.extend_from_slice(p);
					v.push(b'\t');
					v.extend_from_slice(c);
					v.push(b'\n');
				}
				f(&v);
			};
			emit(&base, f);
			let odd: Vec<&[u8]> = vec![b"3/1/x.png", b"3/x/2.png", b"x/1/2.png", b"3/1/2", b"3/1/.png", b"3/1/2.png.gz", b"3/1/2.jpg", b"256/1/1.png", b"3/4294967296/1.png", b"3/1/4294967296.png", b"3/1/4294967295.png", b"3/4294967295/1.png", b"0/5/7.png", b"3/8/1.png", b"3/1/8.png", b"31/4294967295/4294967295.png", b"31/2147483648/0.png", b"255/1/1.png", b"32/1/1.png", b"3/1/\xff\xfe.png", b"3/\xff/2.png", b"\xff/1/2.png", b"\xff\xfe", b"3/1/2.png/x", b"3/file", b"file", b"40/1/1.png", b"3/1/", b"3/", b"meta.json", b"tiles.json.gz", b"tiles.json.br", b"metadata.json", b"3/1/2.PNG", b"3/1/-1.png", b"3/1/1e2.png", b"3/1/ 2.png"];
			for o in &odd {
				let mut e = base.clone();
				e.push((o, b"data"));
				emit(&e, f);
				emit(&[(o, b"data")], f);
			}
			for meta in [&b"{"[..], b"[]", b"\xff\xfe", b"", b"{\"bounds\":[1]}", b"{\"vector_layers\":1}", b"{\"minzoom\":\"x\"}"] {
				for name in [&b"tiles.json"[..], b"meta.json", b"metadata.json"] {
					emit(&[(name, meta), (b"3/1/2.png", b"aaaa")], f);
				}
				emit(&[(b"tiles.json.gz", meta), (b"3/1/2.png", b"aaaa")], f);
				emit(&[(b"tiles.json.br", meta), (b"3/1/2.png", b"aaaa")], f);
			}
			for m in ["\u{e9}", "\u{20ac}", "\u{1F600}"] {
				for p in 0..=16usize {
					for suffix in ["", ".png", ".txt", ".png.gz", "0123456789.png", "01234567.br"] {
						let name = format!("{}{m}{suffix}", "a".repeat(p));
						for path in [format!("3/1/{name}"), format!("3/{name}/2.png"), format!("{name}/1/2.png")] {
							emit(&[(path.as_bytes(), b"data"), (b"3/1/2.png", b"aaaa")], f);
						}
					}
				}
			}
			emit(&[], f);
		}
		_ => panic!("unknown entry {entry}"),
	}
}
