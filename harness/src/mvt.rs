//! Independent Mapbox Vector Tile 2.1 protobuf encoder / decoder (tables stay positional, all
//! seven value kinds, any geometry type number, ids up to 2^64-1). Shares nothing with the repository.

use std::collections::BTreeMap;

#[derive(Debug, Clone, PartialEq, PartialOrd)]
pub enum MVal {
	Str(String),
	F32(u32),
	F64(u64),
	/// int64 / uint64 / sint64 all denote an integer
	Int(i128),
	Bool(bool),
}

#[derive(Debug, Clone, Copy, PartialEq)]
pub enum Enc {
	Str,
	Float,
	Double,
	Int64,
	UInt64,
	SInt64,
	Bool,
}

#[derive(Debug, Clone, PartialEq)]
pub struct MFeature {
	pub id: Option<u64>,
	pub tags: Vec<u32>,
	pub gtype: u64,
	pub geom: Vec<u32>,
}

#[derive(Debug, Clone, PartialEq)]
pub struct MLayer {
	pub name: String,
	pub features: Vec<MFeature>,
	pub keys: Vec<String>,
	pub values: Vec<(Enc, MVal)>,
	pub extent: Option<u32>,
	pub version: u32,
	/// raw protobuf fields put into the layer message (extension fields: MVT 2.1 reserves the numbers >= 16)
	pub extra: Vec<u8>,
}

fn varint(out: &mut Vec<u8>, mut v: u64) {
	loop {
		let b = (v & 0x7f) as u8;
		v >>= 7;
		if v == 0 {
			out.push(b);
			return;
		}
		out.push(b | 0x80);
	}
}
fn key(out: &mut Vec<u8>, field: u32, wire: u8) {
	varint(out, ((field as u64) << 3) | wire as u64);
}
fn bytes_field(out: &mut Vec<u8>, field: u32, data: &[u8]) {
	key(out, field, 2);
	varint(out, data.len() as u64);
	out.extend_from_slice(data);
}
fn zigzag(v: i64) -> u64 {
	((v << 1) ^ (v >> 63)) as u64
}

pub fn encode_value(enc: Enc, v: &MVal) -> Vec<u8> {
	let mut o = vec![];
	match (enc, v) {
		(Enc::Str, MVal::Str(s)) => bytes_field(&mut o, 1, s.as_bytes()),
		(Enc::Float, MVal::F32(b)) => {
			key(&mut o, 2, 5);
			o.extend(b.to_le_bytes());
		}
		(Enc::Double, MVal::F64(b)) => {
			key(&mut o, 3, 1);
			o.extend(b.to_le_bytes());
		}
		(Enc::Int64, MVal::Int(i)) => {
			key(&mut o, 4, 0);
			varint(&mut o, *i as i64 as u64);
		}
		(Enc::UInt64, MVal::Int(i)) => {
			key(&mut o, 5, 0);
			varint(&mut o, *i as u64);
		}
		(Enc::SInt64, MVal::Int(i)) => {
			key(&mut o, 6, 0);
			varint(&mut o, zigzag(*i as i64));
		}
		(Enc::Bool, MVal::Bool(b)) => {
			key(&mut o, 7, 0);
			varint(&mut o, *b as u64);
		}
		_ => panic!("encoding {enc:?} does not fit value {v:?}"),
	}
	o
}

pub fn encode_feature(f: &MFeature) -> Vec<u8> {
	let mut o = vec![];
	if let Some(id) = f.id {
		key(&mut o, 1, 0);
		varint(&mut o, id);
	}
	if !f.tags.is_empty() {
		let mut p = vec![];
		for t in &f.tags {
			varint(&mut p, *t as u64);
		}
		bytes_field(&mut o, 2, &p);
	}
	key(&mut o, 3, 0);
	varint(&mut o, f.gtype);
	let mut g = vec![];
	for c in &f.geom {
		varint(&mut g, *c as u64);
	}
	bytes_field(&mut o, 4, &g);
	o
}

pub fn encode_layer(l: &MLayer) -> Vec<u8> {
	let mut o = vec![];
	// field order as written by common encoders: version, name, features, keys, values, extent
	key(&mut o, 15, 0);
	varint(&mut o, l.version as u64);
	bytes_field(&mut o, 1, l.name.as_bytes());
	for f in &l.features {
		bytes_field(&mut o, 2, &encode_feature(f));
	}
	for k in &l.keys {
		bytes_field(&mut o, 3, k.as_bytes());
	}
	for (e, v) in &l.values {
		bytes_field(&mut o, 4, &encode_value(*e, v));
	}
	if let Some(e) = l.extent {
		key(&mut o, 5, 0);
		varint(&mut o, e as u64);
	}
	o.extend_from_slice(&l.extra);
	o
}

/// extension fields of all four wire types a decoder has to skip: 16 varint, 100 bytes, 17 fixed32, 18 fixed64
pub fn extension_fields() -> Vec<u8> {
	let mut o = vec![];
	key(&mut o, 16, 0);
	varint(&mut o, 300);
	bytes_field(&mut o, 100, b"vendor data");
	key(&mut o, 17, 5);
	o.extend_from_slice(&[1, 2, 3, 4]);
	key(&mut o, 18, 1);
	o.extend_from_slice(&[1, 2, 3, 4, 5, 6, 7, 8]);
	o
}

pub fn encode_tile(layers: &[MLayer]) -> Vec<u8> {
	let mut o = vec![];
	for l in layers {
		bytes_field(&mut o, 3, &encode_layer(l));
	}
	o
}

// ---------------------------------------------------------------------------------------------

struct Rd<'a> {
	b: &'a [u8],
	p: usize,
}
impl<'a> Rd<'a> {
	fn varint(&mut self) -> Result<u64, String> {
		let mut v = 0u64;
		let mut s = 0;
		loop {
			let x = *self.b.get(self.p).ok_or("varint beyond end")?;
			self.p += 1;
			v |= ((x & 0x7f) as u64) << s;
			if x & 0x80 == 0 {
				return Ok(v);
			}
			s += 7;
			if s > 63 {
				return Err("varint too long".into());
			}
		}
	}
	fn bytes(&mut self) -> Result<&'a [u8], String> {
		let n = self.varint()? as usize;
		if self.p + n > self.b.len() {
			return Err("length-delimited field beyond end".into());
		}
		let s = &self.b[self.p..self.p + n];
		self.p += n;
		Ok(s)
	}
	fn fixed(&mut self, n: usize) -> Result<&'a [u8], String> {
		if self.p + n > self.b.len() {
			return Err("fixed field beyond end".into());
		}
		let s = &self.b[self.p..self.p + n];
		self.p += n;
		Ok(s)
	}
	fn skip(&mut self, wire: u64) -> Result<(), String> {
		match wire {
			0 => self.varint().map(|_| ()),
			1 => self.fixed(8).map(|_| ()),
			2 => self.bytes().map(|_| ()),
			5 => self.fixed(4).map(|_| ()),
			w => Err(format!("unsupported wire type {w}")),
		}
	}
	fn more(&self) -> bool {
		self.p < self.b.len()
	}
}

#[derive(Debug, Clone, PartialEq)]
pub struct DFeature {
	pub id: Option<u64>,
	pub gtype: u64,
	pub geom: Vec<u8>,
	pub props: BTreeMap<String, MVal>,
	pub bad_tags: bool,
}

#[derive(Debug, Clone, PartialEq)]
pub struct DLayer {
	pub name: String,
	pub extent: u32,
	pub version: u32,
	pub features: Vec<DFeature>,
	pub n_keys: usize,
	pub n_values: usize,
	/// the layer message carries the version field (field 15; the schema declares it required)
	pub has_version: bool,
}

fn decode_value(b: &[u8]) -> Result<MVal, String> {
	let mut r = Rd { b, p: 0 };
	let mut v = None;
	while r.more() {
		let k = r.varint()?;
		match (k >> 3, k & 7) {
			(1, 2) => v = Some(MVal::Str(String::from_utf8(r.bytes()?.to_vec()).map_err(|e| e.to_string())?)),
			(2, 5) => v = Some(MVal::F32(u32::from_le_bytes(r.fixed(4)?.try_into().unwrap()))),
			(3, 1) => v = Some(MVal::F64(u64::from_le_bytes(r.fixed(8)?.try_into().unwrap()))),
			(4, 0) => v = Some(MVal::Int(r.varint()? as i64 as i128)),
			(5, 0) => v = Some(MVal::Int(r.varint()? as i128)),
			(6, 0) => {
				let z = r.varint()?;
				v = Some(MVal::Int((((z >> 1) as i64) ^ -((z & 1) as i64)) as i128));
			}
			(7, 0) => v = Some(MVal::Bool(r.varint()? != 0)),
			(_, w) => r.skip(w)?,
		}
	}
	v.ok_or_else(|| "value message without a value".to_string())
}

pub fn decode_tile(bytes: &[u8]) -> Result<Vec<DLayer>, String> {
	let mut r = Rd { b: bytes, p: 0 };
	let mut layers = vec![];
	while r.more() {
		let k = r.varint()?;
		if (k >> 3, k & 7) != (3, 2) {
			r.skip(k & 7)?;
			continue;
		}
		let mut lr = Rd { b: r.bytes()?, p: 0 };
		let (mut name, mut extent, mut version) = (None, 4096u32, 1u32);
		let mut has_version = false;
		let mut keys: Vec<String> = vec![];
		let mut values: Vec<MVal> = vec![];
		let mut raw_features: Vec<(Option<u64>, Vec<u32>, u64, Vec<u8>)> = vec![];
		while lr.more() {
			let k = lr.varint()?;
			match (k >> 3, k & 7) {
				(1, 2) => name = Some(String::from_utf8(lr.bytes()?.to_vec()).map_err(|e| e.to_string())?),
				(2, 2) => {
					let mut fr = Rd { b: lr.bytes()?, p: 0 };
					let (mut id, mut tags, mut gtype, mut geom) = (None, vec![], 0u64, vec![]);
					while fr.more() {
						let k = fr.varint()?;
						match (k >> 3, k & 7) {
							(1, 0) => id = Some(fr.varint()?),
							(2, 2) => {
								let mut tr = Rd { b: fr.bytes()?, p: 0 };
								while tr.more() {
									tags.push(tr.varint()? as u32);
								}
							}
							(2, 0) => tags.push(fr.varint()? as u32),
							(3, 0) => gtype = fr.varint()?,
							(4, 2) => geom = fr.bytes()?.to_vec(),
							(_, w) => fr.skip(w)?,
						}
					}
					raw_features.push((id, tags, gtype, geom));
				}
				(3, 2) => keys.push(String::from_utf8(lr.bytes()?.to_vec()).map_err(|e| e.to_string())?),
				(4, 2) => values.push(decode_value(lr.bytes()?)?),
				(5, 0) => extent = lr.varint()? as u32,
				(15, 0) => {
					version = lr.varint()? as u32;
					has_version = true;
				}
				(_, w) => lr.skip(w)?,
			}
		}
		let mut features = vec![];
		for (id, tags, gtype, geom) in raw_features {
			let mut props = BTreeMap::new();
			let mut bad = tags.len() % 2 != 0;
			for pair in tags.chunks(2) {
				if pair.len() == 2 {
					match (keys.get(pair[0] as usize), values.get(pair[1] as usize)) {
						(Some(k), Some(v)) => {
							props.insert(k.clone(), v.clone());
						}
						_ => bad = true,
					}
				}
			}
			features.push(DFeature { id, gtype, geom, props, bad_tags: bad });
		}
		layers.push(DLayer { name: name.ok_or("layer without name")?, extent, version, features, n_keys: keys.len(), n_values: values.len(), has_version });
	}
	Ok(layers)
}

// ---------------------------------------------------------------------------------------------
// builders used by the catalogues

pub fn point(x: i32, y: i32) -> Vec<u32> {
	let zz = |v: i32| ((v << 1) ^ (v >> 31)) as u32;
	vec![9, zz(x), zz(y)]
}
pub fn line(pts: &[(i32, i32)]) -> Vec<u32> {
	let zz = |v: i32| ((v << 1) ^ (v >> 31)) as u32;
	let mut g = vec![9, zz(pts[0].0), zz(pts[0].1), ((pts.len() as u32 - 1) << 3) | 2];
	for w in pts.windows(2) {
		g.push(zz(w[1].0 - w[0].0));
		g.push(zz(w[1].1 - w[0].1));
	}
	g
}

pub fn s(v: &str) -> (Enc, MVal) {
	(Enc::Str, MVal::Str(v.to_string()))
}
pub fn layer(name: &str, keys: &[&str], values: Vec<(Enc, MVal)>, features: Vec<MFeature>) -> MLayer {
	MLayer { name: name.to_string(), features, keys: keys.iter().map(|k| k.to_string()).collect(), values, extent: Some(4096), version: 2, extra: vec![] }
}
pub fn feat(id: Option<u64>, tags: &[u32], gtype: u64, geom: Vec<u32>) -> MFeature {
	MFeature { id, tags: tags.to_vec(), gtype, geom }
}

/// Bounded-exhaustive family of small layers: key tables {[], [k], [k,n], [n,k], [k,k]} x value tables
/// {[], [v], [v,5], [5,v]} x feature lists {none; one feature with id none/1 and every list of <= 2 tag
/// pairs with distinct key names; two features (ids 1, 2) with <= 1 tag pair each}.
pub fn small_layers(name: &str) -> Vec<MLayer> {
	let key_tabs: Vec<Vec<&str>> = vec![vec![], vec!["k"], vec!["k", "n"], vec!["n", "k"], vec!["k", "k"]];
	let u5 = (Enc::UInt64, MVal::Int(5));
	let val_tabs: Vec<Vec<(Enc, MVal)>> = vec![vec![], vec![s("v")], vec![s("v"), u5.clone()], vec![u5.clone(), s("v")]];
	let mut out = vec![];
	for kt in &key_tabs {
		for vt in &val_tabs {
			let pairs: Vec<(u32, u32)> = (0..kt.len() as u32).flat_map(|k| (0..vt.len() as u32).map(move |v| (k, v))).collect();
			let mut tag_lists: Vec<Vec<u32>> = vec![vec![]];
			for &(k, v) in &pairs {
				tag_lists.push(vec![k, v]);
			}
			let single = tag_lists.clone();
			for &(k1, v1) in &pairs {
				for &(k2, v2) in &pairs {
					if kt[k1 as usize] != kt[k2 as usize] {
						tag_lists.push(vec![k1, v1, k2, v2]);
					}
				}
			}
			let mk = |features: Vec<MFeature>| layer(name, kt, vt.clone(), features);
			out.push(mk(vec![]));
			for t in &tag_lists {
				for id in [None, Some(1u64)] {
					out.push(mk(vec![feat(id, t, 1, point(1, 1))]));
				}
			}
			for t1 in &single {
				for t2 in &single {
					out.push(mk(vec![feat(Some(1), t1, 1, point(1, 1)), feat(Some(2), t2, 2, line(&[(0, 0), (3, 3)]))]));
				}
			}
		}
	}
	out
}

/// A tile whose single feature spells its packed repeated fields in the other forms protobuf allows: the tag list
/// split into two packed chunks (parsers must concatenate them), or as unpacked varints (parsers must accept both).
pub fn encode_tile_alternative_packing(unpacked: bool) -> Vec<u8> {
	let mut f = vec![];
	key(&mut f, 1, 0);
	varint(&mut f, 1);
	if unpacked {
		for t in [0u64, 0, 1, 1] {
			key(&mut f, 2, 0);
			varint(&mut f, t);
		}
	} else {
		bytes_field(&mut f, 2, &[0, 0]);
		bytes_field(&mut f, 2, &[1, 1]);
	}
	key(&mut f, 3, 0);
	varint(&mut f, 1);
	bytes_field(&mut f, 4, &[9, 2, 2]);
	let mut l = vec![];
	key(&mut l, 15, 0);
	varint(&mut l, 2);
	bytes_field(&mut l, 1, b"a");
	bytes_field(&mut l, 2, &f);
	bytes_field(&mut l, 3, b"k");
	bytes_field(&mut l, 3, b"n");
	bytes_field(&mut l, 4, &encode_value(Enc::Str, &MVal::Str("v".into())));
	bytes_field(&mut l, 4, &encode_value(Enc::UInt64, &MVal::Int(5)));
	let mut t = vec![];
	bytes_field(&mut t, 3, &l);
	t
}

/// Absolute coordinates of a geometry command stream (packed varints as stored in the feature): one entry per
/// MoveTo / LineTo vertex `(command, x, y)` and `(7, 0, 0)` per ClosePath. `None` if the bytes are not a
/// well-formed command stream (geometries of unknown type need not be one).
pub fn geom_abs(geom: &[u8]) -> Option<Vec<(u8, i64, i64)>> {
	let mut vals: Vec<u32> = vec![];
	let mut p = 0usize;
	while p < geom.len() {
		let (mut v, mut shift) = (0u64, 0u32);
		loop {
			let b = *geom.get(p)?;
			p += 1;
			v |= ((b & 0x7f) as u64) << shift;
			if b & 0x80 == 0 {
				break;
			}
			shift += 7;
			if shift > 63 {
				return None;
			}
		}
		vals.push(u32::try_from(v).ok()?);
	}
	let unzig = |v: u32| ((v >> 1) as i64) ^ -((v & 1) as i64);
	let (mut x, mut y) = (0i64, 0i64);
	let mut out = vec![];
	let mut i = 0usize;
	while i < vals.len() {
		let (cmd, count) = ((vals[i] & 7) as u8, (vals[i] >> 3) as usize);
		i += 1;
		match cmd {
			1 | 2 => {
				for _ in 0..count {
					let dx = unzig(*vals.get(i)?);
					let dy = unzig(*vals.get(i + 1)?);
					i += 2;
					x += dx;
					y += dy;
					out.push((cmd, x, y));
				}
			}
			7 => out.extend(std::iter::repeat((7u8, 0i64, 0i64)).take(count)),
			_ => return None,
		}
	}
	Some(out)
}

/// A tile with one layer "a" holding one feature of type `gtype` whose geometry is a sequence of MoveTo(1) commands
/// with the given 64-bit deltas (zigzag varints of up to 10 bytes, which the packed-uint32 schema does not forbid on
/// the wire).
pub fn encode_tile_wide_deltas(gtype: u64, steps: &[(i64, i64)]) -> Vec<u8> {
	let mut geom = vec![];
	for (dx, dy) in steps {
		varint(&mut geom, 9);
		varint(&mut geom, zigzag(*dx));
		varint(&mut geom, zigzag(*dy));
	}
	let mut feature = vec![];
	key(&mut feature, 3, 0);
	varint(&mut feature, gtype);
	bytes_field(&mut feature, 4, &geom);
	let mut l = vec![];
	key(&mut l, 15, 0);
	varint(&mut l, 2);
	bytes_field(&mut l, 1, b"a");
	bytes_field(&mut l, 2, &feature);
	let mut o = vec![];
	bytes_field(&mut o, 3, &l);
	o
}
