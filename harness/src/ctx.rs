//! Per-run context: counters, evidence writer, violation / known-finding plumbing.
//!
//! Exit codes: 0 = property held on everything explored (known findings are printed as
//! `KNOWN-FINDING:` lines), 1 = at least one violation not listed in known_findings.json,
//! 2 = machinery error (never a verdict).

use serde_json::{json, Map, Value};
use std::collections::{BTreeMap, BTreeSet};
use std::path::PathBuf;
use std::sync::atomic::{AtomicU64, Ordering};
use std::sync::Mutex;
use std::time::Instant;

#[derive(Clone, Copy, PartialEq, Eq, Debug)]
pub enum Tier {
	Quick,
	Thorough,
}

impl Tier {
	pub fn as_str(&self) -> &'static str {
		match self {
			Tier::Quick => "quick",
			Tier::Thorough => "thorough",
		}
	}
	pub fn pick<T>(&self, quick: T, thorough: T) -> T {
		match self {
			Tier::Quick => quick,
			Tier::Thorough => thorough,
		}
	}
}

pub fn verif_root() -> PathBuf {
	std::env::var_os("VERIF_ROOT").map(PathBuf::from).unwrap_or_else(|| PathBuf::from("/verif"))
}

#[derive(Debug, Clone)]
pub struct Violation {
	pub signature: String,
	pub description: String,
	pub replay: Value,
	pub count: u64,
}

pub struct Ctx {
	pub id: String,
	pub tier: Tier,
	pub seed: u64,
	pub level: &'static str,
	start: Instant,
	pub evaluations: AtomicU64,
	pub states: AtomicU64,
	pub transitions: AtomicU64,
	pub traces: AtomicU64,
	nontrivial: Mutex<BTreeSet<u64>>,
	nontrivial_extra: AtomicU64,
	samples: Mutex<Vec<Value>>,
	outcomes: Mutex<BTreeMap<String, u64>>,
	extras: Mutex<Map<String, Value>>,
	assumptions: Mutex<Vec<String>>,
	rule: Mutex<String>,
	exhaustive: Mutex<Option<bool>>,
	caps: Mutex<Vec<String>>,
	violations: Mutex<BTreeMap<String, Violation>>,
	pub replay_mode: bool,
	/// replay by re-enumeration: only violations whose case equals this value are recorded
	pub replay_filter: Option<Value>,
}

impl Ctx {
	pub fn new(id: &str, tier: Tier, level: &'static str) -> Ctx {
		let seed = std::env::var("VERIF_SEED").ok().and_then(|s| s.parse::<u64>().ok()).unwrap_or(0);
		Ctx {
			id: id.to_string(),
			tier,
			seed,
			level,
			start: Instant::now(),
			evaluations: AtomicU64::new(0),
			states: AtomicU64::new(0),
			transitions: AtomicU64::new(0),
			traces: AtomicU64::new(0),
			nontrivial: Mutex::new(BTreeSet::new()),
			nontrivial_extra: AtomicU64::new(0),
			samples: Mutex::new(Vec::new()),
			outcomes: Mutex::new(BTreeMap::new()),
			extras: Mutex::new(Map::new()),
			assumptions: Mutex::new(Vec::new()),
			rule: Mutex::new(String::new()),
			exhaustive: Mutex::new(None),
			caps: Mutex::new(Vec::new()),
			violations: Mutex::new(BTreeMap::new()),
			replay_mode: false,
			replay_filter: None,
		}
	}

	pub fn eval(&self) {
		self.evaluations.fetch_add(1, Ordering::Relaxed);
	}
	pub fn evals(&self, n: u64) {
		self.evaluations.fetch_add(n, Ordering::Relaxed);
	}
	pub fn state(&self, n: u64) {
		self.states.fetch_add(n, Ordering::Relaxed);
	}
	pub fn transition(&self, n: u64) {
		self.transitions.fetch_add(n, Ordering::Relaxed);
	}
	pub fn trace(&self, n: u64) {
		self.traces.fetch_add(n, Ordering::Relaxed);
	}
	/// Record a distinct non-trivial case by a hash of its canonical form.
	pub fn nontrivial(&self, key: u64) {
		self.nontrivial.lock().unwrap().insert(key);
	}
	/// Record `n` non-trivial cases that are distinct by construction (enumerated without repetition).
	pub fn nontrivial_distinct(&self, n: u64) {
		self.nontrivial_extra.fetch_add(n, Ordering::Relaxed);
	}
	pub fn sample(&self, v: Value) {
		let mut s = self.samples.lock().unwrap();
		if s.len() < 12 {
			s.push(v);
		}
	}
	pub fn outcome(&self, k: &str) {
		*self.outcomes.lock().unwrap().entry(k.to_string()).or_insert(0) += 1;
	}
	pub fn outcome_n(&self, k: &str, n: u64) {
		*self.outcomes.lock().unwrap().entry(k.to_string()).or_insert(0) += n;
	}
	pub fn extra(&self, k: &str, v: Value) {
		self.extras.lock().unwrap().insert(k.to_string(), v);
	}
	pub fn extra_add(&self, k: &str, n: u64) {
		let mut e = self.extras.lock().unwrap();
		let cur = e.get(k).and_then(|v| v.as_u64()).unwrap_or(0);
		e.insert(k.to_string(), json!(cur + n));
	}
	pub fn assume(&self, s: &str) {
		self.assumptions.lock().unwrap().push(s.to_string());
	}
	pub fn rule(&self, s: &str) {
		let mut r = self.rule.lock().unwrap();
		if !r.is_empty() {
			r.push_str(" || ");
		}
		r.push_str(s);
	}
	pub fn exhaustive(&self, b: bool) {
		let mut e = self.exhaustive.lock().unwrap();
		*e = Some(e.unwrap_or(true) && b);
	}
	pub fn cap(&self, s: &str) {
		self.caps.lock().unwrap().push(s.to_string());
		self.exhaustive(false);
	}

	/// Report a violation. `signature` identifies the defect (oracle clause + site), so that many
	/// failing cases with one cause collapse into one line; the first reported case (enumeration
	/// is simplest-first) is kept as the replayable artefact.
	pub fn violation(&self, signature: &str, description: &str, replay: Value) {
		if let Some(f) = &self.replay_filter {
			if *f != replay {
				return;
			}
		}
		let mut v = self.violations.lock().unwrap();
		match v.get_mut(signature) {
			Some(e) => e.count += 1,
			None => {
				v.insert(
					signature.to_string(),
					Violation { signature: signature.to_string(), description: description.to_string(), replay, count: 1 },
				);
			}
		}
	}

	pub fn violation_count(&self) -> usize {
		self.violations.lock().unwrap().len()
	}

	pub fn violations_snapshot(&self) -> Vec<Violation> {
		self.violations.lock().unwrap().values().cloned().collect()
	}

	pub fn elapsed(&self) -> f64 {
		self.start.elapsed().as_secs_f64()
	}

	/// Writes evidence, prints verdict lines, returns the process exit code.
	pub fn finish(&self) -> i32 {
		let known = crate::findings::load_known(&self.id);
		let viols = self.violations.lock().unwrap();
		let mut unknown = 0usize;
		let mut known_hit = Vec::new();
		let mut viol_list = Vec::new();
		for (sig, v) in viols.iter() {
			if let Some(k) = known.iter().find(|k| crate::findings::sig_matches(&k.signature, sig)) {
				println!("KNOWN-FINDING: property={} {} [signature: {}; {} failing case(s) this run]", self.id, k.what, sig, v.count);
				known_hit.push(json!({"signature": sig, "cases": v.count, "first_case": v.replay}));
			} else {
				unknown += 1;
				let path = if self.replay_mode {
					PathBuf::from("(replay)")
				} else {
					crate::findings::write_replay(&self.id, self.tier.as_str(), sig, &v.description, &v.replay)
				};
				println!("VIOLATION property={} replay={}", self.id, path.display());
				println!("  signature: {sig}");
				println!("  {} ({} failing case(s))", v.description, v.count);
				viol_list.push(json!({"signature": sig, "cases": v.count, "description": v.description}));
			}
		}
		drop(viols);
		if !self.replay_mode {
			self.write_evidence(unknown, &known_hit, &viol_list);
		}
		let wall = self.elapsed();
		println!(
			"[{}] tier={} evaluations={} states={} transitions={} traces_validated={} distinct_nontrivial={} violations={} known_findings={} wall={:.1}s",
			self.id,
			self.tier.as_str(),
			self.evaluations.load(Ordering::Relaxed),
			self.states.load(Ordering::Relaxed),
			self.transitions.load(Ordering::Relaxed),
			self.traces.load(Ordering::Relaxed),
			self.nontrivial_count(),
			unknown,
			known_hit.len(),
			wall
		);
		if unknown > 0 {
			1
		} else {
			0
		}
	}

	fn nontrivial_count(&self) -> u64 {
		self.nontrivial.lock().unwrap().len() as u64 + self.nontrivial_extra.load(Ordering::Relaxed)
	}

	fn write_evidence(&self, unknown: usize, known_hit: &[Value], viol_list: &[Value]) {
		let mut cov = Map::new();
		cov.insert("evaluations".into(), json!(self.evaluations.load(Ordering::Relaxed)));
		cov.insert("distinct_nontrivial".into(), json!(self.nontrivial_count()));
		cov.insert("rule".into(), json!(self.rule.lock().unwrap().clone()));
		cov.insert("samples".into(), Value::Array(self.samples.lock().unwrap().clone()));
		cov.insert("states".into(), json!(self.states.load(Ordering::Relaxed)));
		cov.insert("transitions".into(), json!(self.transitions.load(Ordering::Relaxed)));
		cov.insert("traces_validated_against_impl".into(), json!(self.traces.load(Ordering::Relaxed)));
		cov.insert("exhaustive".into(), json!(self.exhaustive.lock().unwrap().unwrap_or(false)));
		cov.insert("caps_hit".into(), json!(self.caps.lock().unwrap().clone()));
		cov.insert("outcomes".into(), json!(self.outcomes.lock().unwrap().clone()));
		cov.insert("known_findings_reproduced".into(), Value::Array(known_hit.to_vec()));
		cov.insert("violation_signatures".into(), Value::Array(viol_list.to_vec()));
		for (k, v) in self.extras.lock().unwrap().iter() {
			cov.insert(k.clone(), v.clone());
		}
		let ev = json!({
			"property_id": self.id,
			"tier": self.tier.as_str(),
			"seed": self.seed,
			"level": self.level,
			"coverage": Value::Object(cov),
			"assumptions": self.assumptions.lock().unwrap().clone(),
			"wall_s": self.elapsed(),
			"violations": unknown,
		});
		let dir = verif_root().join("evidence");
		let _ = std::fs::create_dir_all(&dir);
		let path = dir.join(format!("{}.json", self.id));
		let tmp = dir.join(format!(".{}.json.tmp", self.id));
		std::fs::write(&tmp, serde_json::to_string_pretty(&ev).unwrap()).expect("write evidence");
		std::fs::rename(&tmp, &path).expect("rename evidence");
	}
}

/// FNV-1a, for distinct_nontrivial keys (deterministic across runs, unlike std's RandomState).
pub fn fnv(bytes: &[u8]) -> u64 {
	let mut h: u64 = 0xcbf29ce484222325;
	for b in bytes {
		h ^= *b as u64;
		h = h.wrapping_mul(0x100000001b3);
	}
	h
}

pub fn fnv_str(s: &str) -> u64 {
	fnv(s.as_bytes())
}
