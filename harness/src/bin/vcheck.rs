use std::sync::Arc;
use vcommon::{checks, ctx::Tier, findings, par, Ctx};

fn usage() -> ! {
	eprintln!("usage: vcheck <Cxx> [--tier quick|thorough] [--replay <file>]");
	std::process::exit(2)
}

fn run_check(id: &str, ctx: Arc<Ctx>) {
	match id {
		"C02" => checks::c02::run(ctx),
		"C03" => checks::c03::run(ctx),
		"C04" => checks::c04::run(ctx),
		"C05" => checks::http::c05(ctx),
		"C06" => checks::c06::run(ctx),
		"C07" => checks::http::c07(ctx),
		"C08" => checks::c08::run(ctx),
		"C09" => checks::c09::run(ctx),
		"C10" => checks::c10::run(ctx),
		"C11" => checks::c11::run(ctx),
		"C16" => checks::c16::run(ctx),
		_ => {
			eprintln!("MACHINERY: no re-enumeration replay for {id}");
			std::process::exit(2)
		}
	}
}

fn main() {
	let args: Vec<String> = std::env::args().collect();
	if args.len() < 2 {
		usage();
	}
	let id = args[1].clone();
	let mut tier = match std::env::var("VERIF_TIER").as_deref() {
		Ok("thorough") => Tier::Thorough,
		_ => Tier::Quick,
	};
	let mut replay: Option<String> = None;
	let mut i = 2;
	while i < args.len() {
		match args[i].as_str() {
			"--tier" => {
				i += 1;
				tier = match args.get(i).map(|s| s.as_str()) {
					Some("quick") => Tier::Quick,
					Some("thorough") => Tier::Thorough,
					_ => usage(),
				};
			}
			"--replay" => {
				i += 1;
				replay = Some(args.get(i).cloned().unwrap_or_else(|| usage()));
			}
			_ => usage(),
		}
		i += 1;
	}
	par::install_quiet_panic_hook();
	let level = match id.as_str() {
		"C12" => "fault_enumeration",
		_ => "model_checking",
	};
	let case = replay.as_deref().map(findings::read_replay);
	let dedicated = matches!(id.as_str(), "C01" | "C12" | "C14" | "C15" | "C17" | "C18" | "C19" | "C20");
	if let (Some(path), false) = (replay.as_deref(), dedicated) {
		// replay by re-enumeration: the check is run twice, filtered to the recorded case; both runs must agree
		let rtier = if findings::read_replay_tier(path) == "thorough" { Tier::Thorough } else { Tier::Quick };
		let mut sigs = vec![];
		let mut last = None;
		for _ in 0..2 {
			let mut c = Ctx::new(&id, rtier, level);
			c.replay_mode = true;
			c.replay_filter = case.clone();
			let c = Arc::new(c);
			run_check(&id, c.clone());
			sigs.push(c.violations_snapshot().iter().map(|v| v.signature.clone()).collect::<Vec<_>>());
			last = Some(c);
		}
		if sigs[0] != sigs[1] {
			eprintln!("MACHINERY: replay observations differ between two runs");
			std::process::exit(2);
		}
		println!("  case: {}", case.as_ref().unwrap());
		std::process::exit(last.unwrap().finish());
	}
	let mut ctx = Ctx::new(&id, tier, level);
	ctx.replay_mode = replay.is_some();
	let ctx = Arc::new(ctx);
	let result = std::panic::catch_unwind(std::panic::AssertUnwindSafe(|| match (id.as_str(), &case) {
		("C16", None) => checks::c16::run(ctx.clone()),
		("C16", Some(c)) => checks::c16::replay(ctx.clone(), c),
		("C18", None) => checks::c18::run(ctx.clone()),
		("C18", Some(c)) => checks::c18::replay(ctx.clone(), c),
		("C19", None) => checks::c19::run(ctx.clone()),
		("C19", Some(c)) => checks::c19::replay(ctx.clone(), c),
		("C20", None) => checks::c20::run(ctx.clone()),
		("C20", Some(c)) => checks::c20::replay(ctx.clone(), c),
		("C01", None) => checks::c01::run(ctx.clone()),
		("C01", Some(c)) => checks::c01::replay(ctx.clone(), c),
		("C02", None) => checks::c02::run(ctx.clone()),
		("C02", Some(c)) => checks::c02::replay(ctx.clone(), c),
		("C03", None) => checks::c03::run(ctx.clone()),
		("C03", Some(c)) => checks::c03::replay(ctx.clone(), c),
		("C04", None) => checks::c04::run(ctx.clone()),
		("C04", Some(c)) => checks::c04::replay(ctx.clone(), c),
		("C05", None) => checks::http::c05(ctx.clone()),
		("C07", None) => checks::http::c07(ctx.clone()),
		("C05", Some(c)) | ("C07", Some(c)) => println!("  case: {c}\n  re-run ./check {id} quick (deterministic) to reproduce"),
		("C17", None) => checks::c17::run(ctx.clone()),
		("C17", Some(c)) => checks::c17::replay(ctx.clone(), c),
		("C06", None) => checks::c06::run(ctx.clone()),
		("C06", Some(c)) => checks::c06::replay(ctx.clone(), c),
		("C08", None) => checks::c08::run(ctx.clone()),
		("C08", Some(c)) => checks::c08::replay(ctx.clone(), c),
		("C09", None) => checks::c09::run(ctx.clone()),
		("C09", Some(c)) => checks::c09::replay(ctx.clone(), c),
		("C10", None) => checks::c10::run(ctx.clone()),
		("C10", Some(c)) => checks::c10::replay(ctx.clone(), c),
		("C11", None) => checks::c11::run(ctx.clone()),
		("C11", Some(c)) => checks::c11::replay(ctx.clone(), c),
		("C12", None) => checks::c12::run(ctx.clone()),
		("C12", Some(c)) => checks::c12::replay(ctx.clone(), c),
		("C14", None) => checks::c14::run(ctx.clone()),
		("C14", Some(c)) => checks::c14::replay(ctx.clone(), c),
		("C15", None) => checks::c15::run(ctx.clone()),
		("C15", Some(c)) => checks::c15::replay(ctx.clone(), c),
		_ => {
			eprintln!("MACHINERY: unknown property id {id}");
			std::process::exit(2)
		}
	}));
	if result.is_err() {
		eprintln!("MACHINERY: check engine panicked: {}", par::take_global_panic().unwrap_or_default());
		std::process::exit(2);
	}
	std::process::exit(ctx.finish());
}
