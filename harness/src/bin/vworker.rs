//! C19 worker: enumerates the cases of one decoding entry point and runs its shard of them, each
//! under catch_unwind, announcing the case index before it runs so that an abort / stack overflow /
//! refused allocation can be attributed by the parent. The global allocator refuses any single
//! request above 64 MiB + 1024 x input length ("allocates out of proportion").

use std::alloc::{GlobalAlloc, Layout, System};
use std::io::Write;
use std::os::unix::fs::FileExt;
use std::sync::atomic::{AtomicUsize, Ordering};
use vcommon::c19cases::{self, Env};

struct Guard;
static LIMIT: AtomicUsize = AtomicUsize::new(usize::MAX);

unsafe impl GlobalAlloc for Guard {
	unsafe fn alloc(&self, l: Layout) -> *mut u8 {
		if l.size() > LIMIT.load(Ordering::Relaxed) {
			return std::ptr::null_mut();
		}
		System.alloc(l)
	}
	unsafe fn dealloc(&self, p: *mut u8, l: Layout) {
		System.dealloc(p, l)
	}
	unsafe fn realloc(&self, p: *mut u8, l: Layout, new_size: usize) -> *mut u8 {
		if new_size > LIMIT.load(Ordering::Relaxed) {
			return std::ptr::null_mut();
		}
		System.realloc(p, l, new_size)
	}
	unsafe fn alloc_zeroed(&self, l: Layout) -> *mut u8 {
		if l.size() > LIMIT.load(Ordering::Relaxed) {
			return std::ptr::null_mut();
		}
		System.alloc_zeroed(l)
	}
}

#[global_allocator]
static A: Guard = Guard;

fn main() {
	let args: Vec<String> = std::env::args().collect();
	if args.len() < 6 {
		eprintln!("usage: vworker <entry> <shard> <nshards> <quick|thorough> <from> [--only <index>]");
		std::process::exit(2);
	}
	let entry = args[1].clone();
	let shard: u64 = args[2].parse().unwrap();
	let nshards: u64 = args[3].parse().unwrap();
	let thorough = args[4] == "thorough";
	let from: u64 = args[5].parse().unwrap();
	let only: Option<u64> = args.iter().position(|a| a == "--only").and_then(|i| args.get(i + 1)).and_then(|s| s.parse().ok());
	let announce = std::env::var("VERIF_ANNOUNCE").ok().map(|p| std::fs::OpenOptions::new().create(true).write(true).truncate(false).open(p).expect("announce file"));
	vcommon::par::install_quiet_panic_hook();
	let work = std::path::PathBuf::from(std::env::var("VERIF_WORKER_DIR").unwrap_or_else(|_| "/tmp".into()));
	// cases run on a thread with the usual 8 MiB main-thread stack
	let h = std::thread::Builder::new()
		.stack_size(8 * 1024 * 1024)
		.spawn(move || {
			let env = Env::new(&work, shard);
			let out = std::io::stdout();
			let (mut n_ok, mut n_err, mut n_panic, mut n_run) = (0u64, 0u64, 0u64, 0u64);
			let mut idx = 0u64;
			c19cases::for_each_case(&entry, thorough, &mut |bytes: &[u8]| {
				let i = idx;
				idx += 1;
				if let Some(o) = only {
					if i != o {
						return;
					}
				} else if i % nshards != shard || i < from {
					return;
				}
				if let Some(f) = &announce {
					let _ = f.write_all_at(&i.to_le_bytes(), 0);
				}
				LIMIT.store(64 * 1024 * 1024 + 1024 * bytes.len(), Ordering::Relaxed);
				let r = std::panic::catch_unwind(std::panic::AssertUnwindSafe(|| c19cases::run_case(&entry, bytes, &env)));
				LIMIT.store(usize::MAX, Ordering::Relaxed);
				n_run += 1;
				match r {
					Ok(true) => n_ok += 1,
					Ok(false) => n_err += 1,
					Err(_) => {
						n_panic += 1;
						let p = vcommon::par::take_last_panic();
						let hex: String = bytes.iter().take(96).map(|b| format!("{b:02x}")).collect();
						let mut o = out.lock();
						let _ = writeln!(o, "P\t{i}\t{}\t{}\t{hex}\t{}", vcommon::par::panic_site(&p), p.replace(['\t', '\n'], " ").chars().take(200).collect::<String>(), bytes.len());
					}
				}
				if only.is_some() {
					let mut o = out.lock();
					let _ = writeln!(o, "R\t{i}\t{}\t{}", match &r { Ok(true) => "value", Ok(false) => "error", Err(_) => "panic" }, String::from_utf8_lossy(&bytes[..bytes.len().min(200)]).replace(['\t', '\n'], " "));
				}
			});
			let mut o = out.lock();
			let _ = writeln!(o, "D\t{idx}\t{n_run}\t{n_ok}\t{n_err}\t{n_panic}");
		})
		.unwrap();
	if h.join().is_err() {
		std::process::exit(3);
	}
}
