//! C13 — concurrent reads from one opened container return what sequential reads return.
//!
//! E-sched: a stateless, CHESS-style, preemption-bounded explorer for real OS threads. This binary
//! defines the C symbols `read`, `pread64`, `lseek64` itself; the statically linked Rust standard
//! library binds to them, so every file-offset-relevant system call that the code under test
//! issues on the container's file is a scheduling point owned by the explorer. Exactly one
//! controlled thread runs at a time; the schedule is the sequence of choices among the enabled
//! threads in canonical order (running thread first, then ascending ids). Async code is driven by
//! a hand-written poll loop; a `Pending` poll parks the thread until its waker fires.

use serde_json::{json, Value};
use std::cell::Cell;
use std::collections::BTreeMap;
use std::future::Future;
use std::os::raw::{c_int, c_void};
use std::path::{Path, PathBuf};
use std::pin::Pin;
use std::sync::atomic::{AtomicBool, AtomicU64, Ordering};
use std::sync::{Arc, Condvar, Mutex};
use std::task::{Context, Poll, Wake, Waker};
use vcommon::ctx::{fnv_str, verif_root, Tier};
use vcommon::memsource::{MemSource, TileMap};
use vcommon::{findings, par, Ctx};
use versatiles_container::{PMTilesReader, PMTilesWriter, TarTilesReader, TarTilesWriter, TilesWriterTrait, VersaTilesReader, VersaTilesWriter};
use versatiles_core::io::{DataReaderFile, DataReaderTrait};
use versatiles_core::types::{ByteRange, TileCompression, TileCoord3, TileFormat, TilesReaderTrait};

// ------------------------------------------------------------------------------------------
// interposed system-call wrappers

static TARGET_DEV: AtomicU64 = AtomicU64::new(u64::MAX);
static TARGET_INO: AtomicU64 = AtomicU64::new(u64::MAX);
static ACTIVE: AtomicBool = AtomicBool::new(false);
static INTERCEPTED: AtomicU64 = AtomicU64::new(0);

thread_local! {
	static WID: Cell<Option<usize>> = const { Cell::new(None) };
}

#[derive(Clone, Copy, Debug, PartialEq, Eq)]
enum Kind {
	Start,
	Read,
	Pread,
	Lseek,
	Woken,
}

fn is_target(fd: c_int) -> bool {
	unsafe {
		let mut st: libc::stat = std::mem::zeroed();
		if libc::fstat(fd, &mut st) != 0 {
			return false;
		}
		st.st_dev as u64 == TARGET_DEV.load(Ordering::Relaxed) && st.st_ino as u64 == TARGET_INO.load(Ordering::Relaxed)
	}
}

fn point(fd: c_int, kind: Kind) {
	if !ACTIVE.load(Ordering::Relaxed) {
		return;
	}
	let Ok(Some(id)) = WID.try_with(|w| w.get()) else { return };
	if !is_target(fd) {
		return;
	}
	INTERCEPTED.fetch_add(1, Ordering::Relaxed);
	SCHED.arrive(id, kind);
}

#[no_mangle]
pub unsafe extern "C" fn read(fd: c_int, buf: *mut c_void, count: usize) -> isize {
	point(fd, Kind::Read);
	libc::syscall(libc::SYS_read, fd, buf, count) as isize
}
#[no_mangle]
pub unsafe extern "C" fn pread64(fd: c_int, buf: *mut c_void, count: usize, offset: i64) -> isize {
	point(fd, Kind::Pread);
	libc::syscall(libc::SYS_pread64, fd, buf, count, offset) as isize
}
#[no_mangle]
pub unsafe extern "C" fn pread(fd: c_int, buf: *mut c_void, count: usize, offset: i64) -> isize {
	point(fd, Kind::Pread);
	libc::syscall(libc::SYS_pread64, fd, buf, count, offset) as isize
}
#[no_mangle]
pub unsafe extern "C" fn lseek64(fd: c_int, offset: i64, whence: c_int) -> i64 {
	point(fd, Kind::Lseek);
	libc::syscall(libc::SYS_lseek, fd, offset, whence)
}
#[no_mangle]
pub unsafe extern "C" fn lseek(fd: c_int, offset: i64, whence: c_int) -> i64 {
	point(fd, Kind::Lseek);
	libc::syscall(libc::SYS_lseek, fd, offset, whence)
}

// ------------------------------------------------------------------------------------------
// scheduler

#[derive(Clone, Copy, Debug, PartialEq)]
enum TS {
	NotStarted,
	Running,
	AtPoint(Kind),
	Blocked,
	Finished,
}

struct Inner {
	ts: Vec<TS>,
	pending_wake: Vec<bool>,
	grant: Option<usize>,
}

struct Sched {
	mu: Mutex<Inner>,
	cv: Condvar,
}

static SCHED: Sched = Sched { mu: Mutex::new(Inner { ts: Vec::new(), pending_wake: Vec::new(), grant: None }), cv: Condvar::new() };

impl Sched {
	fn reset(&self, n: usize) {
		let mut g = self.mu.lock().unwrap();
		g.ts = vec![TS::NotStarted; n];
		g.pending_wake = vec![false; n];
		g.grant = None;
	}
	fn wait_grant(&self, mut g: std::sync::MutexGuard<'_, Inner>, id: usize) {
		self.cv.notify_all();
		while g.grant != Some(id) {
			g = self.cv.wait(g).unwrap();
		}
		g.grant = None;
		g.ts[id] = TS::Running;
		g.pending_wake[id] = false;
	}
	fn arrive(&self, id: usize, kind: Kind) {
		let mut g = self.mu.lock().unwrap();
		g.ts[id] = TS::AtPoint(kind);
		self.wait_grant(g, id);
	}
	fn blocked(&self, id: usize) {
		let mut g = self.mu.lock().unwrap();
		g.ts[id] = TS::Blocked;
		self.wait_grant(g, id);
	}
	fn wake(&self, id: usize) {
		let mut g = self.mu.lock().unwrap();
		if id < g.pending_wake.len() {
			g.pending_wake[id] = true;
		}
		self.cv.notify_all();
	}
	fn finish(&self, id: usize) {
		let mut g = self.mu.lock().unwrap();
		g.ts[id] = TS::Finished;
		self.cv.notify_all();
	}
}

struct SchedWaker(usize);
impl Wake for SchedWaker {
	fn wake(self: Arc<Self>) {
		SCHED.wake(self.0);
	}
}

/// Poll loop for async code under the explorer: Pending = park until the waker fired and the
/// controller picks this thread again.
fn block_on_sched<F: Future>(id: usize, fut: F) -> F::Output {
	let waker = Waker::from(Arc::new(SchedWaker(id)));
	let mut cx = Context::from_waker(&waker);
	let mut fut = std::pin::pin!(fut);
	loop {
		match Pin::as_mut(&mut fut).poll(&mut cx) {
			Poll::Ready(v) => return v,
			Poll::Pending => SCHED.blocked(id),
		}
	}
}

#[derive(Clone, Debug)]
struct Step {
	enabled: Vec<(usize, String)>,
	chosen: usize,
	running_still_enabled: bool,
}

struct Execution {
	steps: Vec<Step>,
	obs: Vec<Vec<String>>, // per thread, per call: observation
	deadlock: bool,
}

type Body = Box<dyn FnOnce(usize) -> Vec<String> + Send>;

const HORIZON: usize = 256;
const PATTERN_LEN: u64 = 5 * 1024 * 1024 + 123;

fn run_schedule(bodies: Vec<Body>, prefix: &[usize]) -> Execution {
	let n = bodies.len();
	SCHED.reset(n);
	ACTIVE.store(true, Ordering::SeqCst);
	let results: Arc<Mutex<Vec<Vec<String>>>> = Arc::new(Mutex::new(vec![vec![]; n]));
	let mut handles = vec![];
	for (i, body) in bodies.into_iter().enumerate() {
		let results = results.clone();
		handles.push(std::thread::spawn(move || {
			WID.with(|w| w.set(Some(i)));
			SCHED.arrive(i, Kind::Start);
			let r = std::panic::catch_unwind(std::panic::AssertUnwindSafe(|| body(i)));
			let r = match r {
				Ok(v) => v,
				Err(_) => vec![format!("PANIC {}", par::take_last_panic())],
			};
			results.lock().unwrap()[i] = r;
			WID.with(|w| w.set(None));
			SCHED.finish(i);
		}));
	}
	let mut steps: Vec<Step> = vec![];
	let mut last: Option<usize> = None;
	let mut deadlock = false;
	loop {
		let mut g = SCHED.mu.lock().unwrap();
		while g.ts.iter().any(|t| matches!(t, TS::Running | TS::NotStarted)) || g.grant.is_some() {
			g = SCHED.cv.wait(g).unwrap();
		}
		let mut enabled: Vec<(usize, String)> = vec![];
		let is_enabled = |g: &Inner, i: usize| match g.ts[i] {
			TS::AtPoint(_) => true,
			TS::Blocked => g.pending_wake[i],
			_ => false,
		};
		let label = |g: &Inner, i: usize| match g.ts[i] {
			TS::AtPoint(k) => format!("{k:?}"),
			TS::Blocked => format!("{:?}", Kind::Woken),
			_ => String::new(),
		};
		let mut running_still_enabled = false;
		if let Some(l) = last {
			if is_enabled(&g, l) {
				enabled.push((l, label(&g, l)));
				running_still_enabled = true;
			}
		}
		for i in 0..n {
			if Some(i) != last && is_enabled(&g, i) {
				enabled.push((i, label(&g, i)));
			}
		}
		if enabled.is_empty() {
			if g.ts.iter().any(|t| *t != TS::Finished) {
				deadlock = true;
			}
			break;
		}
		let choice = if steps.len() < prefix.len() { prefix[steps.len()] } else { 0 };
		if choice >= enabled.len() {
			eprintln!("MACHINERY: schedule diverged while replaying prefix at step {} (choice {choice}, enabled {enabled:?})", steps.len());
			std::process::exit(2);
		}
		if steps.len() >= HORIZON {
			eprintln!("MACHINERY: horizon of {HORIZON} scheduling points exceeded");
			std::process::exit(2);
		}
		let tid = enabled[choice].0;
		steps.push(Step { enabled, chosen: choice, running_still_enabled });
		last = Some(tid);
		g.grant = Some(tid);
		SCHED.cv.notify_all();
	}
	if deadlock {
		// leave the stuck threads behind (they are parked forever); report
		ACTIVE.store(false, Ordering::SeqCst);
		let obs = results.lock().unwrap().clone();
		return Execution { steps, obs, deadlock };
	}
	for h in handles {
		let _ = h.join();
	}
	ACTIVE.store(false, Ordering::SeqCst);
	let obs = results.lock().unwrap().clone();
	Execution { steps, obs, deadlock }
}

struct Explore<'a> {
	make: &'a dyn Fn() -> Vec<Body>,
	bound: Option<usize>,
	schedules: u64,
	points: u64,
	max_points: usize,
	outcomes: BTreeMap<String, u64>,
	first_bad: Option<(Vec<usize>, Vec<String>, String)>,
	bad: u64,
	check: &'a dyn Fn(&Execution) -> Option<String>,
	cap: u64,
	capped: bool,
}

impl Explore<'_> {
	fn explore(&mut self, prefix: Vec<usize>) {
		if self.schedules >= self.cap {
			self.capped = true;
			return;
		}
		let x = run_schedule((self.make)(), &prefix);
		self.schedules += 1;
		self.points += x.steps.len() as u64;
		self.max_points = self.max_points.max(x.steps.len());
		let outcome = format!("{:?}{}", x.obs, if x.deadlock { " DEADLOCK" } else { "" });
		*self.outcomes.entry(outcome).or_insert(0) += 1;
		if let Some(why) = (self.check)(&x) {
			self.bad += 1;
			let choices: Vec<usize> = x.steps.iter().map(|s| s.chosen).collect();
			let readable: Vec<String> = x.steps.iter().map(|s| format!("T{}:{}", s.enabled[s.chosen].0, s.enabled[s.chosen].1)).collect();
			if self.first_bad.is_none() {
				self.first_bad = Some((choices, readable, why));
			}
		}
		let choices: Vec<usize> = x.steps.iter().map(|s| s.chosen).collect();
		let mut cost_before = vec![0usize; x.steps.len() + 1];
		for (i, s) in x.steps.iter().enumerate() {
			cost_before[i + 1] = cost_before[i] + if s.chosen != 0 && s.running_still_enabled { 1 } else { 0 };
		}
		for i in prefix.len()..x.steps.len() {
			let p = &x.steps[i];
			for alt in 1..p.enabled.len() {
				let cost = cost_before[i] + if p.running_still_enabled { 1 } else { 0 };
				if let Some(b) = self.bound {
					if cost > b {
						continue;
					}
				}
				let mut np = choices[..i].to_vec();
				np.push(alt);
				self.explore(np);
			}
		}
	}
}

// ------------------------------------------------------------------------------------------
// harness bodies

fn pattern(o: u64) -> u8 {
	((o.wrapping_mul(31) ^ (o / 251).wrapping_mul(7)) % 251) as u8
}

fn work_dir() -> PathBuf {
	let d = verif_root().join(".work").join(format!("c13-{}", std::process::id()));
	std::fs::create_dir_all(&d).unwrap();
	d
}

fn set_target(path: &Path) {
	use std::os::unix::fs::MetadataExt;
	let m = std::fs::metadata(path).unwrap();
	TARGET_DEV.store(m.dev(), Ordering::SeqCst);
	TARGET_INO.store(m.ino(), Ordering::SeqCst);
}

fn tile_payload(z: u8, x: u32, y: u32, len: usize) -> Vec<u8> {
	let tag = format!("tile z={z} x={x} y={y};");
	let mut v = tag.clone().into_bytes();
	let mut i = 0u64;
	while v.len() < len {
		v.push(pattern(i + x as u64 * 131 + y as u64 * 17 + z as u64));
		i += 1;
	}
	v
}

struct Scenario {
	name: String,
	threads: usize,
	bound: Option<usize>,
	make: Box<dyn Fn() -> Vec<Body>>,
	expected: Vec<Vec<String>>,
	target: PathBuf,
	sample: Value,
}

fn hexs(b: &[u8]) -> String {
	if b.len() <= 24 {
		b.iter().map(|x| format!("{x:02x}")).collect()
	} else {
		format!("{}..({} bytes, fnv {:016x})", b[..8].iter().map(|x| format!("{x:02x}")).collect::<String>(), b.len(), vcommon::ctx::fnv(b))
	}
}

fn read_range_scenario(dir: &Path, name: &str, calls: Vec<Vec<(u64, u64)>>, bound: Option<usize>) -> Scenario {
	let path = dir.join("pattern.bin");
	if !path.exists() {
		let data: Vec<u8> = (0..PATTERN_LEN).map(pattern).collect();
		std::fs::write(&path, data).unwrap();
	}
	let expected: Vec<Vec<String>> = calls.iter().map(|cs| cs.iter().map(|(o, l)| format!("ok {}", hexs(&(*o..*o + *l).map(pattern).collect::<Vec<u8>>()))).collect()).collect();
	let p2 = path.clone();
	let calls2 = calls.clone();
	let make = move || -> Vec<Body> {
		let reader: Arc<Box<DataReaderFile>> = Arc::new(DataReaderFile::open(&p2).unwrap());
		calls2
			.iter()
			.map(|cs| {
				let reader = reader.clone();
				let cs = cs.clone();
				Box::new(move |id: usize| {
					cs.iter()
						.map(|(o, l)| match block_on_sched(id, reader.read_range(&ByteRange::new(*o, *l))) {
							Ok(b) => format!("ok {}", hexs(b.as_slice())),
							Err(e) => format!("err {e}"),
						})
						.collect()
				}) as Body
			})
			.collect()
	};
	Scenario { name: name.to_string(), threads: calls.len(), bound, make: Box::new(make), expected, target: path, sample: json!({"scenario": name, "calls_per_thread": calls}) }
}

fn tile_scenario(dir: &Path, kind: &str, name: &str, coords: Vec<Vec<(u8, u32, u32)>>, bound: Option<usize>) -> Scenario {
	let path = dir.join(format!("tiles.{kind}"));
	if !path.exists() {
		let mut tiles = TileMap::new();
		// two 256-blocks at z=9, one tile at z=0, different sizes; (9,300,5) is missing
		for (z, x, y, len) in [(0u8, 0u32, 0u32, 40usize), (9, 255, 5, 1500), (9, 256, 5, 30), (9, 256, 6, 2000), (9, 511, 511, 64), (3, 1, 2, 999)] {
			tiles.insert((z, x, y), tile_payload(z, x, y, len));
		}
		if kind == "pmleaf" {
			// a PMTiles archive with leaf directories (other writers use them from a few thousand tiles on;
			// the repository's writer only beyond 16 KiB of root directory): independent encoder, one leaf level, two entries per leaf
			let l = vcommon::codec::PmLayout { internal_gzip: true, run_lengths: false, share_offsets: false, leaf_levels: 1, leaf_size: 2, clustered: true, data_reversed: false };
			std::fs::write(&path, vcommon::codec::pm_encode(&tiles, 0, 1, b"{}", l)).unwrap();
		}
		let mut src = MemSource::new("mem", tiles, TileFormat::BIN, TileCompression::Uncompressed);
		let rt = vcommon::memsource::runtime(2);
		rt.block_on(async {
			match kind {
				"pmleaf" => {}
				"versatiles" => VersaTilesWriter::write_to_path(&mut src, &path).await.unwrap(),
				"pmtiles" => PMTilesWriter::write_to_path(&mut src, &path).await.unwrap(),
				"tar" => TarTilesWriter::write_to_path(&mut src, &path).await.unwrap(),
				_ => unreachable!(),
			}
		});
	}
	let open = {
		let path = path.clone();
		let kind = kind.to_string();
		move || -> Arc<Box<dyn TilesReaderTrait>> {
			let rt = tokio::runtime::Builder::new_current_thread().build().unwrap();
			Arc::new(match kind.as_str() {
				"versatiles" => rt.block_on(VersaTilesReader::open_path(&path)).unwrap().boxed(),
				"pmtiles" | "pmleaf" => rt.block_on(PMTilesReader::open_path(&path)).unwrap().boxed(),
				"tar" => TarTilesReader::open_path(&path).unwrap().boxed(),
				_ => unreachable!(),
			})
		}
	};
	// expected = the same calls issued alone on a fresh reader
	let fmt = |r: anyhow::Result<Option<versatiles_core::types::Blob>>| match r {
		Ok(Some(b)) => format!("ok {}", hexs(b.as_slice())),
		Ok(None) => "none".to_string(),
		Err(e) => format!("err {e}"),
	};
	let expected: Vec<Vec<String>> = coords
		.iter()
		.map(|cs| {
			let reader = open();
			let rt = tokio::runtime::Builder::new_current_thread().build().unwrap();
			cs.iter().map(|(z, x, y)| fmt(rt.block_on(reader.get_tile_data(&TileCoord3 { x: *x, y: *y, z: *z })))).collect()
		})
		.collect();
	// vacuity guard: what a call returns alone must be the payload that was written (or none for absent tiles)
	for (cs, es) in coords.iter().zip(expected.iter()) {
		for ((z, x, y), e) in cs.iter().zip(es.iter()) {
			let stored = [(0u8, 0u32, 0u32, 40usize), (9, 255, 5, 1500), (9, 256, 5, 30), (9, 256, 6, 2000), (9, 511, 511, 64), (3, 1, 2, 999)].iter().find(|t| (t.0, t.1, t.2) == (*z, *x, *y)).map(|t| format!("ok {}", hexs(&tile_payload(t.0, t.1, t.2, t.3)))).unwrap_or_else(|| "none".to_string());
			if *e != stored {
				eprintln!("MACHINERY: a lookup issued alone does not return the written payload for {kind} ({z},{x},{y}): {e} vs {stored} (C01's subject; the concurrency check would be vacuous)");
				std::process::exit(2);
			}
		}
	}
	let coords2 = coords.clone();
	let make = move || -> Vec<Body> {
		let reader = open();
		coords2
			.iter()
			.map(|cs| {
				let reader = reader.clone();
				let cs = cs.clone();
				Box::new(move |id: usize| {
					cs.iter()
						.map(|(z, x, y)| match block_on_sched(id, reader.get_tile_data(&TileCoord3 { x: *x, y: *y, z: *z })) {
							Ok(Some(b)) => format!("ok {}", hexs(b.as_slice())),
							Ok(None) => "none".to_string(),
							Err(e) => format!("err {e}"),
						})
						.collect()
				}) as Body
			})
			.collect()
	};
	Scenario { name: name.to_string(), threads: coords.len(), bound, make: Box::new(make), expected, target: path, sample: json!({"scenario": name, "container": kind, "lookups_per_thread": coords}) }
}

/// thread 0 streams a box of the container, the other threads issue lookups (tile bytes of the first chunk, others)
fn stream_scenario(dir: &Path, kind: &str, name: &str, bbox: (u8, u32, u32, u32, u32), coords: Vec<Vec<(u8, u32, u32)>>, bound: Option<usize>) -> Scenario {
	let base = tile_scenario(dir, kind, name, coords.clone(), bound);
	let path = base.target.clone();
	let open = {
		let path = path.clone();
		let kind = kind.to_string();
		move || -> Arc<Box<dyn TilesReaderTrait>> {
			let rt = tokio::runtime::Builder::new_current_thread().build().unwrap();
			Arc::new(match kind.as_str() {
				"versatiles" => rt.block_on(VersaTilesReader::open_path(&path)).unwrap().boxed(),
				"pmtiles" | "pmleaf" => rt.block_on(PMTilesReader::open_path(&path)).unwrap().boxed(),
				_ => TarTilesReader::open_path(&path).unwrap().boxed(),
			})
		}
	};
	let stream_obs = |items: Vec<(TileCoord3, versatiles_core::types::Blob)>| -> Vec<String> {
		let mut v: Vec<String> = items.iter().map(|(c, b)| format!("{}/{}/{} {}", c.z, c.x, c.y, hexs(b.as_slice()))).collect();
		v.sort();
		v
	};
	let tb = versatiles_core::types::TileBBox::new(bbox.0, bbox.1, bbox.2, bbox.3, bbox.4).unwrap();
	let alone = {
		let reader = open();
		let rt = tokio::runtime::Builder::new_current_thread().build().unwrap();
		stream_obs(rt.block_on(async { reader.get_bbox_tile_stream(tb.clone()).await.collect().await }))
	};
	let mut expected = vec![alone];
	expected.extend(base.expected.iter().cloned());
	let coords2 = coords.clone();
	let make = move || -> Vec<Body> {
		let reader = open();
		let mut bodies: Vec<Body> = vec![];
		{
			let reader = reader.clone();
			let tb = tb.clone();
			bodies.push(Box::new(move |id: usize| {
				let r = std::panic::catch_unwind(std::panic::AssertUnwindSafe(|| block_on_sched(id, async { reader.get_bbox_tile_stream(tb.clone()).await.collect().await })));
				match r {
					Ok(items) => {
						let mut v: Vec<String> = items.iter().map(|(c, b)| format!("{}/{}/{} {}", c.z, c.x, c.y, hexs(b.as_slice()))).collect();
						v.sort();
						v
					}
					Err(_) => vec!["stream panicked".to_string()],
				}
			}) as Body);
		}
		for cs in &coords2 {
			let reader = reader.clone();
			let cs = cs.clone();
			bodies.push(Box::new(move |id: usize| {
				cs.iter()
					.map(|(z, x, y)| match block_on_sched(id, reader.get_tile_data(&TileCoord3 { x: *x, y: *y, z: *z })) {
						Ok(Some(b)) => format!("ok {}", hexs(b.as_slice())),
						Ok(None) => "none".to_string(),
						Err(e) => format!("err {e}"),
					})
					.collect()
			}) as Body);
		}
		bodies
	};
	Scenario { name: name.to_string(), threads: coords.len() + 1, bound, make: Box::new(make), expected, target: path, sample: json!({"scenario": name, "container": kind, "stream_box": [bbox.0, bbox.1, bbox.2, bbox.3, bbox.4], "lookups_per_thread": coords}) }
}

fn scenarios(dir: &Path, tier: Tier) -> Vec<Scenario> {
	let mut v = vec![];
	// (a) raw byte-range reads: disjoint, overlapping, identical; one or two calls per thread
	v.push(read_range_scenario(dir, "read_range 2 threads disjoint", vec![vec![(0, 16)], vec![(4096, 16)]], None));
	v.push(read_range_scenario(dir, "read_range 2 threads overlapping", vec![vec![(100, 64)], vec![(130, 64)]], None));
	v.push(read_range_scenario(dir, "read_range 2 threads identical", vec![vec![(777, 20)], vec![(777, 20)]], None));
	v.push(read_range_scenario(dir, "read_range 2 threads x 2 calls", vec![vec![(0, 8), (60000, 8)], vec![(30000, 8), (8, 8)]], None));
	v.push(read_range_scenario(dir, "read_range 2 threads empty and large", vec![vec![(5, 0), (0, 40000)], vec![(65000, 536)]], None));
	// sizes on both sides of plausible internal thresholds (4 KiB page, 64 KiB, 1 MiB, 2 MiB buffers)
	v.push(read_range_scenario(dir, "read_range 2 threads 4 KiB and 64 KiB", vec![vec![(1, 4096), (8192, 4097)], vec![(65536, 65536), (100, 65537)]], None));
	v.push(read_range_scenario(dir, "read_range 2 threads 1 MiB ranges", vec![vec![(0, 1 << 20)], vec![((1 << 20) + 7, (1 << 20) + 1)]], None));
	v.push(read_range_scenario(dir, "read_range 2 threads 2 MiB+ ranges", vec![vec![(3, (2 << 20) + 5)], vec![(2 << 20, (3 << 20) + 100)]], None));
	v.push(read_range_scenario(dir, "read_range 2 threads read_all-sized and tail", vec![vec![(0, PATTERN_LEN)], vec![(PATTERN_LEN - 10, 10)]], None));
	// runs of adjacent small ranges (how a directory or an index is scanned) in different 64 KiB regions of the file,
	// and a run that continues where another thread's run ended
	v.push(read_range_scenario(dir, "read_range 2 threads x runs of adjacent ranges", vec![vec![(0, 100), (100, 100), (200, 50)], vec![(70000, 64), (70064, 64), (70128, 64)]], None));
	v.push(read_range_scenario(dir, "read_range 2 threads x runs of adjacent 4 KiB ranges", vec![vec![(4096, 4096), (8192, 4096), (12288, 4096)], vec![(200000, 4096), (204096, 4096)]], None));
	v.push(read_range_scenario(dir, "read_range 2 threads, one continues the other's run", vec![vec![(1000, 24), (1024, 24)], vec![(1048, 24), (1024, 24), (1048, 8)]], None));
	v.push(read_range_scenario(dir, "read_range 3 threads", vec![vec![(0, 16)], vec![(20000, 16)], vec![(40000, 16)]], Some(2)));
	v.push(read_range_scenario(dir, "read_range 3 threads x runs of adjacent ranges", vec![vec![(0, 32), (32, 32)], vec![(66000, 32), (66032, 32)], vec![(140000, 32), (140032, 32)]], Some(2)));
	if tier == Tier::Thorough {
		v.push(read_range_scenario(dir, "read_range 3 threads x 2 calls", vec![vec![(0, 16), (50, 16)], vec![(20000, 16), (0, 16)], vec![(40000, 16), (20000, 4)]], Some(2)));
		v.push(read_range_scenario(dir, "read_range 4 threads", vec![vec![(0, 16)], vec![(20000, 16)], vec![(40000, 16)], vec![(60000, 16)]], Some(2)));
		v.push(read_range_scenario(dir, "read_range 3 threads unbounded", vec![vec![(0, 16)], vec![(20000, 16)], vec![(40000, 16)]], None));
	}
	// (b) tile lookups on one reader instance
	for kind in ["versatiles", "pmtiles", "pmleaf", "tar"] {
		v.push(tile_scenario(dir, kind, &format!("{kind} 2 threads same block cold"), vec![vec![(9, 256, 5)], vec![(9, 256, 6)]], None));
		v.push(tile_scenario(dir, kind, &format!("{kind} 2 threads different blocks"), vec![vec![(9, 255, 5)], vec![(9, 511, 511)]], None));
		v.push(tile_scenario(dir, kind, &format!("{kind} 2 threads x 2 lookups incl. missing"), vec![vec![(9, 256, 5), (9, 300, 5)], vec![(0, 0, 0), (9, 256, 5)]], if kind == "versatiles" { Some(3) } else { None }));
		v.push(tile_scenario(dir, kind, &format!("{kind} 3 threads"), vec![vec![(9, 256, 5)], vec![(3, 1, 2)], vec![(9, 255, 5)]], Some(2)));
		// a box stream in flight together with lookups of tiles the stream reads
		v.push(stream_scenario(dir, kind, &format!("{kind} stream of a block + lookup of its first tile"), (9, 256, 0, 511, 255), vec![vec![(9, 256, 5)]], None));
		v.push(stream_scenario(dir, kind, &format!("{kind} stream of a level + two lookups"), (9, 0, 0, 511, 511), vec![vec![(9, 255, 5), (9, 256, 6)]], Some(3)));
		if tier == Tier::Thorough {
			v.push(stream_scenario(dir, kind, &format!("{kind} stream + 2 lookup threads"), (9, 0, 0, 511, 511), vec![vec![(9, 256, 5)], vec![(9, 511, 511)]], Some(2)));
			v.push(tile_scenario(dir, kind, &format!("{kind} 3 threads x 2 lookups"), vec![vec![(9, 256, 5), (0, 0, 0)], vec![(3, 1, 2), (9, 256, 6)], vec![(9, 255, 5), (9, 256, 5)]], Some(2)));
			v.push(tile_scenario(dir, kind, &format!("{kind} 3 threads bound 3"), vec![vec![(9, 256, 5)], vec![(9, 256, 6)], vec![(9, 511, 511)]], Some(3)));
			v.push(tile_scenario(dir, kind, &format!("{kind} 4 threads"), vec![vec![(9, 256, 5)], vec![(3, 1, 2)], vec![(9, 255, 5)], vec![(9, 256, 6)]], Some(2)));
			v.push(tile_scenario(dir, kind, &format!("{kind} 2 threads x 3 lookups"), vec![vec![(9, 256, 5), (9, 255, 5), (0, 0, 0)], vec![(9, 256, 6), (9, 256, 5), (9, 300, 5)]], Some(3)));
		}
	}
	v
}

fn free_running_sample(dir: &Path) -> (u64, u64) {
	// labelled sample, never decides the verdict: 16 OS threads x 300 reads, no controller
	let path = dir.join("pattern.bin");
	let reader: Arc<Box<DataReaderFile>> = Arc::new(DataReaderFile::open(&path).unwrap());
	let mism = Arc::new(AtomicU64::new(0));
	let total = Arc::new(AtomicU64::new(0));
	let mut hs = vec![];
	for t in 0..16u64 {
		let reader = reader.clone();
		let mism = mism.clone();
		let total = total.clone();
		hs.push(std::thread::spawn(move || {
			let rt = tokio::runtime::Builder::new_current_thread().build().unwrap();
			for i in 0..300u64 {
				let big = i % 50 == 7;
				let o = if big { (t * 40001) % (PATTERN_LEN - (1 << 21)) } else { (t * 4001 + i * 97) % 60000 };
				let l = if big { (1 << 20) + t } else { 1 + (i % 64) };
				let want: Vec<u8> = (o..o + l).map(pattern).collect();
				match rt.block_on(reader.read_range(&ByteRange::new(o, l))) {
					Ok(b) if b.as_slice() == want.as_slice() => {}
					_ => {
						mism.fetch_add(1, Ordering::Relaxed);
					}
				}
				total.fetch_add(1, Ordering::Relaxed);
			}
			// sequential scan: adjacent ranges of 1..4096 bytes, every thread in a region of its own
			let mut o = t * 150_001;
			for i in 0..400u64 {
				let l = [7u64, 64, 512, 4096, 1, 1000][(i % 6) as usize];
				let want: Vec<u8> = (o..o + l).map(pattern).collect();
				match rt.block_on(reader.read_range(&ByteRange::new(o, l))) {
					Ok(b) if b.as_slice() == want.as_slice() => {}
					_ => {
						mism.fetch_add(1, Ordering::Relaxed);
					}
				}
				total.fetch_add(1, Ordering::Relaxed);
				o += l;
			}
		}));
	}
	for h in hs {
		let _ = h.join();
	}
	(total.load(Ordering::Relaxed), mism.load(Ordering::Relaxed))
}

/// Labelled sample, not exhaustive: 8 uncontrolled OS threads x 300 tile lookups spread over
/// different blocks of one reader instance. A mismatch is a real witness (sound), absence of
/// mismatches proves nothing. Returns (calls, mismatches, first mismatch).
fn free_running_tile_sample(dir: &Path, kind: &str, big: bool) -> (u64, u64, Option<String>) {
	let path = if big { dir.join(format!("tiles-big.{kind}")) } else { dir.join(format!("tiles.{kind}")) };
	let coords: Vec<(u8, u32, u32, usize)> = if big {
		// 600 tiles of 300..1100 bytes over six blocks: the file spans many 64 KiB windows and (tar) hundreds of members
		(0..600u32).map(|i| (9u8, 200 + (i % 30) * 10, 3 + i / 30, 300 + (i as usize * 37) % 800)).collect()
	} else {
		vec![(0, 0, 0, 40), (9, 255, 5, 1500), (9, 256, 5, 30), (9, 256, 6, 2000), (9, 511, 511, 64), (3, 1, 2, 999)]
	};
	if big {
		let mut tiles = TileMap::new();
		for &(z, x, y, len) in &coords {
			tiles.insert((z, x, y), tile_payload(z, x, y, len));
		}
		if kind == "pmleaf" {
			let l = vcommon::codec::PmLayout { internal_gzip: true, run_lengths: false, share_offsets: false, leaf_levels: 1, leaf_size: 16, clustered: true, data_reversed: false };
			std::fs::write(&path, vcommon::codec::pm_encode(&tiles, 0, 1, b"{}", l)).unwrap();
		} else {
			let mut src = MemSource::new("mem", tiles, TileFormat::BIN, TileCompression::Uncompressed);
			let rt = vcommon::memsource::runtime(2);
			rt.block_on(async {
				match kind {
					"versatiles" => VersaTilesWriter::write_to_path(&mut src, &path).await.unwrap(),
					"pmtiles" => PMTilesWriter::write_to_path(&mut src, &path).await.unwrap(),
					_ => TarTilesWriter::write_to_path(&mut src, &path).await.unwrap(),
				}
			});
		}
	} else {
		let _ = tile_scenario(dir, kind, "free", vec![vec![]], None);
	}
	let rt0 = tokio::runtime::Builder::new_current_thread().build().unwrap();
	let reader: Arc<Box<dyn TilesReaderTrait>> = Arc::new(match kind {
		"versatiles" => rt0.block_on(VersaTilesReader::open_path(&path)).unwrap().boxed(),
		"pmtiles" | "pmleaf" => rt0.block_on(PMTilesReader::open_path(&path)).unwrap().boxed(),
		_ => TarTilesReader::open_path(&path).unwrap().boxed(),
	});
	let mism = Arc::new(AtomicU64::new(0));
	let total = Arc::new(AtomicU64::new(0));
	let first: Arc<Mutex<Option<String>>> = Arc::new(Mutex::new(None));
	let mut hs = vec![];
	let nthreads = if big { 16usize } else { 8 };
	let finished = Arc::new(AtomicU64::new(0));
	for t in 0..nthreads {
		let (reader, mism, total, first, coords, finished) = (reader.clone(), mism.clone(), total.clone(), first.clone(), coords.clone(), finished.clone());
		hs.push(std::thread::spawn(move || {
			struct Done(Arc<AtomicU64>);
			impl Drop for Done {
				fn drop(&mut self) {
					self.0.fetch_add(1, Ordering::SeqCst);
				}
			}
			let _done = Done(finished);
			if big && t == 0 {
				// one caller consumes box streams of the whole level while the others look tiles up
				let rt = tokio::runtime::Builder::new_current_thread().build().unwrap();
				for _ in 0..6 {
					let bbox = versatiles_core::types::TileBBox::new(9, 0, 0, 511, 30).unwrap();
					let items = std::panic::catch_unwind(std::panic::AssertUnwindSafe(|| rt.block_on(async { reader.get_bbox_tile_stream(bbox).await.collect().await }))).unwrap_or_default();
					let mut wrong = items.len() != coords.len();
					for (c, b) in &items {
						let want = coords.iter().find(|k| (k.0, k.1, k.2) == (c.z, c.x, c.y)).map(|k| tile_payload(k.0, k.1, k.2, k.3));
						wrong |= want.as_deref() != Some(b.as_slice());
					}
					total.fetch_add(1, Ordering::Relaxed);
					if wrong {
						mism.fetch_add(1, Ordering::Relaxed);
						let mut f = first.lock().unwrap();
						if f.is_none() {
							*f = Some(format!("a box stream consumed next to concurrent lookups delivered {} tiles of which some carry another coordinate's bytes (or tiles are missing)", items.len()));
						}
					}
				}
				return;
			}
			let rt = tokio::runtime::Builder::new_current_thread().build().unwrap();
			for i in 0..(if big { 1500usize } else { 300 }) {
				let (z, x, y, len) = coords[(t * 53 + i * (2 * t + 1)) % coords.len()];
				let want = tile_payload(z, x, y, len);
				let r = std::panic::catch_unwind(std::panic::AssertUnwindSafe(|| rt.block_on(reader.get_tile_data(&TileCoord3 { x, y, z }))));
				let ok = matches!(&r, Ok(Ok(Some(b))) if b.as_slice() == want.as_slice());
				if !ok {
					mism.fetch_add(1, Ordering::Relaxed);
					let mut f = first.lock().unwrap();
					if f.is_none() {
						*f = Some(format!("lookup ({z},{x},{y}) on thread {t} returned {}", match &r { Ok(Ok(Some(b))) => format!("other bytes: {}", hexs(b.as_slice())), Ok(Ok(None)) => "None".into(), Ok(Err(e)) => format!("Err({e})"), Err(_) => "a panic".into() }));
					}
				}
				total.fetch_add(1, Ordering::Relaxed);
			}
		}));
	}
	// watchdog: lookups that never return (lost wake-up, lock-order inversion) must not hang the check
	let t0 = std::time::Instant::now();
	while finished.load(Ordering::SeqCst) < nthreads as u64 && t0.elapsed() < std::time::Duration::from_secs(90) {
		std::thread::sleep(std::time::Duration::from_millis(20));
	}
	if finished.load(Ordering::SeqCst) < nthreads as u64 {
		let done = finished.load(Ordering::SeqCst);
		// the stuck threads are left behind; the process exits at the end of the run
		return (total.load(Ordering::Relaxed), mism.load(Ordering::Relaxed).max(1), Some(format!("{} of {nthreads} caller threads did not finish their lookups within 90 s ({} lookups answered): callers block each other forever", nthreads as u64 - done, total.load(Ordering::Relaxed))));
	}
	for h in hs {
		let _ = h.join();
	}
	let f = first.lock().unwrap().clone();
	(total.load(Ordering::Relaxed), mism.load(Ordering::Relaxed), f)
}

fn check_exec(expected: &[Vec<String>]) -> impl Fn(&Execution) -> Option<String> + '_ {
	move |x: &Execution| {
		if x.deadlock {
			return Some("deadlock: unfinished threads but none enabled".to_string());
		}
		for (t, (got, want)) in x.obs.iter().zip(expected.iter()).enumerate() {
			if got != want {
				return Some(format!("thread {t} observed {got:?}, alone it observes {want:?}"));
			}
		}
		None
	}
}

fn run(ctx: &Ctx) {
	let dir = work_dir();
	ctx.rule(
		"stateless DFS over all schedules of real OS threads at the lseek/read/pread system calls on the container file and at async-mutex hand-offs; canonical enabled order (running thread first), \
		 iterative preemption bound; 2 threads: all interleavings, 3+ threads: preemption bound 2; oracle = every call returns what it returns alone; non-trivial = distinct schedules with at least one context switch while the switched-from thread was still enabled",
	);
	ctx.assume("the only cross-thread shared state relevant to the property is reachable through read/pread64/lseek64 on the container's file and the async mutexes; reorderings of individual atomics inside futures::lock::Mutex and unsynchronised memory accesses are not explored");
	ctx.assume("4..16 callers and a multi-threaded async runtime are not explored exhaustively; the per-call system-call sequence is identical there");
	let scs = scenarios(&dir, ctx.tier);
	let mut all_exhaustive = true;
	for sc in &scs {
		set_target(&sc.target);
		let check = check_exec(&sc.expected);
		let bounds: Vec<Option<usize>> = match sc.bound {
			None => vec![Some(0), Some(1), Some(2), None],
			Some(b) => (0..=b).map(Some).collect(),
		};
		let mut last_stats = (0u64, 0u64, 0usize, 0usize, 0u64);
		let mut reported = false;
		for b in bounds {
			let before = INTERCEPTED.load(Ordering::Relaxed);
			let mut ex = Explore { make: &*sc.make, bound: b, schedules: 0, points: 0, max_points: 0, outcomes: BTreeMap::new(), first_bad: None, bad: 0, check: &check, cap: ctx.tier.pick(60_000, 2_000_000), capped: false };
			ex.explore(vec![]);
			let intercepted = INTERCEPTED.load(Ordering::Relaxed) - before;
			last_stats = (ex.schedules, ex.points, ex.max_points, ex.outcomes.len(), intercepted);
			if ex.capped {
				ctx.cap(&format!("{}: schedule cap hit at bound {b:?}", sc.name));
				all_exhaustive = false;
			}
			if std::env::var_os("VERIF_VERBOSE").is_some() {
				eprintln!("{} bound={b:?}: schedules={} points={} outcomes={} bad={}", sc.name, ex.schedules, ex.points, ex.outcomes.len(), ex.bad);
			}
			if let Some((choices, readable, why)) = ex.first_bad.clone() {
				if !reported {
					reported = true;
					// confirm by replaying the schedule twice
					let a = run_schedule((sc.make)(), &choices);
					let b2 = run_schedule((sc.make)(), &choices);
					if a.obs != b2.obs || check(&a).is_none() {
						eprintln!("MACHINERY: violating schedule does not reproduce deterministically ({})", sc.name);
						std::process::exit(2);
					}
					let class = if sc.name.starts_with("read_range") { "read_range" } else { sc.name.split(' ').next().unwrap_or("") };
					let what = if why.starts_with("deadlock") { "deadlock" } else { "call returns other bytes than alone" };
					ctx.violation(
						&format!("{class}: {what}"),
						&format!("{}: schedule {} (preemption bound {b:?}): {why}; {} of {} schedules at this bound violate", sc.name, readable.join(" "), ex.bad, ex.schedules),
						json!({"scenario": sc.name, "choices": choices, "schedule": readable}),
					);
				}
			}
			if b.is_none() || Some(b) == Some(sc.bound) {
				ctx.evals(ex.schedules);
				ctx.state(ex.points);
				ctx.transition(ex.points);
				ctx.trace(ex.schedules);
				let nontriv = ex.schedules.saturating_sub(1);
				ctx.nontrivial_distinct(nontriv);
			}
		}
		ctx.outcome_n(&format!("{}: schedules (max bound)", sc.name), last_stats.0);
		ctx.outcome_n(&format!("{}: distinct outcomes", sc.name), last_stats.3 as u64);
		if last_stats.4 == 0 {
			eprintln!("MACHINERY: scenario '{}' intercepted no system call (vacuous)", sc.name);
			std::process::exit(2);
		}
		let mut s = sc.sample.clone();
		s["threads"] = json!(sc.threads);
		s["preemption_bound"] = json!(sc.bound.map(|b| b.to_string()).unwrap_or("unbounded".into()));
		s["schedules"] = json!(last_stats.0);
		s["max_scheduling_points"] = json!(last_stats.2);
		s["distinct_outcomes"] = json!(last_stats.3);
		ctx.sample(s);
	}
	let (total, mism) = free_running_sample(&dir);
	ctx.extra("free_running_sample", json!({"note": "supplementary labelled sample, 16 uncontrolled OS threads x 300 read_range calls; a mismatch is reported (sound), silence proves nothing", "calls": total, "mismatches": mism}));
	let mut tile_samples = vec![];
	for (kind, big) in [("versatiles", false), ("pmtiles", false), ("pmleaf", false), ("tar", false), ("versatiles", true), ("pmtiles", true), ("pmleaf", true), ("tar", true)] {
		let (calls, mism, first) = free_running_tile_sample(&dir, kind, big);
		tile_samples.push(json!({"container": kind, "tiles": if big { 600 } else { 6 }, "calls": calls, "mismatches": mism}));
		if let Some(f) = first {
			// a wrong answer under real concurrency is a real witness even though this run is only a sample
			ctx.violation(
				&format!("{kind}: free-running lookup returns other bytes than alone"),
				&format!("free-running sample (8 OS threads x 300 lookups on one {kind} reader, not replayable step by step): {mism} of {calls} lookups wrong; first: {f}"),
				json!({"scenario": format!("free-running {kind}"), "note": "supplementary sample; re-run ./check C13 quick"}),
			);
		}
	}
	ctx.extra("free_running_tile_sample", json!({"note": "supplementary labelled sample (sound, not exhaustive): finer-than-syscall races such as lock-free fast paths are outside the explorer's scheduling points", "runs": tile_samples}));
	if mism > 0 {
		ctx.violation("read_range: free-running read returns other bytes than alone", &format!("free-running sample: {mism} of {total} read_range calls wrong"), json!({"scenario": "free-running read_range"}));
	}
	ctx.extra("scenarios", json!(scs.len()));
	ctx.extra("intercepted_syscalls", json!(INTERCEPTED.load(Ordering::Relaxed)));
	ctx.exhaustive(all_exhaustive);
	let _ = std::fs::remove_dir_all(&dir);
}

fn replay(ctx: &Ctx, case: &Value) {
	let dir = work_dir();
	let name = case["scenario"].as_str().unwrap_or("");
	let choices: Vec<usize> = serde_json::from_value(case["choices"].clone()).unwrap_or_default();
	let scs = scenarios(&dir, Tier::Thorough);
	let Some(sc) = scs.iter().find(|s| s.name == name) else {
		eprintln!("MACHINERY: unknown scenario '{name}'");
		std::process::exit(2)
	};
	set_target(&sc.target);
	let check = check_exec(&sc.expected);
	let a = run_schedule((sc.make)(), &choices);
	let b = run_schedule((sc.make)(), &choices);
	if a.obs != b.obs {
		eprintln!("MACHINERY: replay observations differ between two runs");
		std::process::exit(2);
	}
	for s in &a.steps {
		println!("  T{}:{}   (enabled {:?})", s.enabled[s.chosen].0, s.enabled[s.chosen].1, s.enabled);
	}
	println!("  observed: {:?}", a.obs);
	println!("  alone:    {:?}", sc.expected);
	if let Some(why) = check(&a) {
		let class = if sc.name.starts_with("read_range") { "read_range" } else { sc.name.split(' ').next().unwrap_or("") };
		let what = if why.starts_with("deadlock") { "deadlock" } else { "call returns other bytes than alone" };
		ctx.violation(&format!("{class}: {what}"), &why, case.clone());
	}
	let _ = std::fs::remove_dir_all(&dir);
}

fn main() {
	let args: Vec<String> = std::env::args().collect();
	let mut tier = Tier::Quick;
	let mut replay_file = None;
	let mut i = 1;
	while i < args.len() {
		match args[i].as_str() {
			"--tier" => {
				i += 1;
				tier = if args.get(i).map(|s| s.as_str()) == Some("thorough") { Tier::Thorough } else { Tier::Quick };
			}
			"--replay" => {
				i += 1;
				replay_file = args.get(i).cloned();
			}
			_ => {}
		}
		i += 1;
	}
	par::install_quiet_panic_hook();
	let mut ctx = Ctx::new("C13", tier, "model_checking");
	ctx.replay_mode = replay_file.is_some();
	match replay_file {
		None => run(&ctx),
		Some(f) => replay(&ctx, &findings::read_replay(&f)),
	}
	let _ = fnv_str("");
	std::process::exit(ctx.finish());
}
