pub mod ctx;
pub mod findings;
pub mod par;
pub mod memsource;
pub mod codec;
pub mod mvt;
pub mod tilesets;
pub mod containers;
pub mod pipeline;
pub mod c19cases;
pub mod checks;

pub use ctx::{Ctx, Tier};
