//! MemSource: the boring reference tile source. A sorted map coord -> bytes with a declared
//! format / compression / TileJSON; implements `TilesReaderTrait` with the trait's *default*
//! stream (a lookup loop), so it shares no stream logic with the readers under test.

use anyhow::Result;
use async_trait::async_trait;
use std::collections::BTreeMap;
use versatiles_core::tilejson::TileJSON;
use versatiles_core::types::*;

pub type Key = (u8, u32, u32); // z, x, y
pub type TileMap = BTreeMap<Key, Vec<u8>>;

#[derive(Debug, Clone)]
pub struct MemSource {
	pub name: String,
	pub tiles: TileMap,
	pub parameters: TilesReaderParameters,
	pub tilejson: TileJSON,
	/// answer bbox streams from the map directly instead of the trait's default lookup loop over
	/// every coordinate of the box (needed for sparse sets with huge level boxes)
	pub fast_stream: bool,
	/// lookups answer after a number of Pending polls that depends on the coordinate ((3x + y) % 4)
	pub uneven: bool,
	/// served through `PlainSource` by the pipeline factory: the box stream is the trait's own default
	pub plain: bool,
	/// environment answer: the source is not ready at once; every lookup / stream request first
	/// returns Pending this many times (like a remote reader would)
	pub yields: u8,
	/// deliver box streams in reverse coordinate order (a source may deliver its tiles in any order)
	pub reversed: bool,
}

pub fn pyramid_of(tiles: &TileMap) -> TileBBoxPyramid {
	let mut p = TileBBoxPyramid::new_empty();
	for (z, x, y) in tiles.keys() {
		p.include_coord(&TileCoord3 { x: *x, y: *y, z: *z });
	}
	p
}

impl MemSource {
	pub fn new(name: &str, tiles: TileMap, format: TileFormat, compression: TileCompression) -> MemSource {
		let pyramid = pyramid_of(&tiles);
		MemSource { name: name.to_string(), tiles, parameters: TilesReaderParameters::new(format, compression, pyramid), tilejson: TileJSON::default(), fast_stream: false, uneven: false, plain: false, yields: 0, reversed: false }
	}
	pub fn with_pyramid(mut self, p: TileBBoxPyramid) -> MemSource {
		self.parameters.bbox_pyramid = p;
		self
	}
	pub fn with_reversed_stream(mut self) -> MemSource {
		self.reversed = true;
		self
	}
	pub fn with_uneven_yields(mut self) -> MemSource {
		self.uneven = true;
		self
	}
	pub fn as_plain(mut self) -> MemSource {
		self.plain = true;
		self
	}
	pub fn with_fast_stream(mut self) -> MemSource {
		self.fast_stream = true;
		self
	}
	pub fn with_yields(mut self, n: u8) -> MemSource {
		self.yields = n;
		self
	}
	pub fn with_tilejson(mut self, t: TileJSON) -> MemSource {
		self.tilejson = t;
		self
	}
	pub fn get(&self, z: u8, x: u32, y: u32) -> Option<&Vec<u8>> {
		self.tiles.get(&(z, x, y))
	}
}

#[async_trait]
impl TilesReaderTrait for MemSource {
	fn get_source_name(&self) -> &str {
		&self.name
	}
	fn get_container_name(&self) -> &str {
		"mem"
	}
	fn get_parameters(&self) -> &TilesReaderParameters {
		&self.parameters
	}
	fn override_compression(&mut self, tile_compression: TileCompression) {
		self.parameters.tile_compression = tile_compression;
	}
	fn get_tilejson(&self) -> &TileJSON {
		&self.tilejson
	}
	async fn get_tile_data(&self, coord: &TileCoord3) -> Result<Option<Blob>> {
		let n = self.yields as u32 + if self.uneven { (3 * coord.x + coord.y) % 4 } else { 0 };
		for _ in 0..n {
			tokio::task::yield_now().await;
		}
		Ok(self.tiles.get(&(coord.z, coord.x, coord.y)).map(|v| Blob::from(v.as_slice())))
	}
	async fn get_bbox_tile_stream(&self, bbox: TileBBox) -> TileStream {
		for _ in 0..self.yields {
			tokio::task::yield_now().await;
		}
		if self.fast_stream || self.reversed {
			let mut v: Vec<(TileCoord3, Blob)> = self
				.tiles
				.iter()
				.filter(|(k, _)| k.0 == bbox.level && k.1 >= bbox.x_min && k.1 <= bbox.x_max && k.2 >= bbox.y_min && k.2 <= bbox.y_max)
				.map(|(k, v)| (TileCoord3 { x: k.1, y: k.2, z: k.0 }, Blob::from(v.as_slice())))
				.collect();
			if self.reversed {
				// reverse, then swap neighbours: neither ascending nor descending
				v.reverse();
				for pair in v.chunks_mut(3) {
					pair.swap(0, pair.len() - 1);
				}
			}
			return TileStream::from_vec(v);
		}
		// the trait's default: a lookup loop over every coordinate of the box
		let coords: Vec<TileCoord3> = bbox.iter_coords().collect();
		let me: &MemSource = self;
		TileStream::from_coord_vec_async(coords, move |coord| async move { me.tiles.get(&(coord.z, coord.x, coord.y)).map(|v| (coord, Blob::from(v.as_slice()))) })
	}
}

/// Reads every tile of `reader` that lookups return over `coords`.
pub fn lookups(rt: &tokio::runtime::Runtime, reader: &dyn TilesReaderTrait, coords: &[Key]) -> Result<TileMap, String> {
	let mut out = TileMap::new();
	for &(z, x, y) in coords {
		let c = TileCoord3 { x, y, z };
		match rt.block_on(reader.get_tile_data(&c)) {
			Ok(Some(b)) => {
				out.insert((z, x, y), b.into_vec());
			}
			Ok(None) => {}
			Err(e) => return Err(format!("lookup {c:?} failed: {e:#}")),
		}
	}
	Ok(out)
}

/// Collects a bbox stream into a list (multiset) of (key, bytes).
pub fn stream(rt: &tokio::runtime::Runtime, reader: &dyn TilesReaderTrait, bbox: TileBBox) -> Vec<(Key, Vec<u8>)> {
	rt.block_on(async {
		let s = reader.get_bbox_tile_stream(bbox).await;
		s.collect().await.into_iter().map(|(c, b)| ((c.z, c.x, c.y), b.into_vec())).collect()
	})
}

pub fn runtime(workers: usize) -> tokio::runtime::Runtime {
	tokio::runtime::Builder::new_multi_thread().worker_threads(workers).enable_all().build().expect("tokio runtime")
}

/// A reader that implements only what the trait requires: its box stream is the trait's own default.
#[derive(Debug, Clone)]
pub struct PlainSource(pub MemSource);

#[async_trait]
impl TilesReaderTrait for PlainSource {
	fn get_source_name(&self) -> &str {
		&self.0.name
	}
	fn get_container_name(&self) -> &str {
		"plain"
	}
	fn get_parameters(&self) -> &TilesReaderParameters {
		&self.0.parameters
	}
	fn override_compression(&mut self, tile_compression: TileCompression) {
		self.0.parameters.tile_compression = tile_compression;
	}
	fn get_tilejson(&self) -> &TileJSON {
		&self.0.tilejson
	}
	async fn get_tile_data(&self, coord: &TileCoord3) -> Result<Option<Blob>> {
		self.0.get_tile_data(coord).await
	}
}
