//! Independent codecs, written from the published layouts (versatiles v02, PMTiles v3, ustar/GNU
//! tar, MBTiles 1.3, z/x/y directory). They share no code with the repository except the
//! compression libraries (flate2, brotli) and SQLite.

use crate::memsource::{Key, TileMap};
use std::collections::BTreeMap;
use std::io::{Read, Write};
use std::path::Path;

// ---------------------------------------------------------------------------------------------
// compression helpers

pub fn gzip(data: &[u8]) -> Vec<u8> {
	let mut e = flate2::write::GzEncoder::new(Vec::new(), flate2::Compression::default());
	e.write_all(data).unwrap();
	e.finish().unwrap()
}
pub fn gunzip(data: &[u8]) -> Result<Vec<u8>, String> {
	let mut d = flate2::read::GzDecoder::new(data);
	let mut out = vec![];
	d.read_to_end(&mut out).map_err(|e| format!("gunzip: {e}"))?;
	Ok(out)
}
pub fn brotli_enc(data: &[u8]) -> Vec<u8> {
	let mut out = vec![];
	{
		let mut w = brotli::CompressorWriter::new(&mut out, 4096, 5, 22);
		w.write_all(data).unwrap();
	}
	out
}
pub fn brotli_dec(data: &[u8]) -> Result<Vec<u8>, String> {
	let mut out = vec![];
	brotli::Decompressor::new(data, 4096).read_to_end(&mut out).map_err(|e| format!("brotli: {e}"))?;
	Ok(out)
}
/// compression ids as in the versatiles header: 0 none, 1 gzip, 2 brotli
pub fn decode_with(comp: u8, data: &[u8]) -> Result<Vec<u8>, String> {
	match comp {
		0 => Ok(data.to_vec()),
		1 => gunzip(data),
		2 => brotli_dec(data),
		c => Err(format!("unknown compression id {c}")),
	}
}
pub fn encode_with(comp: u8, data: &[u8]) -> Vec<u8> {
	match comp {
		0 => data.to_vec(),
		1 => gzip(data),
		2 => brotli_enc(data),
		_ => panic!("unknown compression id"),
	}
}

fn be_u32(b: &[u8]) -> u32 {
	u32::from_be_bytes(b[..4].try_into().unwrap())
}
fn be_u64(b: &[u8]) -> u64 {
	u64::from_be_bytes(b[..8].try_into().unwrap())
}
fn le_u64(b: &[u8]) -> u64 {
	u64::from_le_bytes(b[..8].try_into().unwrap())
}
fn slice<'a>(bytes: &'a [u8], off: u64, len: u64, what: &str) -> Result<&'a [u8], String> {
	let end = off.checked_add(len).ok_or_else(|| format!("{what}: range overflow"))?;
	if end as usize > bytes.len() {
		return Err(format!("{what}: range {off}+{len} beyond file of {} bytes", bytes.len()));
	}
	Ok(&bytes[off as usize..end as usize])
}

// ---------------------------------------------------------------------------------------------
// versatiles v02
//
// header (66 bytes, big endian): "versatiles_v02", tile_format u8, precompression u8, min_zoom u8,
// max_zoom u8, bbox 4 x i32 (deg * 1e7), meta offset u64, meta length u64, block index offset u64,
// block index length u64. Block index: brotli( n x 33 bytes: level u8, column u32, row u32,
// col_min u8, row_min u8, col_max u8, row_max u8, block offset u64, tile blobs length u64, tile
// index length u32 ); the tile index follows the tile blobs. Tile index: brotli( m x 12 bytes:
// offset u64 (relative to block offset), length u32 ), row-major over the block's coverage;
// length 0 = no tile.

#[derive(Debug, Clone, PartialEq)]
pub struct VtBlockInfo {
	pub z: u8,
	pub bx: u32,
	pub by: u32,
	pub cov: (u8, u8, u8, u8),
	pub offset: u64,
	pub tiles_len: u64,
	pub index_len: u32,
	pub ranges: Vec<(u64, u32)>, // absolute offsets
}

#[derive(Debug, Clone)]
pub struct VtDecoded {
	pub format: u8,
	pub compression: u8,
	pub zoom_range: (u8, u8),
	pub bbox: [i32; 4],
	pub meta_raw: Vec<u8>,
	pub tiles: TileMap,
	pub blocks: Vec<VtBlockInfo>,
}

pub fn vt_decode(bytes: &[u8]) -> Result<VtDecoded, String> {
	if bytes.len() < 66 {
		return Err("shorter than the 66 byte header".into());
	}
	if &bytes[0..14] != b"versatiles_v02" {
		return Err("bad magic".into());
	}
	let format = bytes[14];
	let compression = bytes[15];
	let zoom_range = (bytes[16], bytes[17]);
	let bbox = [be_u32(&bytes[18..]) as i32, be_u32(&bytes[22..]) as i32, be_u32(&bytes[26..]) as i32, be_u32(&bytes[30..]) as i32];
	let (mo, ml, bo, bl) = (be_u64(&bytes[34..]), be_u64(&bytes[42..]), be_u64(&bytes[50..]), be_u64(&bytes[58..]));
	let meta_raw = slice(bytes, mo, ml, "meta")?.to_vec();
	let mut tiles = TileMap::new();
	let mut blocks = vec![];
	if bl > 0 {
		let idx = brotli_dec(slice(bytes, bo, bl, "block index")?)?;
		if idx.len() % 33 != 0 {
			return Err(format!("block index length {} is not a multiple of 33", idx.len()));
		}
		for rec in idx.chunks(33) {
			let z = rec[0];
			let (bx, by) = (be_u32(&rec[1..]), be_u32(&rec[5..]));
			let cov = (rec[9], rec[10], rec[11], rec[12]);
			let offset = be_u64(&rec[13..]);
			let tiles_len = be_u64(&rec[21..]);
			let index_len = be_u32(&rec[29..]);
			if cov.0 > cov.2 || cov.1 > cov.3 {
				return Err(format!("block ({z},{bx},{by}) coverage inverted"));
			}
			let ti = brotli_dec(slice(bytes, offset + tiles_len, index_len as u64, "tile index")?)?;
			let w = (cov.2 - cov.0) as usize + 1;
			let h = (cov.3 - cov.1) as usize + 1;
			if ti.len() != w * h * 12 {
				return Err(format!("tile index of block ({z},{bx},{by}) has {} bytes, coverage needs {}", ti.len(), w * h * 12));
			}
			let mut ranges = vec![];
			for (i, r) in ti.chunks(12).enumerate() {
				let (o, l) = (be_u64(r), be_u32(&r[8..]));
				ranges.push((offset + o, l));
				if l > 0 {
					let x = bx * 256 + cov.0 as u32 + (i % w) as u32;
					let y = by * 256 + cov.1 as u32 + (i / w) as u32;
					let data = slice(bytes, offset + o, l as u64, "tile")?.to_vec();
					if tiles.insert((z, x, y), data).is_some() {
						return Err(format!("tile ({z},{x},{y}) indexed twice"));
					}
				}
			}
			blocks.push(VtBlockInfo { z, bx, by, cov, offset, tiles_len, index_len, ranges });
		}
	}
	Ok(VtDecoded { format, compression, zoom_range, bbox, meta_raw, tiles, blocks })
}

#[derive(Debug, Clone, Copy, PartialEq, Eq, serde::Serialize, serde::Deserialize)]
pub struct VtLayout {
	/// 0 = tight coverage rectangle per block, 1 = full block (0..=255 or whole level), 2 = tight + 1 tile margin where possible
	pub coverage: u8,
	pub blocks_descending: bool,
	pub tiles_reversed: bool,
	pub share_duplicates: bool,
	pub padding: u8,
	pub with_meta: bool,
	/// block index before the tile data instead of after it
	pub index_first: bool,
}

impl VtLayout {
	pub fn plain() -> VtLayout {
		VtLayout { coverage: 0, blocks_descending: false, tiles_reversed: false, share_duplicates: false, padding: 0, with_meta: true, index_first: false }
	}
	pub fn all() -> Vec<VtLayout> {
		let mut v = vec![];
		for coverage in 0..3u8 {
			for flags in 0..32u8 {
				v.push(VtLayout { coverage, blocks_descending: flags & 1 != 0, tiles_reversed: flags & 2 != 0, share_duplicates: flags & 4 != 0, padding: if flags & 8 != 0 { 7 } else { 0 }, with_meta: flags & 16 == 0, index_first: false });
			}
		}
		v
	}
}

pub fn vt_encode(tiles: &TileMap, format: u8, compression: u8, meta_json: &[u8], layout: VtLayout) -> Vec<u8> {
	let mut out = vec![0u8; 66];
	let pad = |out: &mut Vec<u8>| out.extend(std::iter::repeat(0xEE).take(layout.padding as usize));
	pad(&mut out);
	let (mo, ml) = if layout.with_meta {
		let m = encode_with(compression, meta_json);
		let r = (out.len() as u64, m.len() as u64);
		out.extend(m);
		r
	} else {
		(0, 0)
	};
	pad(&mut out);
	// group by block
	let mut by_block: BTreeMap<(u8, u32, u32), Vec<(Key, &Vec<u8>)>> = BTreeMap::new();
	for (k, v) in tiles {
		by_block.entry((k.0, k.1 / 256, k.2 / 256)).or_default().push((*k, v));
	}
	let mut keys: Vec<(u8, u32, u32)> = by_block.keys().copied().collect();
	if layout.blocks_descending {
		keys.reverse();
	}
	let mut index = vec![];
	for bk in keys {
		let ts = &by_block[&bk];
		let n = if bk.0 >= 8 { 256u32 } else { 1u32 << bk.0 };
		let lx: Vec<u32> = ts.iter().map(|(k, _)| k.1 % 256).collect();
		let ly: Vec<u32> = ts.iter().map(|(k, _)| k.2 % 256).collect();
		let (mut x0, mut y0, mut x1, mut y1) = (*lx.iter().min().unwrap(), *ly.iter().min().unwrap(), *lx.iter().max().unwrap(), *ly.iter().max().unwrap());
		match layout.coverage {
			1 => {
				x0 = 0;
				y0 = 0;
				x1 = n - 1;
				y1 = n - 1;
			}
			2 => {
				x0 = x0.saturating_sub(1);
				y0 = y0.saturating_sub(1);
				x1 = (x1 + 1).min(n - 1);
				y1 = (y1 + 1).min(n - 1);
			}
			_ => {}
		}
		let w = (x1 - x0 + 1) as usize;
		let h = (y1 - y0 + 1) as usize;
		let block_off = out.len() as u64;
		let mut ranges = vec![(0u64, 0u32); w * h];
		let mut order: Vec<usize> = (0..ts.len()).collect();
		if layout.tiles_reversed {
			order.reverse();
		}
		let mut seen: BTreeMap<&Vec<u8>, (u64, u32)> = BTreeMap::new();
		for i in order {
			let (k, data) = ts[i];
			let slot = ((k.2 % 256 - y0) as usize) * w + (k.1 % 256 - x0) as usize;
			if data.is_empty() {
				continue;
			}
			if layout.share_duplicates {
				if let Some(r) = seen.get(data) {
					ranges[slot] = *r;
					continue;
				}
			}
			let r = (out.len() as u64 - block_off, data.len() as u32);
			out.extend_from_slice(data);
			ranges[slot] = r;
			seen.insert(data, r);
		}
		let tiles_len = out.len() as u64 - block_off;
		let mut ti = vec![];
		for (o, l) in ranges {
			ti.extend(o.to_be_bytes());
			ti.extend(l.to_be_bytes());
		}
		let ti = brotli_enc(&ti);
		out.extend_from_slice(&ti);
		let mut rec = vec![bk.0];
		rec.extend(bk.1.to_be_bytes());
		rec.extend(bk.2.to_be_bytes());
		rec.extend([x0 as u8, y0 as u8, x1 as u8, y1 as u8]);
		rec.extend(block_off.to_be_bytes());
		rec.extend(tiles_len.to_be_bytes());
		rec.extend((ti.len() as u32).to_be_bytes());
		index.extend(rec);
		pad(&mut out);
	}
	let bi = brotli_enc(&index);
	let (bo, bl) = (out.len() as u64, bi.len() as u64);
	out.extend(bi);
	// header
	let zmin = tiles.keys().map(|k| k.0).min().unwrap_or(0);
	let zmax = tiles.keys().map(|k| k.0).max().unwrap_or(0);
	let mut h = b"versatiles_v02".to_vec();
	h.extend([format, compression, zmin, zmax]);
	for v in [-1800000000i32, -850511287, 1800000000, 850511287] {
		h.extend(v.to_be_bytes());
	}
	for v in [mo, ml, bo, bl] {
		h.extend(v.to_be_bytes());
	}
	out[..66].copy_from_slice(&h);
	out
}

// ---------------------------------------------------------------------------------------------
// PMTiles v3

pub fn hilbert_xy2d(z: u8, x: u32, y: u32) -> u64 {
	// Wikipedia's xy2d with rot(n, ..)
	let n: u64 = 1 << z;
	let (mut x, mut y) = (x as u64, y as u64);
	let mut d = 0u64;
	let mut s = n / 2;
	while s > 0 {
		let rx = u64::from(x & s > 0);
		let ry = u64::from(y & s > 0);
		d += s * s * ((3 * rx) ^ ry);
		if ry == 0 {
			if rx == 1 {
				x = n - 1 - x;
				y = n - 1 - y;
			}
			std::mem::swap(&mut x, &mut y);
		}
		s /= 2;
	}
	d
}
pub fn hilbert_d2xy(z: u8, d: u64) -> (u32, u32) {
	let n: u64 = 1 << z;
	let (mut x, mut y) = (0u64, 0u64);
	let mut t = d;
	let mut s = 1u64;
	while s < n {
		let rx = 1 & (t / 2);
		let ry = 1 & (t ^ rx);
		if ry == 0 {
			if rx == 1 {
				x = s - 1 - x;
				y = s - 1 - y;
			}
			std::mem::swap(&mut x, &mut y);
		}
		x += s * rx;
		y += s * ry;
		t /= 4;
		s *= 2;
	}
	(x as u32, y as u32)
}
pub fn pm_tile_id(z: u8, x: u32, y: u32) -> u64 {
	let base: u64 = ((1u128 << (2 * z as u32)) - 1) as u64 / 3;
	base + hilbert_xy2d(z, x, y)
}
pub fn pm_id_to_zxy(id: u64) -> Result<Key, String> {
	let mut acc = 0u64;
	for z in 0..32u8 {
		let n = 1u64 << (2 * z as u32);
		if id < acc + n {
			let (x, y) = hilbert_d2xy(z, id - acc);
			return Ok((z, x, y));
		}
		acc += n;
	}
	Err("tile id beyond zoom 31".into())
}

fn write_varint(out: &mut Vec<u8>, mut v: u64) {
	loop {
		let b = (v & 0x7f) as u8;
		v >>= 7;
		if v == 0 {
			out.push(b);
			return;
		}
		out.push(b | 0x80);
	}
}
fn read_varint(b: &[u8], pos: &mut usize) -> Result<u64, String> {
	let mut v = 0u64;
	let mut shift = 0;
	loop {
		let byte = *b.get(*pos).ok_or("varint beyond end")?;
		*pos += 1;
		v |= ((byte & 0x7f) as u64) << shift;
		if byte & 0x80 == 0 {
			return Ok(v);
		}
		shift += 7;
		if shift > 63 {
			return Err("varint too long".into());
		}
	}
}

#[derive(Debug, Clone, Copy, PartialEq, Eq)]
pub struct PmEntry {
	pub id: u64,
	pub offset: u64,
	pub length: u64,
	pub run: u32,
}

pub fn pm_serialize_dir(entries: &[PmEntry]) -> Vec<u8> {
	let mut out = vec![];
	write_varint(&mut out, entries.len() as u64);
	let mut last = 0;
	for e in entries {
		write_varint(&mut out, e.id - last);
		last = e.id;
	}
	for e in entries {
		write_varint(&mut out, e.run as u64);
	}
	for e in entries {
		write_varint(&mut out, e.length);
	}
	for (i, e) in entries.iter().enumerate() {
		if i > 0 && e.offset == entries[i - 1].offset + entries[i - 1].length {
			write_varint(&mut out, 0);
		} else {
			write_varint(&mut out, e.offset + 1);
		}
	}
	out
}
pub fn pm_parse_dir(b: &[u8]) -> Result<Vec<PmEntry>, String> {
	let mut pos = 0;
	let n = read_varint(b, &mut pos)? as usize;
	if n > b.len() {
		return Err("directory entry count exceeds directory size".into());
	}
	let mut es = vec![PmEntry { id: 0, offset: 0, length: 0, run: 0 }; n];
	let mut last = 0u64;
	for e in es.iter_mut() {
		last = last.checked_add(read_varint(b, &mut pos)?).ok_or("tile id overflow")?;
		e.id = last;
	}
	for e in es.iter_mut() {
		e.run = read_varint(b, &mut pos)? as u32;
	}
	for e in es.iter_mut() {
		e.length = read_varint(b, &mut pos)?;
	}
	for i in 0..n {
		let v = read_varint(b, &mut pos)?;
		es[i].offset = if v == 0 && i > 0 { es[i - 1].offset + es[i - 1].length } else { v.checked_sub(1).ok_or("offset 0 in first entry")? };
	}
	Ok(es)
}

#[derive(Debug, Clone)]
pub struct PmDecoded {
	pub tile_type: u8,
	pub tile_compression: u8,
	pub internal_compression: u8,
	pub clustered: bool,
	pub min_zoom: u8,
	pub max_zoom: u8,
	pub counts: (u64, u64, u64),
	/// recomputed from the directories: addressed tiles, tile entries, distinct (offset, length) contents
	pub actual_counts: (u64, u64, u64),
	/// header bounds [min_lon, min_lat, max_lon, max_lat] in 1e-7 degrees
	pub bounds_e7: [i32; 4],
	/// first tile entry (in ascending tile-id order) whose data neither follows the data seen so far directly nor
	/// refers back into it - what the 'clustered' flag of the header promises never to happen
	pub not_clustered_at: Option<String>,
	pub meta: Vec<u8>,
	pub tiles: TileMap,
	pub leaf_levels: usize,
}

fn pm_internal_decode(comp: u8, data: &[u8]) -> Result<Vec<u8>, String> {
	match comp {
		1 => Ok(data.to_vec()),
		2 => gunzip(data),
		3 => brotli_dec(data),
		c => Err(format!("unsupported internal compression {c}")),
	}
}

pub fn pm_decode(bytes: &[u8]) -> Result<PmDecoded, String> {
	if bytes.len() < 127 || &bytes[0..7] != b"PMTiles" || bytes[7] != 3 {
		return Err("not a PMTiles v3 header".into());
	}
	let f = |i: usize| le_u64(&bytes[8 + 8 * i..]);
	let (root_o, root_l, meta_o, meta_l, leaf_o, leaf_l, data_o, data_l) = (f(0), f(1), f(2), f(3), f(4), f(5), f(6), f(7));
	let counts = (f(8), f(9), f(10));
	let clustered = bytes[96] == 1;
	let (ic, tc, tt, minz, maxz) = (bytes[97], bytes[98], bytes[99], bytes[100], bytes[101]);
	let meta = if meta_l > 0 { pm_internal_decode(ic, slice(bytes, meta_o, meta_l, "metadata")?)? } else { vec![] };
	let root = pm_internal_decode(ic, slice(bytes, root_o, root_l, "root directory")?)?;
	let leaves = slice(bytes, leaf_o, leaf_l, "leaf directories")?;
	let data = slice(bytes, data_o, data_l, "tile data")?;
	let mut tiles = TileMap::new();
	let mut max_depth = 0;
	let mut stats: (u64, u64, std::collections::BTreeSet<(u64, u64)>) = (0, 0, Default::default());
	let mut order: Vec<(u64, u64, u64)> = vec![];
	fn walk(dir: &[u8], leaves: &[u8], data: &[u8], ic: u8, depth: usize, tiles: &mut TileMap, max_depth: &mut usize, stats: &mut (u64, u64, std::collections::BTreeSet<(u64, u64)>), order: &mut Vec<(u64, u64, u64)>) -> Result<(), String> {
		if depth > 3 {
			return Err("more than 3 leaf levels".into());
		}
		*max_depth = (*max_depth).max(depth);
		for e in pm_parse_dir(dir)? {
			if e.run > 0 {
				stats.0 += e.run as u64;
				stats.1 += 1;
				stats.2.insert((e.offset, e.length));
				order.push((e.id, e.offset, e.length));
				let d = slice(data, e.offset, e.length, "tile")?;
				for i in 0..e.run as u64 {
					let k = pm_id_to_zxy(e.id + i)?;
					if e.length > 0 && tiles.insert(k, d.to_vec()).is_some() {
						return Err(format!("tile {k:?} addressed twice"));
					}
				}
			} else {
				let l = pm_internal_decode(ic, slice(leaves, e.offset, e.length, "leaf")?)?;
				walk(&l, leaves, data, ic, depth + 1, tiles, max_depth, stats, order)?;
			}
		}
		Ok(())
	}
	walk(&root, leaves, data, ic, 0, &mut tiles, &mut max_depth, &mut stats, &mut order)?;
	order.sort();
	let mut running_end = 0u64;
	let mut not_clustered_at = None;
	for (id, off, len) in &order {
		if *off > running_end && not_clustered_at.is_none() {
			not_clustered_at = Some(format!("tile id {id}: data at offset {off}, data of the smaller ids ends at {running_end}"));
		}
		running_end = running_end.max(off + len);
	}
	let le_i32 = |o: usize| i32::from_le_bytes(bytes[o..o + 4].try_into().unwrap());
	let bounds_e7 = [le_i32(102), le_i32(106), le_i32(110), le_i32(114)];
	Ok(PmDecoded { tile_type: tt, tile_compression: tc, internal_compression: ic, clustered, min_zoom: minz, max_zoom: maxz, counts, actual_counts: (stats.0, stats.1, stats.2.len() as u64), bounds_e7, not_clustered_at, meta, tiles, leaf_levels: max_depth })
}

#[derive(Debug, Clone, Copy, PartialEq, Eq, serde::Serialize, serde::Deserialize)]
pub struct PmLayout {
	pub internal_gzip: bool,
	pub run_lengths: bool,
	pub share_offsets: bool,
	/// 0 = root only, 1 = one leaf level, 2 = two leaf levels
	pub leaf_levels: u8,
	pub leaf_size: usize,
	pub clustered: bool,
	/// tile data written in descending tile-id order (only legal with clustered = false)
	pub data_reversed: bool,
}
impl PmLayout {
	pub fn plain() -> PmLayout {
		PmLayout { internal_gzip: true, run_lengths: false, share_offsets: false, leaf_levels: 0, leaf_size: 2, clustered: true, data_reversed: false }
	}
	pub fn all() -> Vec<PmLayout> {
		let mut v = vec![];
		for leaf_levels in 0..4u8 {
			for leaf_size in [1usize, 2, 3] {
				if leaf_levels == 0 && leaf_size != 2 {
					continue;
				}
				for flags in 0..16u8 {
					let data_reversed = flags & 8 != 0;
					v.push(PmLayout { internal_gzip: flags & 1 != 0, run_lengths: flags & 2 != 0, share_offsets: flags & 4 != 0, leaf_levels, leaf_size, clustered: !data_reversed, data_reversed });
				}
			}
		}
		v
	}
}

/// tile_type: 0 unknown, 1 mvt, 2 png, 3 jpeg, 4 webp, 5 avif; compression: 0 unknown, 1 none, 2 gzip, 3 brotli, 4 zstd
pub fn pm_encode(tiles: &TileMap, tile_type: u8, tile_compression: u8, meta_json: &[u8], layout: PmLayout) -> Vec<u8> {
	let ic: u8 = if layout.internal_gzip { 2 } else { 1 };
	let enc = |d: &[u8]| if layout.internal_gzip { gzip(d) } else { d.to_vec() };
	let mut ids: Vec<(u64, &Vec<u8>)> = tiles.iter().filter(|(_, v)| !v.is_empty()).map(|(k, v)| (pm_tile_id(k.0, k.1, k.2), v)).collect();
	ids.sort_by_key(|e| e.0);
	// tile data section
	let mut data: Vec<u8> = vec![];
	let mut placed: BTreeMap<&Vec<u8>, u64> = BTreeMap::new();
	let mut off_of: Vec<u64> = vec![0; ids.len()];
	let order: Vec<usize> = if layout.data_reversed { (0..ids.len()).rev().collect() } else { (0..ids.len()).collect() };
	for i in order {
		let d = ids[i].1;
		if layout.share_offsets || layout.run_lengths {
			if let Some(o) = placed.get(d) {
				off_of[i] = *o;
				continue;
			}
		}
		off_of[i] = data.len() as u64;
		placed.insert(d, off_of[i]);
		data.extend_from_slice(d);
	}
	let mut entries: Vec<PmEntry> = vec![];
	for (i, (id, d)) in ids.iter().enumerate() {
		if layout.run_lengths {
			if let Some(last) = entries.last_mut() {
				if last.id + last.run as u64 == *id && last.offset == off_of[i] && last.length == d.len() as u64 {
					last.run += 1;
					continue;
				}
			}
		}
		entries.push(PmEntry { id: *id, offset: off_of[i], length: d.len() as u64, run: 1 });
	}
	let contents = placed.len() as u64;
	// directories
	let mut leaves: Vec<u8> = vec![];
	let mut level: Vec<PmEntry> = entries.clone();
	for _ in 0..layout.leaf_levels {
		let mut parent = vec![];
		for chunk in level.chunks(layout.leaf_size.max(1)) {
			let ser = enc(&pm_serialize_dir(chunk));
			parent.push(PmEntry { id: chunk[0].id, offset: leaves.len() as u64, length: ser.len() as u64, run: 0 });
			leaves.extend(ser);
		}
		level = parent;
		if level.is_empty() {
			break;
		}
	}
	let root = enc(&pm_serialize_dir(&level));
	let meta = enc(meta_json);
	let mut out = vec![0u8; 127];
	let root_o = out.len() as u64;
	out.extend_from_slice(&root);
	let meta_o = out.len() as u64;
	out.extend_from_slice(&meta);
	let leaf_o = out.len() as u64;
	out.extend_from_slice(&leaves);
	let data_o = out.len() as u64;
	out.extend_from_slice(&data);
	let mut h = b"PMTiles".to_vec();
	h.push(3);
	for v in [root_o, root.len() as u64, meta_o, meta.len() as u64, leaf_o, leaves.len() as u64, data_o, data.len() as u64, ids.len() as u64, entries.len() as u64, contents] {
		h.extend(v.to_le_bytes());
	}
	h.push(layout.clustered as u8);
	h.push(ic);
	h.push(tile_compression);
	h.push(tile_type);
	h.push(tiles.keys().map(|k| k.0).min().unwrap_or(0));
	h.push(tiles.keys().map(|k| k.0).max().unwrap_or(0));
	for v in [-1800000000i32, -850511287, 1800000000, 850511287] {
		h.extend(v.to_le_bytes());
	}
	h.push(0);
	for v in [0i32, 0] {
		h.extend(v.to_le_bytes());
	}
	assert_eq!(h.len(), 127);
	out[..127].copy_from_slice(&h);
	out
}

// ---------------------------------------------------------------------------------------------
// tar (ustar + GNU long names)

#[derive(Debug, Clone)]
pub struct TarMember {
	pub path: String,
	pub typeflag: u8,
	pub data: Vec<u8>,
}

fn octal(b: &[u8]) -> Result<u64, String> {
	if !b.is_empty() && b[0] & 0x80 != 0 {
		// GNU base-256
		let mut v = 0u64;
		for x in &b[1..] {
			v = (v << 8) | *x as u64;
		}
		return Ok(v);
	}
	let s: String = b.iter().take_while(|c| **c != 0).map(|c| *c as char).collect();
	let s = s.trim();
	if s.is_empty() {
		return Ok(0);
	}
	u64::from_str_radix(s, 8).map_err(|e| format!("octal field '{s}': {e}"))
}
fn cstr(b: &[u8]) -> String {
	String::from_utf8_lossy(&b[..b.iter().position(|c| *c == 0).unwrap_or(b.len())]).to_string()
}

pub fn tar_read(bytes: &[u8]) -> Result<Vec<TarMember>, String> {
	let mut pos = 0;
	let mut out = vec![];
	let mut long_name: Option<String> = None;
	while pos + 512 <= bytes.len() {
		let h = &bytes[pos..pos + 512];
		if h.iter().all(|b| *b == 0) {
			break;
		}
		let size = octal(&h[124..136])? as usize;
		let typeflag = h[156];
		let mut name = cstr(&h[0..100]);
		if &h[257..262] == b"ustar" && h[345] != 0 {
			name = format!("{}/{}", cstr(&h[345..500]), name);
		}
		// checksum
		let stored = octal(&h[148..156])?;
		let sum: u64 = h.iter().enumerate().map(|(i, b)| if (148..156).contains(&i) { 32u64 } else { *b as u64 }).sum();
		if stored != sum {
			return Err(format!("header checksum mismatch at {pos}"));
		}
		pos += 512;
		if pos + size > bytes.len() {
			return Err(format!("member '{name}' exceeds archive"));
		}
		let data = bytes[pos..pos + size].to_vec();
		pos += size.div_ceil(512) * 512;
		if typeflag == b'L' {
			long_name = Some(cstr(&data));
			continue;
		}
		if let Some(l) = long_name.take() {
			name = l;
		}
		out.push(TarMember { path: name, typeflag, data });
	}
	Ok(out)
}

fn tar_header(name: &str, size: usize, typeflag: u8, gnu: bool) -> Vec<u8> {
	let mut h = vec![0u8; 512];
	let nb = name.as_bytes();
	assert!(nb.len() <= 100);
	h[..nb.len()].copy_from_slice(nb);
	h[100..108].copy_from_slice(b"0000644\0");
	h[108..116].copy_from_slice(b"0000000\0");
	h[116..124].copy_from_slice(b"0000000\0");
	h[124..136].copy_from_slice(format!("{size:011o}\0").as_bytes());
	h[136..148].copy_from_slice(b"00000000000\0");
	h[156] = typeflag;
	if gnu {
		h[257..265].copy_from_slice(b"ustar  \0");
	} else {
		h[257..263].copy_from_slice(b"ustar\0");
		h[263..265].copy_from_slice(b"00");
	}
	for b in &mut h[148..156] {
		*b = b' ';
	}
	let sum: u32 = h.iter().map(|b| *b as u32).sum();
	h[148..156].copy_from_slice(format!("{sum:06o}\0 ").as_bytes());
	h
}

/// header of a link member (typeflag b'2' symbolic, b'1' hard) pointing to `linkname`
pub fn tar_link_header(name: &str, linkname: &str, typeflag: u8) -> Vec<u8> {
	let mut h = tar_header(name, 0, typeflag, false);
	let lb = linkname.as_bytes();
	assert!(lb.len() <= 100);
	h[157..157 + lb.len()].copy_from_slice(lb);
	for b in &mut h[148..156] {
		*b = b' ';
	}
	let sum: u32 = h.iter().map(|b| *b as u32).sum();
	h[148..156].copy_from_slice(format!("{sum:06o}\0 ").as_bytes());
	h
}

#[derive(Debug, Clone, Copy, PartialEq, Eq, serde::Serialize, serde::Deserialize)]
pub struct TarLayout {
	pub dot_prefix: bool,
	pub dir_entries: bool,
	pub gnu: bool,
	pub reversed: bool,
	pub meta_last: bool,
}
impl TarLayout {
	pub fn all() -> Vec<TarLayout> {
		(0..32u8).map(|f| TarLayout { dot_prefix: f & 1 != 0, dir_entries: f & 2 != 0, gnu: f & 4 != 0, reversed: f & 8 != 0, meta_last: f & 16 != 0 }).collect()
	}
}

pub fn tar_write(members: &[(String, Vec<u8>)], layout: TarLayout) -> Vec<u8> {
	tar_write_impl(members, layout, false)
}

/// like `tar_write`, but a member whose bytes equal those of an earlier member is stored the way GNU tar / bsdtar
/// store further names of one inode: as a hard-link member (typeflag '1', size 0, linkname = the earlier member)
pub fn tar_write_hard_links(members: &[(String, Vec<u8>)], layout: TarLayout) -> Vec<u8> {
	tar_write_impl(members, layout, true)
}

fn tar_write_impl(members: &[(String, Vec<u8>)], layout: TarLayout, hard_links: bool) -> Vec<u8> {
	let mut out = vec![];
	let mut dirs_done = std::collections::BTreeSet::new();
	let mut first_with: std::collections::HashMap<&[u8], &str> = std::collections::HashMap::new();
	for (name, data) in members {
		if layout.dir_entries {
			let parts: Vec<&str> = name.split('/').collect();
			for i in 1..parts.len() {
				let d = format!("{}/", parts[..i].join("/"));
				if d != "./" && dirs_done.insert(d.clone()) {
					out.extend(tar_header(&d, 0, b'5', layout.gnu));
				}
			}
		}
		if hard_links && !data.is_empty() {
			if let Some(first) = first_with.get(data.as_slice()) {
				if *first != name.as_str() {
					out.extend(tar_link_header(name, first, b'1'));
					continue;
				}
			} else {
				first_with.insert(data.as_slice(), name.as_str());
			}
		}
		out.extend(tar_header(name, data.len(), b'0', layout.gnu));
		out.extend_from_slice(data);
		out.extend(std::iter::repeat(0u8).take(data.len().div_ceil(512) * 512 - data.len()));
	}
	out.extend(std::iter::repeat(0u8).take(1024));
	out
}

pub fn format_ext(format: &str) -> &'static str {
	match format {
		"bin" => ".bin",
		"png" => ".png",
		"jpg" => ".jpg",
		"webp" => ".webp",
		"avif" => ".avif",
		"svg" => ".svg",
		"pbf" => ".pbf",
		"geojson" => ".geojson",
		"topojson" => ".topojson",
		"json" => ".json",
		_ => panic!("format"),
	}
}
pub fn comp_ext(comp: u8) -> &'static str {
	match comp {
		0 => "",
		1 => ".gz",
		2 => ".br",
		_ => panic!("comp"),
	}
}

/// Parses "z/x/y.<format>[.gz|.br]" (optionally "./" prefixed). Returns (key, format ext, comp id).
pub fn parse_tile_path(p: &str) -> Option<(Key, String, u8)> {
	let p = p.strip_prefix("./").unwrap_or(p);
	let parts: Vec<&str> = p.split('/').collect();
	if parts.len() != 3 {
		return None;
	}
	let z: u8 = parts[0].parse().ok()?;
	let x: u32 = parts[1].parse().ok()?;
	let mut f = parts[2];
	let mut comp = 0;
	if let Some(s) = f.strip_suffix(".gz") {
		f = s;
		comp = 1;
	} else if let Some(s) = f.strip_suffix(".br") {
		f = s;
		comp = 2;
	}
	let dot = f.find('.')?;
	let y: u32 = f[..dot].parse().ok()?;
	Some(((z, x, y), f[dot..].to_string(), comp))
}

#[derive(Debug, Clone)]
pub struct FilesDecoded {
	pub tiles: TileMap,
	pub format_ext: Option<String>,
	pub compression: Option<u8>,
	pub meta: Option<Vec<u8>>, // decompressed
	pub mixed: bool,
}

pub fn files_decode(files: &[(String, Vec<u8>)]) -> Result<FilesDecoded, String> {
	let mut d = FilesDecoded { tiles: TileMap::new(), format_ext: None, compression: None, meta: None, mixed: false };
	for (path, data) in files {
		let p = path.strip_prefix("./").unwrap_or(path);
		if let Some((k, ext, comp)) = parse_tile_path(p) {
			if d.format_ext.as_ref().is_some_and(|e| *e != ext) || d.compression.is_some_and(|c| c != comp) {
				d.mixed = true;
			}
			d.format_ext = Some(ext);
			d.compression = Some(comp);
			d.tiles.insert(k, data.clone());
			continue;
		}
		for (name, comp) in [("tiles.json", 0u8), ("tiles.json.gz", 1), ("tiles.json.br", 2), ("meta.json", 0), ("meta.json.gz", 1), ("meta.json.br", 2), ("metadata.json", 0), ("metadata.json.gz", 1), ("metadata.json.br", 2)] {
			if p == name {
				d.meta = Some(decode_with(comp, data)?);
			}
		}
	}
	Ok(d)
}

pub fn tar_decode(bytes: &[u8]) -> Result<FilesDecoded, String> {
	let members = tar_read(bytes)?;
	let files: Vec<(String, Vec<u8>)> = members.into_iter().filter(|m| m.typeflag == b'0' || m.typeflag == 0).map(|m| (m.path, m.data)).collect();
	files_decode(&files)
}

pub fn dir_read(root: &Path) -> Result<Vec<(String, Vec<u8>)>, String> {
	fn walk(dir: &Path, prefix: &str, out: &mut Vec<(String, Vec<u8>)>) -> Result<(), String> {
		let mut entries: Vec<_> = std::fs::read_dir(dir).map_err(|e| e.to_string())?.filter_map(|e| e.ok()).collect();
		entries.sort_by_key(|e| e.file_name());
		for e in entries {
			let name = e.file_name().to_string_lossy().to_string();
			let rel = if prefix.is_empty() { name.clone() } else { format!("{prefix}/{name}") };
			let p = e.path();
			if p.is_dir() {
				walk(&p, &rel, out)?;
			} else {
				out.push((rel, std::fs::read(&p).map_err(|e| e.to_string())?));
			}
		}
		Ok(())
	}
	let mut out = vec![];
	walk(root, "", &mut out)?;
	Ok(out)
}

pub fn dir_write(root: &Path, files: &[(String, Vec<u8>)]) -> Result<(), String> {
	for (rel, data) in files {
		let p = root.join(rel.strip_prefix("./").unwrap_or(rel));
		if let Some(parent) = p.parent() {
			std::fs::create_dir_all(parent).map_err(|e| e.to_string())?;
		}
		std::fs::write(&p, data).map_err(|e| e.to_string())?;
	}
	Ok(())
}

// ---------------------------------------------------------------------------------------------
// MBTiles (own SQL, own TMS flip)

#[derive(Debug, Clone)]
pub struct MbDecoded {
	pub tiles: TileMap,
	pub metadata: BTreeMap<String, String>,
}

pub fn mb_decode(path: &Path) -> Result<MbDecoded, String> {
	let conn = rusqlite::Connection::open_with_flags(path, rusqlite::OpenFlags::SQLITE_OPEN_READ_ONLY).map_err(|e| e.to_string())?;
	let mut tiles = TileMap::new();
	{
		let mut st = conn.prepare("SELECT zoom_level, tile_column, tile_row, tile_data FROM tiles").map_err(|e| e.to_string())?;
		let rows = st.query_map([], |r| Ok((r.get::<_, i64>(0)?, r.get::<_, i64>(1)?, r.get::<_, i64>(2)?, r.get::<_, Vec<u8>>(3)?))).map_err(|e| e.to_string())?;
		for r in rows {
			let (z, x, row, data) = r.map_err(|e| e.to_string())?;
			let n = 1i64 << z;
			let y = n - 1 - row; // TMS -> XYZ
			if tiles.insert((z as u8, x as u32, y as u32), data).is_some() {
				return Err("duplicate tile row".into());
			}
		}
	}
	let mut metadata = BTreeMap::new();
	{
		let mut st = conn.prepare("SELECT name, value FROM metadata").map_err(|e| e.to_string())?;
		let rows = st.query_map([], |r| Ok((r.get::<_, String>(0)?, r.get::<_, String>(1)?))).map_err(|e| e.to_string())?;
		for r in rows {
			let (k, v) = r.map_err(|e| e.to_string())?;
			metadata.insert(k, v);
		}
	}
	Ok(MbDecoded { tiles, metadata })
}

#[derive(Debug, Clone, Copy, PartialEq, Eq, serde::Serialize, serde::Deserialize)]
pub struct MbLayout {
	/// tiles is a view over map + images (as written by many tools) instead of a table
	pub view: bool,
	pub extra_metadata: bool,
	pub with_index: bool,
	pub reversed_insert: bool,
}
impl MbLayout {
	pub fn all() -> Vec<MbLayout> {
		(0..16u8).map(|f| MbLayout { view: f & 1 != 0, extra_metadata: f & 2 != 0, with_index: f & 4 != 0, reversed_insert: f & 8 != 0 }).collect()
	}
}

pub fn mb_encode(path: &Path, tiles: &TileMap, format: &str, layout: MbLayout) -> Result<(), String> {
	let _ = std::fs::remove_file(path);
	let conn = rusqlite::Connection::open(path).map_err(|e| e.to_string())?;
	let e = |r: rusqlite::Result<usize>| r.map(|_| ()).map_err(|e| e.to_string());
	conn.execute_batch("CREATE TABLE metadata (name text, value text);").map_err(|e| e.to_string())?;
	if layout.view {
		conn
			.execute_batch(
				"CREATE TABLE map (zoom_level INTEGER, tile_column INTEGER, tile_row INTEGER, tile_id TEXT);
				 CREATE TABLE images (tile_data blob, tile_id text);
				 CREATE VIEW tiles AS SELECT map.zoom_level AS zoom_level, map.tile_column AS tile_column, map.tile_row AS tile_row, images.tile_data AS tile_data FROM map JOIN images ON images.tile_id = map.tile_id;",
			)
			.map_err(|e| e.to_string())?;
	} else {
		conn.execute_batch("CREATE TABLE tiles (zoom_level integer, tile_column integer, tile_row integer, tile_data blob);").map_err(|e| e.to_string())?;
	}
	let mut list: Vec<(&Key, &Vec<u8>)> = tiles.iter().collect();
	if layout.reversed_insert {
		list.reverse();
	}
	let mut image_ids: BTreeMap<&Vec<u8>, String> = BTreeMap::new();
	for (k, data) in list {
		let row = (1i64 << k.0) - 1 - k.2 as i64;
		if layout.view {
			let next = format!("img{}", image_ids.len());
			let id = match image_ids.get(data) {
				Some(id) => id.clone(),
				None => {
					e(conn.execute("INSERT INTO images (tile_data, tile_id) VALUES (?1, ?2)", rusqlite::params![data, next]))?;
					image_ids.insert(data, next.clone());
					next
				}
			};
			e(conn.execute("INSERT INTO map (zoom_level, tile_column, tile_row, tile_id) VALUES (?1, ?2, ?3, ?4)", rusqlite::params![k.0, k.1, row, id]))?;
		} else {
			e(conn.execute("INSERT INTO tiles (zoom_level, tile_column, tile_row, tile_data) VALUES (?1, ?2, ?3, ?4)", rusqlite::params![k.0, k.1, row, data]))?;
		}
	}
	if layout.with_index {
		if layout.view {
			conn.execute_batch("CREATE UNIQUE INDEX map_index ON map (zoom_level, tile_column, tile_row);").map_err(|e| e.to_string())?;
		} else {
			conn.execute_batch("CREATE UNIQUE INDEX tile_index ON tiles (zoom_level, tile_column, tile_row);").map_err(|e| e.to_string())?;
		}
	}
	let mut md = vec![("name", "independent".to_string()), ("format", format.to_string())];
	if layout.extra_metadata {
		md.push(("generator", "vcommon".into()));
		md.push(("scheme", "tms".into()));
		// the json row is defined for vector tile sets only; other sets may carry any further rows, also one of this
		// name (tools write statistics or nested metadata into it)
		if format != "pbf" {
			md.push(("json", "{\"tilestats\":{\"layerCount\":0}}".into()));
		}
		md.push(("minzoom", tiles.keys().map(|k| k.0).min().unwrap_or(0).to_string()));
		md.push(("maxzoom", tiles.keys().map(|k| k.0).max().unwrap_or(0).to_string()));
	}
	for (k, v) in md {
		e(conn.execute("INSERT INTO metadata (name, value) VALUES (?1, ?2)", rusqlite::params![k, v]))?;
	}
	Ok(())
}
