//! Work distribution: run a closure over an indexed case list on N OS threads, deterministic
//! case numbering (results are keyed by index, so verdicts do not depend on thread timing).

use std::sync::atomic::{AtomicUsize, Ordering};
use std::sync::Arc;

pub fn threads() -> usize {
	std::env::var("VERIF_THREADS").ok().and_then(|s| s.parse().ok()).unwrap_or_else(|| {
		std::thread::available_parallelism().map(|n| n.get()).unwrap_or(4)
	})
}

/// Runs `f(i)` for i in 0..n on worker threads.
pub fn par_for<F>(n: usize, f: F)
where
	F: Fn(usize) + Send + Sync,
{
	let next = Arc::new(AtomicUsize::new(0));
	let f = &f;
	std::thread::scope(|s| {
		for _ in 0..threads().min(n.max(1)) {
			let next = next.clone();
			s.spawn(move || loop {
				let i = next.fetch_add(1, Ordering::Relaxed);
				if i >= n {
					break;
				}
				f(i);
			});
		}
	});
}

/// Panic capture: runs `f`, returns Err(message with location) if it panicked.
pub fn catch<T>(f: impl FnOnce() -> T) -> Result<T, String> {
	match std::panic::catch_unwind(std::panic::AssertUnwindSafe(f)) {
		Ok(v) => Ok(v),
		Err(_) => Err(take_last_panic()),
	}
}

thread_local! {
	static LAST_PANIC: std::cell::RefCell<Option<String>> = const { std::cell::RefCell::new(None) };
}

static GLOBAL_LAST_PANIC: std::sync::Mutex<Option<String>> = std::sync::Mutex::new(None);

/// Installs a panic hook that records "file:line: message" instead of printing.
pub fn install_quiet_panic_hook() {
	std::panic::set_hook(Box::new(|info| {
		let loc = info.location().map(|l| format!("{}:{}", l.file(), l.line())).unwrap_or_else(|| "?".into());
		let msg = if let Some(s) = info.payload().downcast_ref::<&str>() {
			s.to_string()
		} else if let Some(s) = info.payload().downcast_ref::<String>() {
			s.clone()
		} else {
			"<non-string panic>".to_string()
		};
		let text = format!("{loc}: {msg}");
		LAST_PANIC.with(|p| *p.borrow_mut() = Some(text.clone()));
		*GLOBAL_LAST_PANIC.lock().unwrap_or_else(|e| e.into_inner()) = Some(text);
		if let Some(v) = std::env::var_os("VERIF_SHOW_PANICS") {
			eprintln!("panic [{:?}]: {loc}: {msg}", std::thread::current().name());
			if v == "2" {
				eprintln!("{}", std::backtrace::Backtrace::force_capture());
			}
		}
	}));
}

pub fn take_last_panic() -> String {
	LAST_PANIC.with(|p| p.borrow_mut().take()).unwrap_or_else(|| "<panic without record>".into())
}

/// Last panic recorded on *any* thread (for panics inside tokio worker tasks).
pub fn take_global_panic() -> Option<String> {
	GLOBAL_LAST_PANIC.lock().unwrap_or_else(|e| e.into_inner()).take()
}

/// Location part ("file:line") of a recorded panic, with the /repo prefix stripped.
pub fn panic_site(p: &str) -> String {
	let loc = p.split(": ").next().unwrap_or(p);
	loc.trim_start_matches("/repo/").to_string()
}
