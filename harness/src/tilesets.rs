//! Tile-set construction: explicit-state BFS from the empty set by "add (coordinate, payload)"
//! over a collision-forcing alphabet; canonical form = sorted map. Plus named big families.

use crate::memsource::{Key, TileMap};
use std::collections::BTreeSet;

/// 14 coordinates: level 0, all of level 1, level 3, both sides of the 256 block grid at level 9,
/// two far-apart blocks at level 10 (a missing block in between).
pub fn coord_alphabet() -> Vec<Key> {
	vec![
		(0, 0, 0),
		(1, 0, 0),
		(1, 1, 0),
		(1, 0, 1),
		(1, 1, 1),
		(3, 1, 2),
		(9, 255, 255),
		(9, 256, 255),
		(9, 255, 256),
		(9, 256, 256),
		(9, 0, 511),
		(9, 511, 0),
		(10, 5, 5),
		(10, 700, 5),
	]
}

pub fn lcg_bytes(seed: u64, len: usize) -> Vec<u8> {
	let mut s = seed.wrapping_mul(6364136223846793005).wrapping_add(1442695040888963407);
	(0..len)
		.map(|_| {
			s = s.wrapping_mul(6364136223846793005).wrapping_add(1442695040888963407);
			(s >> 33) as u8
		})
		.collect()
}

/// 5 payloads around the 1000-byte de-duplication threshold; index 1 and 2 differ, equal indices are equal.
pub fn payload_alphabet() -> Vec<Vec<u8>> {
	vec![vec![b'a'], lcg_bytes(1, 999), lcg_bytes(2, 999), lcg_bytes(3, 1000), lcg_bytes(4, 1001)]
}

pub fn big_payloads() -> Vec<Vec<u8>> {
	vec![lcg_bytes(9, 70 * 1024), vec![0x55u8; 100 * 1024]]
}

pub type SetSpec = Vec<(u8, u8)>; // (coordinate index, payload index), sorted by coordinate index

pub fn materialize(spec: &SetSpec) -> TileMap {
	let cs = coord_alphabet();
	let ps = payload_alphabet();
	spec.iter().map(|(c, p)| (cs[*c as usize], ps[*p as usize].clone())).collect()
}

pub struct Bfs {
	pub states: Vec<SetSpec>, // in BFS order (by depth, then lexicographic): simplest first
	pub transitions: u64,
}

/// BFS from the empty set; a transition adds one (coordinate, payload) for a coordinate not yet present.
pub fn bfs_sets(max_depth: usize, include_empty: bool) -> Bfs {
	let nc = coord_alphabet().len() as u8;
	let np = payload_alphabet().len() as u8;
	let mut seen: BTreeSet<SetSpec> = BTreeSet::new();
	let mut frontier: Vec<SetSpec> = vec![vec![]];
	seen.insert(vec![]);
	let mut states = vec![];
	if include_empty {
		states.push(vec![]);
	}
	let mut transitions = 0u64;
	for _ in 0..max_depth {
		let mut next: Vec<SetSpec> = vec![];
		for s in &frontier {
			for c in 0..nc {
				if s.iter().any(|(sc, _)| *sc == c) {
					continue;
				}
				for p in 0..np {
					let mut t = s.clone();
					t.push((c, p));
					t.sort();
					transitions += 1;
					if seen.insert(t.clone()) {
						next.push(t);
					}
				}
			}
		}
		next.sort();
		states.extend(next.iter().cloned());
		frontier = next;
	}
	Bfs { states, transitions }
}

/// Whether a set touches the shortcuts the alphabet aims at (>= 2 blocks at one level, duplicate
/// payloads, payloads on both sides of the 1000-byte threshold, or a zoom gap).
pub fn is_nontrivial(spec: &SetSpec) -> bool {
	let cs = coord_alphabet();
	let keys: Vec<Key> = spec.iter().map(|(c, _)| cs[*c as usize]).collect();
	let blocks: BTreeSet<(u8, u32, u32)> = keys.iter().map(|k| (k.0, k.1 / 256, k.2 / 256)).collect();
	let levels: BTreeSet<u8> = keys.iter().map(|k| k.0).collect();
	let multi_block = levels.iter().any(|z| blocks.iter().filter(|b| b.0 == *z).count() >= 2);
	let dup = spec.iter().enumerate().any(|(i, a)| spec.iter().skip(i + 1).any(|b| a.1 == b.1));
	let thresh = spec.iter().any(|s| s.1 <= 2) && spec.iter().any(|s| s.1 >= 3);
	let gap = levels.len() >= 2 && {
		let lo = *levels.iter().next().unwrap();
		let hi = *levels.iter().last().unwrap();
		(lo..=hi).any(|z| !levels.contains(&z))
	};
	multi_block || dup || thresh || gap
}

pub fn family_dense(z: u8, x0: u32, y0: u32, w: u32, h: u32, payload_len: usize) -> TileMap {
	let mut m = TileMap::new();
	for y in y0..y0 + h {
		for x in x0..x0 + w {
			let mut v = format!("{z}/{x}/{y};").into_bytes();
			while v.len() < payload_len {
				v.push((x * 31 + y * 17 + v.len() as u32) as u8);
			}
			m.insert((z, x, y), v);
		}
	}
	m
}

pub fn family_full_pyramid(zmax: u8) -> TileMap {
	let mut m = TileMap::new();
	for z in 0..=zmax {
		m.extend(family_dense(z, 0, 0, 1 << z, 1 << z, 20));
	}
	m
}

/// Probe coordinates: the alphabet, the 8 neighbours of every key of `tiles`, and extra corners.
pub fn probe_coords(tiles: &TileMap) -> Vec<Key> {
	let mut s: BTreeSet<Key> = coord_alphabet().into_iter().collect();
	for &(z, x, y) in tiles.keys().take(64) {
		let n = 1i64 << z;
		for dx in -1i64..=1 {
			for dy in -1i64..=1 {
				let (nx, ny) = (x as i64 + dx, y as i64 + dy);
				if nx >= 0 && ny >= 0 && nx < n && ny < n {
					s.insert((z, nx as u32, ny as u32));
				}
			}
		}
	}
	for z in [0u8, 2, 8, 9, 11, 31] {
		let n = ((1u64 << z) - 1) as u32;
		s.insert((z, 0, 0));
		s.insert((z, n, n));
	}
	s.extend(tiles.keys().copied());
	s.into_iter().collect()
}
