#!/usr/bin/env python3
"""keep_seed.py <Cxx> <mK> <detected:yes|no> <check-tier> <signature-or-note...>: copy a confirmed seeded change into /verif/seeded/."""
import json, os, shutil, sys
pid, m, detected, tier = sys.argv[1:5]
note = " ".join(sys.argv[5:])
src = f"/tmp/seeded_out/{pid}/{m}"
dst = f"/verif/seeded/{pid}-{m}"
conf = json.load(open(src + "/confirm.json"))
assert conf["confirmed"], "not confirmed"
os.makedirs(dst, exist_ok=True)
shutil.copy(src + "/patch.diff", dst + "/patch.diff")
for f in ("demo.rs", "demo.sh"):
    if os.path.exists(f"{src}/{f}"): shutil.copy(f"{src}/{f}", f"{dst}/{f}")
meta = json.load(open(src + "/meta.json"))
out = {
 "property": pid,
 "summary": meta.get("summary"),
 "needs_to_manifest": meta.get("needs_to_manifest"),
 "demo": meta.get("demo"),
 "author": "independent sub-agent given only the property text and a scratch worktree",
 "confirmed_by_me": {
   "how": "tools/confirm_seed.sh in the scratch worktree: git apply; demo with change; cargo nextest run --workspace (failing set compared with BASELINE always_fail); revert; demo without change",
   "demo_exit_with_change": conf["demo_exit_with_change"],
   "demo_exit_without_change": conf["demo_exit_without_change"],
   "new_failing_existing_tests": conf["new_failing_existing_tests"],
   "suite_summary_with_change": conf["suite_summary_with_change"],
 },
 "check_result": {"ran": f"tools/try_seed.sh seeded/{pid}-{m}/patch.diff {pid} {tier}", "detected": detected == "yes", "detail": note},
}
json.dump(out, open(dst + "/meta.json", "w"), indent=1)
print("kept", dst)
