#!/bin/bash
# usage: tools/run_thorough.sh [tier] <Cxx>...   runs the given checks one after the other; each build happens
# under /tmp/verif-repo.lock (shared with tools/try_seed.sh) so that it never sees a seeded change.
ROOT="$(cd "$(dirname "$0")/.." && pwd)"
TIER=thorough
case "${1:-}" in quick|thorough) TIER="$1"; shift;; esac
cd "$ROOT"
for id in "$@"; do
  echo "=== $id $(date +%T)"
  ( flock 9; ./setup.sh >/dev/null 2>&1 ) 9>/tmp/verif-repo.lock
  VERIF_SKIP_BUILD=1 /usr/bin/time -f "wall=%es maxrss=%MKB" ./check "$id" "$TIER" 2>&1 | grep -vE '^\s*$' | cut -c1-300 | tail -12
done
echo "=== done $(date +%T)"
