#!/bin/bash
# usage: confirm_seed.sh <Cxx> <mK>   (in scratch worktree /tmp/wt/<Cxx>; writes /tmp/seeded_out/<Cxx>/<mK>/confirm.json)
# Confirms: patch applies+compiles, workspace tests have the same failing set as the baseline list,
# demo fails with the change and passes without it.
set -u
ID="$1"; M="$2"; DEMOARG="${3:-}"; WT="/tmp/wt/$ID"; OUT="/tmp/seeded_out/$ID/$M"
cd "$WT" || exit 2
git checkout -q -- . ; git clean -fdq -e target
CRATE=$(grep -o 'versatiles[a-z_]*/tests/demo.rs' "$OUT/meta.json" | head -1 | cut -d/ -f1)
[ -f "$OUT/demo.rs" ] || CRATE=""
python3 - > /tmp/baseline_fail_$ID.txt <<'P'
import json
for t in sorted(json.load(open('/root/.vp/BASELINE.json'))['always_fail']): print(t)
P
run_demo() {
  if [ -n "$CRATE" ]; then
    cp "$OUT/demo.rs" "$WT/$CRATE/tests/demo.rs" 2>/dev/null || { mkdir -p "$WT/$CRATE/tests"; cp "$OUT/demo.rs" "$WT/$CRATE/tests/demo.rs"; }
    cargo test --offline -p "$CRATE" --test demo > "$OUT/$1.log" 2>&1; RC=$?
    rm -f "$WT/$CRATE/tests/demo.rs"
  else
    ( cd "$WT" && cargo build --offline --bin versatiles > "$OUT/$1.build.log" 2>&1 )
    bash "$OUT/demo.sh" $DEMOARG > "$OUT/$1.log" 2>&1; RC=$?
  fi
  echo $RC
}
git apply "$OUT/patch.diff" || { echo '{"applies": false}' > "$OUT/confirm.json"; exit 1; }
DEMO_WITH=$(run_demo demo_with)
cargo nextest run --workspace --no-fail-fast --offline --test-threads 8 > "$OUT/suite_with.log" 2>&1
grep -E '^\s+(FAIL|SIGABRT|SIGSEGV|TIMEOUT|LEAK-FAIL)' "$OUT/suite_with.log" | sed -E 's/^\s+\S+ \[[^]]*\] +\([^)]*\) +//' | sed -E 's/ +/::/' | sort -u > "$OUT/suite_fail.txt"
NEWFAIL=$(comm -23 "$OUT/suite_fail.txt" /tmp/baseline_fail_$ID.txt | tr '\n' ' ')
SUMMARY=$(grep -E 'Summary' "$OUT/suite_with.log" | tail -1)
git checkout -q -- . ; git clean -fdq -e target
DEMO_WITHOUT=$(run_demo demo_without)
python3 - "$OUT" "$DEMO_WITH" "$DEMO_WITHOUT" "$NEWFAIL" "$SUMMARY" "$CRATE" <<'P'
import json,sys
out,dw,dwo,newfail,summary,crate=sys.argv[1:7]
json.dump({"applies":True,"demo_exit_with_change":int(dw),"demo_exit_without_change":int(dwo),"new_failing_existing_tests":newfail.split(),"suite_summary_with_change":summary.strip(),"demo_crate":crate,
 "confirmed": int(dw)!=0 and int(dwo)==0 and not newfail.split()}, open(out+"/confirm.json","w"), indent=1)
print(open(out+"/confirm.json").read())
P
