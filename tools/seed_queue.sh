#!/bin/bash
# usage: tools/seed_queue.sh   works through /tmp/seedq (lines "<Cxx> <k>"), one seed_cycle at a time, until /tmp/seedq.stop exists
ROOT="$(cd "$(dirname "$0")/.." && pwd)"
touch /tmp/seedq
while [ ! -e /tmp/seedq.stop ]; do
  line=$(head -1 /tmp/seedq)
  if [ -z "$line" ]; then sleep 15; continue; fi
  sed -i 1d /tmp/seedq
  "$ROOT/tools/seed_cycle.sh" $line >> /tmp/seedq.log 2>&1
done
