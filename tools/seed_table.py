#!/usr/bin/env python3
"""Regenerates the seeds table of DESIGN.md (between the markers) from seeded/*/meta.json."""
import json, glob, os, re
rows = []
for d in sorted(glob.glob('/verif/seeded/*')):
    m = json.load(open(d + '/meta.json'))
    name = os.path.basename(d)
    summ = (m.get('summary') or '').replace('\n', ' ').replace('|', '/')
    det = (m['check_result'].get('detail') or '').replace('\n', ' ').replace('|', '/')
    if len(summ) > 170: summ = summ[:170] + '…'
    rows.append(f"| {name} | {summ} | {det} |")
table = "| seed | change | detected by (quick tier) |\n|---|---|---|\n" + "\n".join(rows) + "\n"
p = '/verif/DESIGN.md'
s = open(p).read()
a, b = '<!-- seeds-table-begin -->\n', '<!-- seeds-table-end -->\n'
if a in s:
    s = s[:s.index(a) + len(a)] + table + s[s.index(b):]
else:
    # first use: replace the existing table
    start = s.index('| seed | change | detected by (quick tier) |')
    end = start
    for line in s[start:].splitlines(keepends=True):
        if not line.startswith('|'): break
        end += len(line)
    s = s[:start] + a + table + b + s[end:]
open(p, 'w').write(s)
print(len(rows), 'rows')
