#!/bin/bash
# usage: tools/regress_seeds.sh [seed-dir-name...]   runs every kept seeded change against the quick check that is
# recorded as detecting it (meta.json check_result.detecting_check, else the check of its own property) and lists
# the outcome: "exit=1 <signature>" = still detected.
ROOT="$(cd "$(dirname "$0")/.." && pwd)"
cd "$ROOT"
SEEDS=("$@"); [ ${#SEEDS[@]} -eq 0 ] && SEEDS=($(ls seeded))
for s in "${SEEDS[@]}"; do
  id=$(python3 -c "import json,sys;m=json.load(open('$ROOT/seeded/$s/meta.json'));print(m.get('check_result',{}).get('detecting_check') or '${s%%-*}')")
  out=$(tools/try_seed.sh "$ROOT/seeded/$s/patch.diff" "$id" quick 2>&1)
  rc=$(echo "$out" | grep -o '^exit=[0-9]*' | head -1)
  sig=$(echo "$out" | grep -m1 'signature:' | cut -c1-140)
  echo "$s $id $rc $sig"
done
echo "=== regress done $(date +%T)"
