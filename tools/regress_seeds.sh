#!/bin/bash
# usage: tools/regress_seeds.sh [seed-dir-name...]   runs every kept seeded change against the quick check of its
# property (and, where meta.json says another check is the detecting one, that check) and lists the outcome.
ROOT="$(cd "$(dirname "$0")/.." && pwd)"
cd "$ROOT"
SEEDS=("$@"); [ ${#SEEDS[@]} -eq 0 ] && SEEDS=($(ls seeded))
for s in "${SEEDS[@]}"; do
  id="${s%%-*}"
  out=$(tools/try_seed.sh "$ROOT/seeded/$s/patch.diff" "$id" quick 2>&1)
  rc=$(echo "$out" | grep -o '^exit=[0-9]*' | head -1)
  sig=$(echo "$out" | grep -m1 'signature:' | cut -c1-140)
  echo "$s $id $rc $sig"
done
echo "=== regress done $(date +%T)"
