#!/usr/bin/env python3
"""Generates /verif/MANIFEST.json from the table below (single source of truth)."""
import json, os, subprocess
ROOT = os.path.dirname(os.path.dirname(os.path.abspath(__file__)))

ALL = ["C%02d" % i for i in range(1, 21)]

# id -> (category, technique, level text, level note, design ref, engine)
CHECKS = {
 "C06": ("model_checking",
         "bounded-exhaustive enumeration of option combinations (flags x zoom limits x geographic boxes x border) over sources whose payloads spell their coordinate; converting reader, written container, CLI and server compared with a selection/relocation model",
         "2 sources (full pyramid z0..3; sparse asymmetric set z0..4) x 4 flag combinations x zoom limits {none,(0,0),(1,2),(2,1),(3,9)} x geographic boxes of the C15 lon/lat alphabet (every 9th in quick = 25k configurations, all 8190 boxes in thorough) x border {none,0,1,3}: TilesConvertReader lookups over every coordinate z<=4, streams over every advertised level and (every 5th configuration) a full conversion into a versatiles container decoded independently. A tile is at c iff c is selected (zoom range, tile box of the geographic box widened by the border, 1e-6-tile don't-care band) and the source has a tile at T^-1(c) (flip first, then swap); its payload names T^-1(c); lookups, streams and advertised coverage agree. CLI: `versatiles convert` with option combinations (28 runs quick / 80 thorough) decoded independently; `versatiles serve` with each flag combination must expose the conversion's mapping.",
         "The selection model mirrors the documented option semantics (full pyramid, zoom limits, geographic box, border per level). Target formats other than versatiles are covered for round trips by C01/C04.",
         "3/C06", "E-enum + E-http"),
 "C07": ("model_checking",
         "exhaustive enumeration of raw request targets (all segment sequences up to length 4/5 over a 13-segment alphabet, with/without trailing slash) against the real server binary for folder and tar roots, at / and under URL prefixes",
         "Every sequence of <= 4 (quick; <= 5 thorough) segments over {a.txt, d, e.txt, canary.txt, ., .., empty, %2e%2e, %2E., ..%2f, %5c.., root name, sibling name}, with and without trailing slash, plus absolute-path smuggling and encoded-traversal targets, is sent as a raw request target to four mounts (folder at /, tar at /, folder under /assets, tar under /tarassets) - 248k requests. A 200 body (decoded by Content-Encoding) must equal the file inside the root that the path resolves to and must never contain one of five canaries placed next to, above and beside the root (incl. a sibling directory whose name starts with the root's name); plain paths to existing files must be served; every answer is a complete response.",
         "File-system resolution is modelled lexically (the fixture has no symlinks); the server does not percent-decode, so encoded segments are literal names. Symlinks inside the root are outside the quantifier.",
         "3/C07", "E-http"),
 "C05": ("model_checking",
         "bounded-exhaustive enumeration of HTTP requests (Accept-Encoding subsets/orders/case/weights x coordinate classes x extensions x server modes) against the real server binary through a raw socket client",
         "The real `versatiles serve` binary is started in 7 modes (best, --fast, --flip-y, --swap-xy, --override-input-compression gzip alone / with --flip-y / with --swap-xy --fast) over 8 sources (versatiles x 3 stored compressions x {pbf,png}, mbtiles, pmtiles); per source: Accept-Encoding absent + all 32 subsets of {gzip,br,deflate,identity,zstd} + 10 reversed pairs, x 3 letter cases x 3 weight forms; 30 coordinate classes (stored, absent, x/y = 2^z, 2^32-1, 2^32, z 31/32/255/256, non-numeric, negative, spaces, encoded) x 4 extensions x 3 Accept-Encoding values; 9 degenerate paths; every request twice on keep-alive connections (43k requests). 200 iff the source holds the tile; body decoded by Content-Encoding equals the stored tile decoded; Content-Type is the media type; Content-Encoding absent or offered by the client; otherwise 404 (400 for non-numeric; either for z 32..255) as a complete response, never a dropped connection.",
         "A y part like '1.5' or '1e2' is read as y with an extension and is judged only for 'complete response'. The binary is built in the repository's own dev profile (overflow checks on).",
         "3/C05", "E-http"),
 "C17": ("model_checking",
         "exhaustive enumeration of the string alphabet (every Unicode scalar value) and bounded-exhaustive enumeration of values/documents, each through the real serialiser, the real parser and a standard JSON parser; TileJSON through the real writers/readers and the real server",
         "All 1,112,064 one-character strings, all 8421 strings of length <= 3 over 20 escape-class characters (also as object keys), 36 boundary numbers, all nested values of depth <= 2 / width <= 2 over 7 leaves (27k) plus a stride of depth 3: stringify -> parse gives the same value and serde_json reads the same value from the text. 6 TileJSON documents (escapes, lists, byte values, bounds, center, vector_layers with fields/description/zooms) x {versatiles, pmtiles, tar, directory} x 3 compressions: the metadata stored in the file (independently decoded) and the re-opened reader's TileJSON equal the given document, zoom range and bounds only narrowed. tiles.json and meta.json of 4 sources served by the real binary: valid JSON, carries the metadata, a tiles template for the id, zoom range and bounds of the stored coverage.",
         "serde_json is the standard parser; where it refuses a long digit string as 'out of range' the RFC 8259 number grammar and Rust's float parser decide instead. Numbers compared as f64.",
         "3/C17", "E-enum + E-http"),
 "C18": ("model_checking",
         "bounded-exhaustive enumeration of programs: syntax trees rendered with 0/1/2 deviations, all strings up to length 6/7 over an 11-symbol alphabet against a reference recursive-descent parser, and operation texts through the factory",
         "1812 (quick) syntax trees (pipelines of 1-3 of 12 node shapes with bare/quoted/escaped/list values, 0-2 nested sources incl. a second nesting level) are rendered canonically, with every single deviation (4 whitespace variants at each optional site, quoting of each bare value) and every pair of deviations for the first 1500 trees (7 M texts): the guarded parse_vpl must return exactly the tree. Every string of length <= 6 (1.9 M; <= 7 = 21 M in thorough) over a 1 k = \" \\ [ ] , | space and all single-character edits of two valid texts: parse_vpl and the reference parser of the documented grammar must both reject or both accept with equal trees. Factory: 9 valid and 33 invalid operation texts (unknown names, misplaced operations, missing/mistyped/out-of-range/wrong-arity parameters) and 12 orderings of non-commuting stages (built pipeline applies operations in written order).",
         "Constructs the documentation is silent about (repeated keys, empty lists, trailing separators, empty quoted strings) are not judged; unknown parameter names and non-boolean text for boolean flags are silently ignored by the implementation and are not judged either. Uses the guarded re-export hook of the parser.",
         "3/C18", "E-enum"),
 "C09": ("model_checking",
         "bounded-exhaustive enumeration of filter chains (all 81 zoom min/max pairs, lon/lat-alphabet boxes, chains of 2 and 3) x sources x probe coordinates, with a set-model oracle that leaves a 1e-6-tile don't-care band",
         "Every (min,max) over {absent,0,1,2,3,5,31,32,255}, single filter_bbox over the valid boxes of the C15 lon/lat alphabet (every 7th in quick, all 8190 in thorough; points, slivers, antimeridian and pole touching), zoom x bbox, bbox x bbox and 3-filter chains over representative boxes, zoom x zoom chains - over a MemSource (full z0..4, sparse z5, both corners of z31), from_debug and a real versatiles file: every probe coordinate is looked up and whole levels are streamed; a tile passes unchanged iff it is in every retained zoom range and definitely inside every geographic box (definitely outside => absent; within the rounding guard => not asserted). 19 invalid argument texts (reversed, out of range, wrong arity, nan/inf, text, negative/oversized zoom) must be errors at build time, never panics.",
         "min > max may be an empty result or a build error. The geographic oracle uses the harness's own Mercator projection with a band of 1e-6 tile plus float slack.",
         "3/C09", "E-enum"),
 "C08": ("model_checking",
         "exhaustive enumeration of source/coordinate assignments ((2^k)^n) for k=2..4 sources over two coordinate families, with compression assignments and delayed sources; first-source-wins oracle on lookups and streams",
         "For k=2,3,4 sources every assignment 'which sources hold coordinate i' is built for two coordinate families (both sides of the 32-sub-box and 256-block borders at two zoom levels; a sparse-wide level with holes) - 16.9k overlays in quick - with payloads that spell source and coordinate, compression assignments (all equal, all mixed pairs, a mixed triple), sources that answer and open with different delays (first slowest) and every fifth overlay nested in filter_zoom; lookups on the coordinates and their neighbours and streams over levels and boxes must return exactly the first listed source's payload, in the declared (common or none) compression, absent iff no source has it, inside the advertised coverage. The same through real versatiles/pmtiles/tar/mbtiles files (3 assignments in quick, 256 in thorough).",
         "Coordinate families are fixed (4-6 coordinates); k=4 uses 3 coordinates in quick. 'Coverage is the union' is checked as containment of every returned tile.",
         "3/C08", "E-enum"),
 "C11": ("model_checking",
         "bounded-exhaustive enumeration (tile catalogue x data tables x all option combinations x layer name x source compression) against a reference join on the independently decoded form",
         "26 catalogue tiles (C10's plus tiles around the named layer: ids as string/int64/sint64/uint64, float vs double, unknown geometry type, duplicate keys and values, unused entries, an untouched second layer, and all key tables of length <= 3 over {id,k}) x 4 data tables x all 8 option combinations x layer name present/absent x source compression (one per cell in quick, all three in thorough) run through the real pipeline stage, lookup and stream; the output is decoded by the harness's own protobuf decoder and must equal the reference join: other layers untouched, id/geometry type/geometry bytes/order of retained features preserved, property sets as joined. Every catalogue tile also goes through VectorTile::from_blob -> to_blob and must keep its decoded content.",
         "The catalogue is a representative alphabet, closed only for key tables up to length 3 over two names. Integer kinds (int64/sint64/uint64) are compared by numeric value; the CSV cell typing follows the operation's documented rule (numbers, true/false, text).",
         "3/C11", "E-enum"),
 "C10": ("model_checking",
         "bounded-exhaustive enumeration of ordered source lists over a catalogue of independently encoded vector tiles x all presence patterns, with a reference merge on the independently decoded form",
         "Every ordered pair of 12 catalogue tiles (and every ordered triple: first 6 in quick, all 12 plus 4-tuples over 4 in thorough) is a source list of from_vectortiles_merged; each source holds its tile at one coordinate per presence mask so all 2^k presence patterns occur; sources have mixed compressions and answer with different delays. The merged tile is decoded by the harness's own protobuf decoder and must have exactly the union of layer names, each layer the concatenation of the sources' features in source order with id, geometry type, geometry bytes and property set intact; absent iff no source has a tile; declared and delivered uncompressed; stream = lookups.",
         "Catalogue of 12 tiles is a representative alphabet (tables with duplicates/unused entries/other order, all value kinds, ids 0 and 2^64-1, extents, empty layer); layer order inside a tile is not compared (HashMap iteration). Differing extents: geometry bytes are compared, not rescaled.",
         "3/C10", "E-enum"),
 "C04": ("model_checking",
         "exhaustive enumeration of the configuration space (source compression x target x force x format; input x allowed set x goal) with an independent decode oracle",
         "All 120 conversion configurations (3 source compressions x {keep,none,gzip,brotli} x force flag x 5 target formats, MBTiles for its legal pairs) are run through TilesConvertReader and the real writers on a multi-thread runtime over five payloads (1 B .. 300 KiB, incompressible and highly compressible); every output tile is decoded with the compression the output declares by the harness's own gzip/brotli calls and must equal the source payload; the bytes must really be in the declared encoding; metadata must survive. All 3x3 recompress pairs and all 3 x 8 x 3 optimize_compression cells per payload: result in the allowed set, payload preserved, no failure when 'uncompressed' is allowed, no recompression when marked incompressible.",
         "The configuration space is closed; the payload dimension is five representatives. flate2/brotli are trusted.",
         "3/C04", "E-enum"),
 "C16": ("model_checking",
         "bounded-exhaustive enumeration of encoder layout choices (independent spec encoders) x BFS tile-set states; every produced container opened, looked up, coverage-checked and streamed with the real readers",
         "The harness's own encoders for versatiles v02 (96 layouts: partial/full/margin block coverage, block and tile order, shared ranges, padding, no metadata), PMTiles v3 (112 layouts: run lengths, shared offsets, 0-2 leaf levels with tiny leaves, uncompressed/gzip directories, unclustered data), MBTiles (16: tiles as view over map/images, extra metadata, no index, TMS rows, zoom gaps), tar (32: ./ prefix, directory entries, ustar/GNU, order) and directories with foreign files are run over every BFS tile set to depth 2 (all layouts for depth<=1 and the named families, a spread of layouts for depth 2 in quick, all in thorough); the repository's readers must open each, return exactly the encoded tiles, advertise the exact coverage (containment for versatiles) and stream it without failure.",
         "The encoders are the harness's reading of the published layouts (cross-checked: the harness's decoders read the repository's files in C01 and the harness's own files here). Layout freedoms not enumerated: PMTiles zstd/brotli internal compression, tar pax headers, MBTiles gzip detection.",
         "3/C16", "E-enum"),
 "C03": ("model_checking",
         "bounded-exhaustive enumeration: BFS tile-set states plus all non-empty subsets of small grids x 5 formats; advertised pyramid compared with the set of tiles lookups return",
         "Every BFS tile set to depth 2, every non-empty subset of a 5x2 (quick) / 5x3 (thorough) grid at z=3 and of a 3x3 / 4x3 grid at z=4 rows 9..11, single tiles at level 0 and the far corner of level 31, zoom gaps, each written to all five formats by the repository's writers and re-opened: every tile found by lookups over a probe superset must lie in the advertised pyramid, and for mbtiles/pmtiles/tar/directory every level box must equal the bounding box of the tiles (empty iff none). Pipelines over sources with different pyramids: containment.",
         "Exactness is asserted only for the four formats the property names; for versatiles and pipelines only containment. Probe superset = all coordinates z<=3, the tile-set alphabet, the 8 neighbours of stored tiles and level corners.",
         "3/C03", "E-enum"),
 "C02": ("model_checking",
         "bounded-exhaustive enumeration of (source, box) pairs against the lookup oracle: all boxes at low zoom, all boxes over a border alphabet at high zoom, all empty encodings; streams executed on a real multi-thread runtime",
         "For 55 sources (five container readers over six representative tile sets written by the repository's writers, the converting reader with all 4 flag combinations restricted and unrestricted over a MemSource and a versatiles file, eight pipelines incl. overlays, filters, nestings, from_debug and a real file) every box at z<=2 (quick) / z<=3 (thorough), every box with corners from {0,255,256,511,coverage edges (+-1),max} at the sets' high zoom levels and every empty encoding at levels 0,1,7,8,9,31 is streamed; the multiset of streamed tiles must equal the lookups inside the box, nothing outside, no panic.",
         "The source dimension is a representative list, not closed; boxes above 4096 tiles are compared on the universe of coordinates that can hold a tile; readers that use the trait's default lookup-loop stream are not given boxes above 300k tiles. Interleavings of the parallel stream stages are C14's subject; here they run free on a 4-worker runtime.",
         "3/C02", "E-enum"),
 "C01": ("model_checking",
         "explicit-state BFS over tile sets (add-one-tile transitions, canonical sorted map) x formats x (format, compression) pairs; every state written by the real writer and decided by the real reader and an independent spec decoder",
         "Every tile set reachable by adding up to 2 (quick) / 3 (thorough) tiles from a 14-coordinate x 5-payload alphabet (both sides of the 256 block grid, zoom gaps, duplicate payloads, 999/1000/1001 bytes) is written to all five formats; lookups on a probe set, streams over every advertised level and the independent decoder must all give the source mapping; declared format/compression compared where expressible; versatiles de-duplication checked structurally. Plus every accepted (format, compression) pair, named families (16900 tiles -> PMTiles leaf directories, full pyramid, 70/100 KiB payloads, level 31, level-14 sparse) and a sweep of tile counts around the PMTiles root/leaf switch.",
         "Bounded to the alphabet and families listed in the evidence; tile sets whose level bounding box spans astronomically many 256-blocks (e.g. opposite corners of level 31) are excluded because the writers enumerate every block of the box; the empty tile set is outside the claim. Trusted base: flate2, brotli, SQLite and the harness's own decoders (cross-validated on the same space).",
         "3/C01", "E-enum"),
 "C12": ("fault_enumeration",
         "exhaustive crash-point enumeration: every prefix of the recorded write-operation history and every byte cut of the next write, each image opened with the real reader",
         "The real VersaTilesWriter and PMTilesWriter are run over a recording DataWriterTrait for tile sets from the BFS alphabet (1..3 tiles, multi-block, leaf-directory family in thorough) and all three compressions; for every k and every byte cut (all cuts of writes <= 4 KiB and of both header writes; first/middle/last/8 KiB boundaries of larger writes) the crash image is opened with the real reader: it must fail to open or return every source tile intact and nothing else on the probe set. Conformance: logs replayed through the real DataWriterFile give byte-identical files for the full log and 16 prefixes.",
         "Crash model = prefixes and byte cuts of the operation sequence over a zero-filled file; OS-level reordering of unsynced blocks is outside the property's quantifier. A panic while opening counts as 'does not open' here and is C19's concern.",
         "3/C12", "E-fault"),
 "C14": ("model_checking",
         "stateless DFS over all completion orders of the per-tile tokio tasks and all placements of consumer polls (controlled gates + manual polling of the real operator), exhaustive per (operator, N, window)",
         "For map_blob_parallel, filter_map_blob_parallel, from_coord_iter_parallel and for_each_buffered downstream, every decision sequence (release of a parked task / consumer poll) for N<=5 (quick) / N<=6 plus selected N<=8 (thorough) items and windows 1,2,3,N is executed on the real operator in a real multi-thread tokio runtime; outputs must be the expected multiset with every result on its own coordinate and buffered chunks a partition. Large streams (10^2..10^4) only under three fixed adversarial release disciplines (labelled, not exhaustive).",
         "Owns completion order and poll placement only; atomics-level reorderings inside tokio/futures are not explored. The in-tree users (TileConverter::process_stream, from_debug) are not gated; covered functionally by C04/C02. If an implementation does not follow one-task-per-item the controller degrades to a free-running drain, reports exhaustive=false and only the output oracle applies.",
         "3/C14", "E-order"),
 "C13": ("model_checking",
         "stateless CHESS-style schedule exploration of real OS threads at interposed read/pread64/lseek64 system calls and async-mutex hand-offs, iterative preemption bounding, DFS with prefix replay",
         "Every interleaving of 2 caller threads (and every interleaving with at most 2 preemptions of 3-4 threads) at the system calls the real DataReaderFile / VersaTilesReader / PMTilesReader / TarTilesReader issue on the container file is executed against the real code, and every call must return the bytes it returns alone; deadlock = unfinished threads with none enabled. Right level: the shared state is the kernel file offset and the async mutex, both owned by the explorer.",
         "Scheduling points are system calls on the container file and Pending polls only: individual atomic operations inside futures::lock::Mutex and unsynchronised memory accesses are not reordered; 4-16 callers and multi-thread runtimes are covered by a labelled free-running sample only.",
         "3/C13", "E-sched"),
 "C15": ("model_checking",
         "explicit-state BFS (stateright) to closure over raw TileBBox states per level with a bit-mask set model, plus bounded-exhaustive enumeration of pyramids, high-zoom border boxes and geographic boxes",
         "Every raw TileBBox state reachable at zoom 0..3 through the mutating methods (both empty encodings and half-empty boxes included) is visited; every query method is compared with the set it denotes in every state and intersect/union/overlaps for every ordered pair of reachable states; pyramids over all combinations of per-level alphabets; all boxes at z<=5 (quick) / z<=6 (thorough) for the geo round trip; border boxes up to z=31 with an interval model; every lon/lat-alphabet box and zero-area box at every tile corner of z<=4/5 for from_geo. Right level: the property is a statement about all boxes and pairs, and the low-zoom space closes.",
         "Set denotation of raw fields as stated in the evidence assumptions; above zoom 3 only border alphabets are covered; the geographic oracle leaves a don't-care band of 1e-6 tile (+ float slack proportional to 2^z) around every edge.",
         "3/C15", "E-state"),
 "C20": ("model_checking",
         "explicit-state BFS (stateright) over the real LimitedCache, canonical-state de-duplication, run to closure",
         "All reachable canonical states of the real cache for capacities 1..5 (quick) / 1..8 (thorough) with capacity+2 keys are visited and every per-step clause (size bound, value-under-key, get_or_set result, just-used entry survives eviction) is checked on every transition; capacities 7..64 from three non-initial full states to a stated depth bound. This is the right level because the state space closes once stamps are abstracted to ranks.",
         "Trusts the rank abstraction argument in DESIGN.md 3/C20 (cleanup only compares stamps) and the guarded snapshot hook; capacities above 8 are depth-bounded, not closed.",
         "3/C20", "E-state"),
}

NOT_YET = "check not built yet in this round (work in progress, see DESIGN.md section 8 build order)"

def main():
    hooks = subprocess.run(["git", "-C", "/repo", "log", "--format=%H %s"], capture_output=True, text=True).stdout.splitlines()
    hook_commits = [l.split()[0] for l in hooks if " verif hook:" in l]
    checks = []
    for pid in ALL:
        if pid not in CHECKS: continue
        cat, tech, text, note, ref, engine = CHECKS[pid]
        checks.append({
            "property_id": pid,
            "quick_cmd": "./check %s quick" % pid,
            "thorough_cmd": "./check %s thorough" % pid,
            "evidence_file": "/verif/evidence/%s.json" % pid,
            "replay_cmd_template": "./check %s --replay {path}" % pid,
            "engine": engine,
            "level_claimed": {"category": cat, "text": text, "design_ref": "DESIGN.md " + ref},
            "level_note": note,
            "technique": tech,
        })
    m = {
        "version": 1,
        "setup_cmd": "./setup.sh",
        "hooks": {
            "guard": "--cfg versatiles_org_versatiles_rs_verif",
            "enable": "RUSTFLAGS=--cfg versatiles_org_versatiles_rs_verif via /verif/harness/.cargo/config.toml (harness builds only; target dir /verif/.target); the versatiles binary for the HTTP/CLI checks is built with the guard off into /verif/.target-repo",
            "baseline_off_cmd": "cd /repo && cargo nextest run --workspace --no-fail-fast --tool-config-file pb:/w/lib/nextest.toml --profile pb --test-threads 8 --offline",
            "source_commits": hook_commits,
            "add_only": True,
        },
        "engines": [
            {"name": "E-http", "path": "harness/src/checks/http.rs", "serves_properties": ["C05", "C07", "C06", "C17"], "kind_free_text": "process manager for the real versatiles serve binary + raw HTTP/1.1 keep-alive client with its own response parser (classifies dropped connections)"},
            {"name": "E-enum", "path": "harness/src/tilesets.rs, harness/src/codec.rs, harness/src/containers.rs, harness/src/checks/c01.rs", "serves_properties": ["C01", "C02", "C03", "C16"], "kind_free_text": "BFS over tile sets + bounded-exhaustive enumeration with independent codecs"},
            {"name": "E-fault", "path": "harness/src/checks/c12.rs", "serves_properties": ["C12"], "kind_free_text": "recording DataWriterTrait + crash-image materialiser, exhaustive over prefixes and byte cuts"},
            {"name": "E-order", "path": "harness/src/checks/c14.rs", "serves_properties": ["C14"], "kind_free_text": "completion-order explorer: gates in harness-supplied callbacks, manual poll_next, CPU-affinity-controlled concurrency window, DFS with prefix replay"},
            {"name": "E-sched", "path": "harness/src/bin/vsched.rs", "serves_properties": ["C13"], "kind_free_text": "controlled scheduler for real OS threads via symbol interposition of read/pread64/lseek64; stateless DFS, preemption bounded, replayable schedules"},
            {"name": "E-state", "path": "harness/src/checks/c20.rs, harness/src/checks/c15.rs", "serves_properties": ["C20", "C15"], "kind_free_text": "stateright BFS over real objects, canonical-state dedup"},
        ],
        "checks": checks,
        "notes": "All checks: ./check <id> quick|thorough; replay: ./check <id> --replay <file>. Exit 0 held, 1 violation, 2 machinery error. Known findings: known_findings.json.",
        "not_applicable": [{"property_id": p, "reason": NOT_YET} for p in ALL if p not in CHECKS],
    }
    json.dump(m, open(os.path.join(ROOT, "MANIFEST.json"), "w"), indent=1)
    print("MANIFEST.json written: %d checks, %d not claimed" % (len(checks), len(m["not_applicable"])))

main()
