#!/usr/bin/env python3
"""make_regression_seed.py <repair-commit> <Cxx> <k> <hunt-dir|-> <signature...>
Keeps the reverse of a repair commit (= the code as it stood before the repair) as a seeded change
/verif/seeded/<Cxx>-u<k>/ : patch.diff (applies to /repo HEAD), the demonstration of the sub-agent that reported the
defect (if any) and meta.json."""
import json, os, shutil, subprocess, sys
commit, pid, k, hunt = sys.argv[1:5]
sig = " ".join(sys.argv[5:])
dst = f"/verif/seeded/{pid}-u{k}"
os.makedirs(dst, exist_ok=True)
diff = subprocess.check_output(["git", "-C", "/repo", "diff", commit, commit + "~1"]).decode()
open(dst + "/patch.diff", "w").write(diff)
r = subprocess.run(["git", "-C", "/repo", "apply", "--check", dst + "/patch.diff"], capture_output=True, text=True)
if r.returncode != 0:
    print("DOES NOT APPLY TO HEAD:", r.stderr[:400]); sys.exit(1)
subject = subprocess.check_output(["git", "-C", "/repo", "log", "--format=%s", "-1", commit]).decode().strip()
short = subprocess.check_output(["git", "-C", "/repo", "log", "--format=%h", "-1", commit]).decode().strip()
meta_h = {}
demo = "the failing case of the widened check (replay file named in its VIOLATION line)"
if hunt != "-":
    try: meta_h = json.load(open(hunt + "/meta.json"))
    except Exception: pass
    for f in ("demo.rs", "demo.sh"):
        if os.path.exists(f"{hunt}/{f}"):
            shutil.copy(f"{hunt}/{f}", f"{dst}/{f}")
            demo = meta_h.get("demo", demo)
fixed = [l for l in json.load(open("/verif/known_findings.json"))["fixed"] if f" {short[:7]}" in l or f" {short} " in l]
summary = f"reverse of the repair {short} ('{subject}'): the code as it stood at the pinned commit. " + (fixed[0].split(' ', 3)[3] if fixed else meta_h.get("summary", ""))
out = {
 "property": pid,
 "summary": summary,
 "needs_to_manifest": meta_h.get("input"),
 "demo": demo,
 "author": "defect of the pinned tree found in the violation hunt (independent sub-agent given only the property text and a scratch worktree, or the widened check itself); kept as the reverse of its repair",
 "confirmed_by_me": {
   "how": "the widened check failed on the unrepaired tree with the signature below before the repair was committed; the pinned suite passes on that tree by construction (it is the baseline plus the earlier repairs)",
   "new_failing_existing_tests": [],
 },
 "check_result": {"ran": f"tools/try_seed.sh seeded/{pid}-u{k}/patch.diff {pid} quick", "detected": True, "detail": sig},
}
json.dump(out, open(dst + "/meta.json", "w"), indent=1, ensure_ascii=False)
print("kept", dst)
