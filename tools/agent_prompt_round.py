#!/usr/bin/env python3
"""agent_prompt_round.py <Cxx> <letter> [n]: prompt of a later-round sub-agent. Base prompt of agent_prompt.py plus
(a) the files earlier rounds already planted changes in for this property (steering only: nothing about the checks),
(b) supporting files no earlier change touched, (c) a request for remarks about the unchanged tree."""
import json, os, subprocess, sys, collections
pid, letter = sys.argv[1], sys.argv[2]
n = sys.argv[3] if len(sys.argv) > 3 else "2"
base = subprocess.check_output([sys.executable, os.path.dirname(__file__) + "/agent_prompt.py", pid, n]).decode()
base = base.replace("/m<k>/", f"/{letter}<k>/")
touched_here, touched_all = collections.Counter(), set()
for d in os.listdir('/verif/seeded'):
    m = json.load(open(f'/verif/seeded/{d}/meta.json'))
    for l in open(f'/verif/seeded/{d}/patch.diff'):
        if l.startswith('+++ b/'):
            f = l[6:].split('\t')[0].strip()
            touched_all.add(f)
            if m['property'] == pid: touched_here[f] += 1
HINTS = {
 'C01': 'tar/writer.rs, versatiles/types/block_definition.rs, versatiles/types/file_header.rs, container/getters.rs, versatiles_core types/tile_format.rs, types/tile_compression.rs, types/blob.rs, io/data_writer_blob.rs, io/value_writer_*.rs, pmtiles/types/tile_type.rs, pmtiles/types/tile_compression.rs',
 'C02': 'versatiles/types/block_definition.rs, types/tiles_reader_parameters.rs, types/blob.rs, io/data_reader_blob.rs, pipeline traits/runner.rs, types/byte_range.rs, directory and tar readers, container/getters.rs',
 'C03': 'versatiles/types/block_definition.rs, versatiles/types/file_header.rs, pipeline traits/runner.rs, from_container.rs, from_vectortiles_merged.rs, filter_zoom.rs, types/tile_coords.rs',
 'C04': 'types/tile_compression.rs, types/tile_format.rs, container/getters.rs, types/blob.rs, tar/writer.rs, pmtiles/types/tile_compression.rs, versatiles/types/file_header.rs, main.rs argument handling',
 'C05': 'server/utils/url.rs, types/tile_format.rs (media types / extensions), types/tile_compression.rs, container/getters.rs, main.rs, server/sources/response.rs, limited_cache.rs',
 'C06': 'container/getters.rs, main.rs, types/geo_bbox.rs, types/geo_center.rs, versatiles/types/block_definition.rs, tile_converter.rs, tiles_reader_parameters.rs',
 'C07': 'server/utils/url.rs, server/sources/static_source_tar.rs, types/tile_format.rs, types/blob.rs, main.rs',
 'C08': 'pipeline traits/runner.rs, container/getters.rs, types/tile_compression.rs, types/blob.rs, factory.rs, tiles_reader_parameters.rs, tile_bbox.rs iteration helpers',
 'C09': 'pipeline traits/runner.rs, vpl/vpl_pipeline.rs, factory.rs, types/geo_bbox.rs, types/tile_coords.rs, versatiles_derive',
 'C10': 'vector_tile/geometry_type.rs, geo/*.rs, io/value_writer_blob.rs, io/value_reader_blob.rs, types/blob.rs, vector_tile/tile.rs',
 'C11': 'utils/csv.rs, pipeline helpers/csv.rs, byte_iterator/iterator.rs, vector_tile/geometry_type.rs, io/value_*_blob.rs, geo/properties.rs, geo/feature.rs',
 'C12': 'versatiles/types/file_header.rs, io/data_writer_blob.rs, io/data_writer.rs, versatiles/types/block_definition.rs, io/value_writer_*.rs, pmtiles/types/tile_type.rs / tile_compression.rs, types/byte_range.rs',
 'C13': 'io/data_reader.rs, io/value_reader_file.rs, tar/reader.rs, types/limited_cache.rs, versatiles/types/block_index.rs, byte_range.rs',
 'C14': 'pipeline traits/runner.rs, progress/*.rs, tile_converter.rs, tiles_reader.rs, from_overlayed.rs / from_vectortiles_merged.rs (their use of the operators)',
 'C15': 'types/geo_center.rs, types/tile_coords.rs, utils/transform_coord.rs, tile_bbox.rs less-used methods that the listed operations call (scale helpers, iterators, constructors)',
 'C16': 'versatiles/types/block_definition.rs, versatiles/types/file_header.rs, pmtiles/types/tile_type.rs, pmtiles/types/tile_compression.rs, pmtiles/types/header_v3.rs, io/value_reader_blob.rs, directory/reader.rs, types/tile_format.rs',
 'C17': 'json/read.rs, json/types/array.rs, json/types/number.rs, json/types/object.rs, tilejson/vector_layer.rs, types/geo_center.rs, byte_iterator/iterator.rs, tar/writer.rs, directory/writer.rs, server/sources/tile_source.rs',
 'C18': 'pipeline traits/runner.rs, factory.rs, versatiles_derive (other files than decode_struct.rs), vpl/vpl_pipeline.rs, operations/*/mod.rs registration',
 'C19': 'byte_iterator/iterator.rs, utils/csv.rs, io/value_reader_blob.rs, versatiles/types/file_header.rs, versatiles/types/block_definition.rs, pmtiles/types/header_v3.rs, tar/reader.rs, mbtiles/reader.rs, directory/reader.rs, tilejson/vector_layer.rs, json/types/*.rs',
 'C20': 'the key types and their Hash/Eq, pmtiles/reader.rs and versatiles/reader.rs use of the cache, limited_cache.rs constructors / capacity computation',
}
here = ", ".join(f"{f} ({c}x)" for f, c in touched_here.most_common()) or "none"
extra = f"""

ADDITIONAL NOTES FOR THIS ROUND
 - Several reviewers before you have already planted changes for this property in: {here}. Across all properties the most used sites were versatiles/reader.rs, pmtiles/reader.rs, mbtiles/reader.rs, tile_bbox.rs, entries_v3.rs, tile_stream.rs, converter.rs and compression.rs. Do NOT repeat those mechanisms; prefer code sites nobody has used yet. Supporting code this property's behaviour depends on and that no earlier change touched includes (names relative to the crates' src directories): {HINTS.get(pid, '')}. Changes in supporting code (type conversions, helpers, trait default methods, writers of a format as well as readers, command-line glue) count as long as the PROPERTY as stated is broken through the project's public behaviour.
 - Mechanisms that earlier reviewers have already used many times and that you should NOT use again: off-by-one or changed behaviour at a size threshold (4096 / 16384 / 65536 / 2^21 bytes or entries), a cache or memo with a weak key or a race, a dropped or wrong coverage (bounding-box pyramid) update, an early exit in the overlay / merge loops, zoom gaps, symbolic or hard links, truncating a 64-bit count to 32 bits, read-ahead / buffering in the file reader or writer, a repeated parameter in pipeline texts, truncated or partially read files, per-format special cases in the HTTP response, percent-decoding of request paths, zero-length tiles being skipped, tile type / compression code tables, choosing a reader by file name, temporary output files, output files that are not truncated, a filter or stage being dropped by a shortcut, clipping a stream to metadata bounds, equality / hash of key types, state leaked by a failed pipeline build, trimming of CSV cells, skipping layers by version, aliased file names in directories. Look for other kinds: two cooperating sites that each look fine alone; an error path that leaves state behind; the order of two operations; behaviour that depends on the current working directory, relative paths or file extensions; text formatting of numbers; iteration order of hash maps; default values of options; combinations of three options; the second and third call on the same object; very small inputs (empty, one element) as well as unusual-but-valid encodings.
 - Aim for changes that are hard to find: triggered only by a specific size, count, alignment, name, option combination, earlier operation on the same object, or ordering - and state exactly which in meta.json.
 - Separately from your changes: if you notice that the UNCHANGED tree already violates the property for some input (confirmed by running it), describe the input and the observed behaviour in /tmp/seeded_out/{pid}/remarks.md. Do not spend more than a few minutes on this.
"""
print(base + extra)
