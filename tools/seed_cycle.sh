#!/bin/bash
# usage: tools/seed_cycle.sh <Cxx> <k> [demo-arg]   confirm a sub-agent's seeded change in its scratch worktree, then try it
# against the quick check of its property. Prints one CONFIRM line and one TRY line.
ID="$1"; K="$2"; ARG="${3:-}"
OUT="/tmp/seeded_out/$ID/$K"
[ -f "$OUT/patch.diff" ] || { echo "CONFIRM $ID-$K no patch.diff"; exit 1; }
( cd /tmp && /verif/tools/confirm_seed.sh "$ID" "$K" $ARG ) > "$OUT/confirm.out" 2>&1
C=$(python3 -c "import json;d=json.load(open('$OUT/confirm.json'));print('confirmed=%s with=%s without=%s newfail=%s %s'%(d.get('confirmed'),d.get('demo_exit_with_change'),d.get('demo_exit_without_change'),d.get('new_failing_existing_tests'),d.get('suite_summary_with_change','')[:60]))" 2>/dev/null)
echo "CONFIRM $ID-$K $C"
OUTT=$(/verif/tools/try_seed.sh "$OUT/patch.diff" "$ID" quick 2>&1)
RC=$(echo "$OUTT" | grep -o '^exit=[0-9]*' | head -1)
SIG=$(echo "$OUTT" | grep -m1 'signature:' | cut -c1-200)
echo "TRY $ID-$K $RC $SIG"
