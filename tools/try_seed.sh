#!/bin/bash
# usage: tools/try_seed.sh <patch.diff> <Cxx> [quick|thorough]  -- applies a seeded change to /repo, runs the check, reverts.
set -u
PATCH="$1"; ID="$2"; TIER="${3:-quick}"
cd /repo || exit 2
git diff --quiet HEAD || { echo "/repo has uncommitted changes" >&2; exit 2; }
git apply "$PATCH" || { echo "patch does not apply" >&2; exit 2; }
( cd /verif && ./check "$ID" "$TIER" > "/tmp/seedrun-$ID.log" 2>&1 ); RC=$?
git -C /repo reset -q --hard HEAD ; git -C /repo clean -fdq -e target
echo "exit=$RC"; grep -E '^(VIOLATION|KNOWN-FINDING|MACHINERY|  signature|\[C)' "/tmp/seedrun-$ID.log" | head -20
exit 0
