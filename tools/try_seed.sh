#!/bin/bash
# usage: tools/try_seed.sh <patch.diff> <Cxx> [quick|thorough]
# Applies a seeded change to /repo, builds the harness + binary against it, reverts /repo at once, then runs the
# check with the seeded binaries - all under /tmp/verif-repo.lock, so that no other locked build sees the seeded
# sources and nobody replaces the seeded binaries while the check (which spawns workers / servers) still runs.
set -u
ROOT="$(cd "$(dirname "$0")/.." && pwd)"
PATCH="$(realpath "$1")"; ID="$2"; TIER="${3:-quick}"
TAG="$ID-$$"
cd /repo || exit 2
(
  flock 9
  git diff --quiet HEAD || { echo "/repo has uncommitted changes" >&2; exit 2; }
  git apply "$PATCH" || { echo "patch does not apply" >&2; exit 2; }
  ( cd "$ROOT" && ./setup.sh > "/tmp/seedbuild-$TAG.log" 2>&1 ); B=$?
  git -C /repo reset -q --hard HEAD ; git -C /repo clean -fdq -e target
  [ $B -eq 0 ] || { echo "build with the seeded change failed"; tail -20 "/tmp/seedbuild-$TAG.log"; exit 2; }
  rm -f "/tmp/seedbuild-$TAG.log"
  ( cd "$ROOT" && VERIF_SKIP_BUILD=1 ./check "$ID" "$TIER" > "/tmp/seedrun-$TAG.log" 2>&1 ); RC=$?
  echo "exit=$RC"; grep -E '^(VIOLATION|MACHINERY|  signature|\[C)' "/tmp/seedrun-$TAG.log" | head -12
  cp "/tmp/seedrun-$TAG.log" "/tmp/seedrun-$ID.log"; rm -f "/tmp/seedrun-$TAG.log"
) 9>/tmp/verif-repo.lock
exit 0
