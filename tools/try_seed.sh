#!/bin/bash
# usage: tools/try_seed.sh <patch.diff> <Cxx> [quick|thorough]
# Applies a seeded change to /repo, builds the harness + binary against it, reverts /repo at once
# (all under /tmp/verif-repo.lock so that no other build sees the seeded sources), then runs the check
# with the seeded binaries.
set -u
PATCH="$1"; ID="$2"; TIER="${3:-quick}"
cd /repo || exit 2
(
  flock 9
  git diff --quiet HEAD || { echo "/repo has uncommitted changes" >&2; exit 2; }
  git apply "$PATCH" || { echo "patch does not apply" >&2; exit 2; }
  ( cd /verif && ./setup.sh > "/tmp/seedbuild-$ID.log" 2>&1 ); B=$?
  git -C /repo reset -q --hard HEAD ; git -C /repo clean -fdq -e target
  exit $B
) 9>/tmp/verif-repo.lock || { echo "build with the seeded change failed"; tail -20 "/tmp/seedbuild-$ID.log"; exit 2; }
( cd /verif && VERIF_SKIP_BUILD=1 ./check "$ID" "$TIER" > "/tmp/seedrun-$ID.log" 2>&1 ); RC=$?
echo "exit=$RC"; grep -E '^(VIOLATION|KNOWN-FINDING|MACHINERY|  signature|\[C)' "/tmp/seedrun-$ID.log" | head -20
exit 0
