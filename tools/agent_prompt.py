#!/usr/bin/env python3
"""Prints the prompt for a mutant-writing sub-agent: property text + worktree only (nothing from /verif)."""
import json, sys
pid = sys.argv[1]
n = sys.argv[2] if len(sys.argv) > 2 else "2"
p = next(json.loads(l) for l in open('/verif/properties.jsonl') if json.loads(l)['id'] == pid)
fails = json.load(open('/root/.vp/BASELINE.json'))['always_fail']
print(f"""You are helping to evaluate a verification effort for the Rust project versatiles-rs (a toolbox for converting, probing and serving map tiles: container formats versatiles/mbtiles/pmtiles/tar/directory, a small pipeline language "VPL", an HTTP server). You get a private git worktree of the repository at /tmp/wt/{pid} (already created; work ONLY there; never touch /repo or /verif, and do not read anything under /verif). The machine is offline: always pass --offline to cargo (e.g. `cargo build --offline`, `cargo test --offline -p <crate>`). Several other jobs share this machine, so builds can be slow; use `-p <crate>` to limit what you build where possible.

Here is a semantic property of the project that should always hold:

TITLE: {p['title']}
STATEMENT: {p['statement']}
QUANTIFIED OVER: {p['quantifier']['text']}
RELEVANT FILES (starting points): {', '.join(p['anchors']['files'])}

YOUR TASK: write {n} different, realistic changes ("seeded defects") to the project's source code (non-test code under the crates' src/ directories), each of which BREAKS this property while the project still compiles and ALL existing tests that pass today still pass. Each change should look like a plausible regression a maintainer could introduce (an optimisation, a refactoring slip, an off-by-one, a reordered statement, a cache or shortcut, two cooperating sites that each look fine alone) - not sabotage that ordinary use would expose at once. Prefer changes that need something SPECIFIC to manifest: a particular interleaving or completion order, a crash/fault at a particular point, a multi-step sequence of operations, an unusual-but-valid input (boundary coordinates, sizes around internal thresholds, unusual option combinations), or a particular combination of configuration. The {n} changes must use different mechanisms / different code sites from each other.

For EACH change k (k = 1..{n}) produce in /tmp/seeded_out/{pid}/m<k>/ :
  - patch.diff : `git diff` of the change against the worktree's HEAD (apply-able with `git apply` at the repository root; source files only, no test edits, no new dependencies),
  - a demonstration: either a Rust test file `demo.rs` (an integration test that can be dropped into the `tests/` directory of the named crate, e.g. /tmp/wt/{pid}/versatiles_core/tests/demo.rs, using only the crate's public API and its existing dev-dependencies such as tokio with macros / assert_fs) or a shell script `demo.sh` that drives the built binary. The demonstration must FAIL (non-zero exit / failing test) with the change applied and PASS without it,
  - meta.json : {{"property": "{pid}", "summary": "<one paragraph: what the change does>", "needs_to_manifest": "<what specific input / schedule / sequence / configuration is needed>", "demo": "<exact commands to run the demonstration, incl. where demo.rs is copied>", "tests_run": "<exact test commands you ran with the change applied and their result>"}}.

REQUIREMENTS you must verify yourself, in the worktree, for each change separately (start each from a clean `git checkout -- . && git clean -fd -e target`):
  1. With the change applied the workspace compiles: `cargo build --offline --workspace`.
  2. With the change applied the existing test-suite still passes: run `cargo test --offline --workspace --no-fail-fast` (or at least every crate your change can affect, plus its dependants). NOTE: these {len(fails)} tests fail even on the unchanged tree in this sandbox (missing network / emptied test data) and do not count: {', '.join(fails)}.
  3. The demonstration fails with the change and passes on the unchanged tree.
  Do not weaken, delete or edit any existing test. If a candidate change makes an existing test fail, pick another change.

When you are done, leave the worktree CLEAN (git checkout -- . ; remove any demo test files you copied in) but keep its `target/` directory. Finish with a short report: for each change the file/function touched, why it breaks the property, what it needs to manifest, and the commands you ran with their outcome. Do not spend time on more than {n} changes.""")
