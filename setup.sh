#!/bin/bash
# Builds the harness (hooks on) and the versatiles binary (hooks off) from /repo, offline.
set -eu
ROOT="$(cd "$(dirname "$0")" && pwd)"
export CARGO_NET_OFFLINE=true
mkdir -p "$ROOT/evidence" "$ROOT/replays" "$ROOT/.work"
( cd "$ROOT/harness" && CARGO_TARGET_DIR="$ROOT/.target" cargo build --offline --bins )
( cd /repo && cargo build --offline --bin versatiles --target-dir "$ROOT/.target-repo" )
